//! Typed walk over an accepted `anda_kip::Command` that names every grammar family the tree
//! exercises (evidence: which parts of the language the accepted inputs reached). Matches are
//! exhaustive on purpose: a new AST variant breaks the build of the monitor instead of going
//! unobserved.

use anda_kip::*;
use std::collections::BTreeSet;

pub type Fams = BTreeSet<String>;

fn f(out: &mut Fams, s: &str) {
    if !out.contains(s) {
        out.insert(s.to_string());
    }
}

fn kip_value(v: &KipValue, out: &mut Fams) {
    match v {
        KipValue::Null => f(out, "lit:Null"),
        KipValue::Bool(_) => f(out, "lit:Bool"),
        KipValue::Number(n) => {
            if n.is_f64() {
                f(out, "lit:Number.float")
            } else if n.is_i64() && n.as_i64().unwrap_or(0) < 0 {
                f(out, "lit:Number.negative")
            } else {
                f(out, "lit:Number.int")
            }
        }
        KipValue::String(_) => f(out, "lit:String"),
        KipValue::Array(items) => {
            f(out, "lit:Array");
            items.iter().for_each(|i| kip_value(i, out));
        }
        KipValue::Object(m) => {
            f(out, "lit:Object");
            m.values().for_each(|i| kip_value(i, out));
        }
    }
}

fn scalar(s: &Scalar, out: &mut Fams) {
    match s {
        Scalar::Literal(v) => {
            f(out, "scalar:Literal");
            kip_value(v, out)
        }
        Scalar::Param(_) => f(out, "scalar:Param"),
    }
}

fn dot_path(p: &DotPathVar, out: &mut Fams) {
    if p.path.is_empty() {
        f(out, "path:bare");
    }
    for s in &p.path {
        match s {
            PathStep::Field(_) => f(out, "path:Field"),
            PathStep::Key(_) => f(out, "path:Key"),
        }
    }
}

fn bound_value(v: &BoundValue, out: &mut Fams) {
    match v {
        BoundValue::Value(k) => {
            f(out, "bound:Value");
            kip_value(k, out)
        }
        BoundValue::Param(_) => f(out, "bound:Param"),
        BoundValue::Handle(_) => f(out, "bound:Handle"),
        BoundValue::Variable(p) => {
            f(out, "bound:Variable");
            dot_path(p, out)
        }
        BoundValue::Array(items) => {
            f(out, "bound:Array");
            items.iter().for_each(|i| bound_value(i, out));
        }
        BoundValue::Object(m) => {
            f(out, "bound:Object");
            m.iter().for_each(|(_, i)| bound_value(i, out));
        }
    }
}

fn bound_object(o: &BoundObject, out: &mut Fams) {
    o.values().for_each(|v| bound_value(v, out));
}

fn pred_atom(a: &PredAtom, out: &mut Fams) {
    match a {
        PredAtom::Variable(_) => f(out, "pred:Variable"),
        PredAtom::Literal(_) => f(out, "pred:Literal"),
        PredAtom::Param(_) => f(out, "pred:Param"),
    }
}

fn pred_term(p: &PredTerm, out: &mut Fams) {
    match p {
        PredTerm::Atom(a) => {
            f(out, "pred:Atom");
            pred_atom(a, out)
        }
        PredTerm::Path(atoms) => {
            f(out, "pred:Path");
            if atoms.len() > 1 {
                f(out, "pred:alternation");
            }
            for a in atoms {
                pred_atom(&a.predicate, out);
                match a.hops {
                    None => {}
                    Some(HopRange { min, max: Some(m) }) if m == min => f(out, "hops:exact"),
                    Some(HopRange { max: Some(_), .. }) => f(out, "hops:range"),
                    Some(HopRange { max: None, .. }) => f(out, "hops:open"),
                }
            }
        }
    }
}

fn term(t: &Term, out: &mut Fams) {
    match t {
        Term::Variable(_) => f(out, "term:Variable"),
        Term::Param(_) => f(out, "term:Param"),
        Term::Literal(v) => {
            f(out, "term:Literal");
            kip_value(v, out)
        }
        Term::Match(m) => {
            f(out, "term:Match");
            matcher(m, out)
        }
        Term::Proposition(p) => {
            f(out, "term:Proposition");
            prop_matcher(p, out)
        }
    }
}

fn triple(t: &PropositionTriple, out: &mut Fams) {
    term(&t.subject, out);
    pred_term(&t.predicate, out);
    term(&t.object, out);
}

fn prop_matcher(p: &PropositionMatcher, out: &mut Fams) {
    match p {
        PropositionMatcher::Tuple(t) => {
            f(out, "prop:Tuple");
            triple(t, out)
        }
        PropositionMatcher::Id(s) => {
            f(out, "prop:Id");
            scalar(s, out)
        }
    }
}

fn match_value(v: &MatchValue, out: &mut Fams) {
    match v {
        MatchValue::Variable(_) => f(out, "match:Variable"),
        MatchValue::Param(_) => f(out, "match:Param"),
        MatchValue::Literal(k) => {
            f(out, "match:Literal");
            kip_value(k, out)
        }
        MatchValue::Array(items) => {
            f(out, "match:Array");
            items.iter().for_each(|i| match_value(i, out));
        }
        MatchValue::Match(m) => {
            f(out, "match:Match");
            matcher(m, out)
        }
        MatchValue::Proposition(p) => {
            f(out, "match:Proposition");
            prop_matcher(p, out)
        }
    }
}

fn matcher(m: &ObjectMatcher, out: &mut Fams) {
    if m.is_empty() {
        f(out, "matcher:empty");
    }
    m.values().for_each(|v| match_value(v, out));
}

fn operand(o: &FilterOperand, out: &mut Fams) {
    match o {
        FilterOperand::Variable(p) => {
            f(out, "operand:Variable");
            dot_path(p, out)
        }
        FilterOperand::Literal(v) => {
            f(out, "operand:Literal");
            kip_value(v, out)
        }
        FilterOperand::Param(_) => f(out, "operand:Param"),
        FilterOperand::List(items) => {
            f(out, "operand:List");
            items.iter().for_each(|i| operand(i, out));
        }
        FilterOperand::Negate(i) => {
            f(out, "operand:Negate");
            operand(i, out)
        }
    }
}

fn filter(e: &FilterExpression, out: &mut Fams) {
    match e {
        FilterExpression::Comparison { left, operator, right } => {
            f(out, &format!("filter:Comparison.{operator:?}"));
            operand(left, out);
            operand(right, out);
        }
        FilterExpression::Logical { left, operator, right } => {
            f(out, &format!("filter:Logical.{operator:?}"));
            filter(left, out);
            filter(right, out);
        }
        FilterExpression::Not(i) => {
            f(out, "filter:Not");
            filter(i, out)
        }
        FilterExpression::Function { func, args } => {
            f(out, &format!("filter:Function.{func:?}"));
            args.iter().for_each(|a| operand(a, out));
        }
    }
}

fn where_clauses(cs: &[WhereClause], out: &mut Fams) {
    if cs.is_empty() {
        f(out, "where:empty");
    }
    for c in cs {
        match c {
            WhereClause::Concept { matcher: m, .. } => {
                f(out, "where:Concept");
                matcher(m, out)
            }
            WhereClause::Proposition { variable, matcher: m } => {
                f(out, if variable.is_some() { "where:Proposition.var" } else { "where:Proposition.novar" });
                prop_matcher(m, out)
            }
            WhereClause::Assertion { matcher: m, .. } => {
                f(out, "where:Assertion");
                matcher(m, out)
            }
            WhereClause::Evidence { matcher: m, .. } => {
                f(out, "where:Evidence");
                matcher(m, out)
            }
            WhereClause::Activity { matcher: m, .. } => {
                f(out, "where:Activity");
                matcher(m, out)
            }
            WhereClause::Structural { variable, subject, field, object } => {
                f(out, if variable.is_some() { "where:Structural.var" } else { "where:Structural.novar" });
                term(subject, out);
                symbol(field, out);
                term(object, out);
            }
            WhereClause::Belief { target, .. } => match target {
                BeliefTarget::Proposition(_) => f(out, "where:Belief.Proposition"),
                BeliefTarget::Id(s) => {
                    f(out, "where:Belief.Id");
                    scalar(s, out)
                }
                BeliefTarget::Tuple(t) => {
                    f(out, "where:Belief.Tuple");
                    triple(t, out)
                }
            },
            WhereClause::BeliefSlot { subject, predicate, .. } => {
                f(out, "where:BeliefSlot");
                term(subject, out);
                pred_atom(predicate, out);
            }
            WhereClause::Filter { expression } => {
                f(out, "where:Filter");
                filter(expression, out)
            }
            WhereClause::Not(i) => {
                f(out, "where:Not");
                where_clauses(i, out)
            }
            WhereClause::Optional(i) => {
                f(out, "where:Optional");
                where_clauses(i, out)
            }
            WhereClause::Union(i) => {
                f(out, "where:Union");
                where_clauses(i, out)
            }
        }
    }
}

fn symbol(s: &SymbolRef, out: &mut Fams) {
    match s {
        SymbolRef::Name(_) => f(out, "symbol:Name"),
        SymbolRef::Param(_) => f(out, "symbol:Param"),
    }
}

fn as_of(a: &Option<AsOf>, out: &mut Fams) {
    match a {
        None => {}
        Some(AsOf::Seq(s)) => {
            f(out, "as_of:Seq");
            scalar(s, out)
        }
        Some(AsOf::Tx(s)) => {
            f(out, "as_of:Tx");
            scalar(s, out)
        }
        Some(AsOf::Time(s)) => {
            f(out, "as_of:Time");
            scalar(s, out)
        }
    }
}

fn opt_scalar(name: &str, s: &Option<Scalar>, out: &mut Fams) {
    if let Some(s) = s {
        f(out, name);
        scalar(s, out);
    }
}

fn element_ref(prefix: &str, r: &ElementRef, out: &mut Fams) {
    match r {
        ElementRef::Handle(_) => f(out, &format!("{prefix}:target.Handle")),
        ElementRef::Param(_) => f(out, &format!("{prefix}:target.Param")),
        ElementRef::Id(_) => f(out, &format!("{prefix}:target.Id")),
    }
}

fn update_expr(e: &UpdateExpr, out: &mut Fams) {
    match e {
        UpdateExpr::Variable(p) => {
            f(out, "uexpr:Variable");
            dot_path(p, out)
        }
        UpdateExpr::Number(_) => f(out, "uexpr:Number"),
        UpdateExpr::Param(_) => f(out, "uexpr:Param"),
        UpdateExpr::Function { func, args } => {
            f(out, &format!("uexpr:Function.{func:?}"));
            args.iter().for_each(|a| update_expr(a, out));
        }
    }
}

fn mutation_value(v: &MutationValue, out: &mut Fams) {
    match v {
        MutationValue::Value(k) => {
            f(out, "mval:Value");
            kip_value(k, out)
        }
        MutationValue::Param(_) => f(out, "mval:Param"),
        MutationValue::Handle(_) => f(out, "mval:Handle"),
        MutationValue::Variable(p) => {
            f(out, "mval:Variable");
            dot_path(p, out)
        }
        MutationValue::Array(items) => {
            f(out, "mval:Array");
            items.iter().for_each(|i| bound_value(i, out));
        }
        MutationValue::Object(m) => {
            f(out, "mval:Object");
            m.iter().for_each(|(_, i)| bound_value(i, out));
        }
        MutationValue::Expr(e) => {
            f(out, "mval:Expr");
            update_expr(e, out)
        }
    }
}

fn assignments(prefix: &str, name: &str, a: &Option<Assignments>, out: &mut Fams) {
    if let Some(a) = a {
        f(out, &format!("{prefix}:{name}"));
        a.iter().for_each(|(_, v)| mutation_value(v, out));
    }
}

fn facets(prefix: &str, fs: &[FacetAssignment], out: &mut Fams) {
    if !fs.is_empty() {
        f(out, &format!("{prefix}:set_facets"));
    }
    if fs.len() > 1 {
        f(out, &format!("{prefix}:set_facets.multiple"));
    }
    for fa in fs {
        symbol(&fa.facet, out);
        fa.values.iter().for_each(|(_, v)| mutation_value(v, out));
    }
}

fn edges(prefix: &str, e: &Option<Vec<StructuralEdge>>, out: &mut Fams) {
    if let Some(e) = e {
        f(out, &format!("{prefix}:set_structural"));
        for edge in e {
            symbol(&edge.field, out);
            mutation_value(&edge.value, out);
            if let Some(o) = &edge.options {
                f(out, "edge:options");
                bound_object(o, out);
            }
        }
    }
}

fn removals(prefix: &str, e: &Option<Vec<StructuralRemoval>>, out: &mut Fams) {
    if let Some(e) = e {
        f(out, &format!("{prefix}:unset_structural"));
        for r in e {
            symbol(&r.field, out);
            mutation_value(&r.value, out);
        }
    }
}

fn opt_where(prefix: &str, w: &Option<Vec<WhereClause>>, out: &mut Fams) {
    if let Some(w) = w {
        f(out, &format!("{prefix}:where"));
        where_clauses(w, out);
    }
}

fn record(prefix: &str, c: &RecordCreate, out: &mut Fams) {
    f(out, &format!("kml:{prefix}"));
    opt_scalar(&format!("{prefix}:client_key"), &c.client_key, out);
    assignments(prefix, "set_fields", &c.set_fields, out);
    facets(prefix, &c.set_facets, out);
    edges(prefix, &c.set_structural, out);
    if c.handle.contains('#') {
        f(out, "kml:assert-desugared");
    }
}

fn clause(c: &MutationClause, out: &mut Fams) {
    match c {
        MutationClause::CreateConcept(c) => {
            let p = "CreateConcept";
            f(out, "kml:CreateConcept");
            if let Some(t) = &c.r#type {
                f(out, "CreateConcept:type");
                symbol(t, out);
            }
            opt_scalar("CreateConcept:client_key", &c.client_key, out);
            opt_scalar("CreateConcept:name", &c.name, out);
            assignments(p, "set_fields", &c.set_fields, out);
            assignments(p, "set_attributes", &c.set_attributes, out);
            facets(p, &c.set_facets, out);
            edges(p, &c.set_structural, out);
        }
        MutationClause::UpsertConcept(c) => {
            let p = "UpsertConcept";
            f(out, "kml:UpsertConcept");
            if let Some(m) = &c.r#match {
                f(out, "UpsertConcept:match");
                if m.contains_key("id") {
                    f(out, "UpsertConcept:match.id");
                }
                if m.contains_key("key") {
                    f(out, "UpsertConcept:match.key");
                }
                matcher(m, out);
            }
            opt_scalar("UpsertConcept:expect_version", &c.expect_version, out);
            assignments(p, "set_fields", &c.set_fields, out);
            assignments(p, "set_attributes", &c.set_attributes, out);
            facets(p, &c.set_facets, out);
            if c.unset_attributes.is_some() {
                f(out, "UpsertConcept:unset_attributes");
            }
            if !c.unset_facets.is_empty() {
                f(out, "UpsertConcept:unset_facets");
            }
            edges(p, &c.set_structural, out);
            removals(p, &c.unset_structural, out);
        }
        MutationClause::EnsureProposition(c) => {
            f(out, "kml:EnsureProposition");
            if c.handle.is_some() {
                f(out, "EnsureProposition:handle");
            }
            term(&c.subject, out);
            pred_atom(&c.predicate, out);
            term(&c.object, out);
            opt_scalar("EnsureProposition:expect_version", &c.expect_version, out);
            if c.handle.as_deref().is_some_and(|h| h.contains('#')) {
                f(out, "kml:assert-desugared");
            }
        }
        MutationClause::CreateEvidence(c) => record("CreateEvidence", c, out),
        MutationClause::CreateAssertion(c) => record("CreateAssertion", c, out),
        MutationClause::CreateActivity(c) => record("CreateActivity", c, out),
        MutationClause::Update(c) => {
            f(out, "kml:Update");
            element_ref("Update", &c.target, out);
            opt_scalar("Update:expect_version", &c.expect_version, out);
            for a in &c.actions {
                match a {
                    UpdateAction::SetFields(a) => {
                        f(out, "Update:SetFields");
                        a.iter().for_each(|(_, v)| mutation_value(v, out));
                    }
                    UpdateAction::SetAttributes(a) => {
                        f(out, "Update:SetAttributes");
                        a.iter().for_each(|(_, v)| mutation_value(v, out));
                    }
                    UpdateAction::SetFacet(fa) => {
                        f(out, "Update:SetFacet");
                        symbol(&fa.facet, out);
                        fa.values.iter().for_each(|(_, v)| mutation_value(v, out));
                    }
                    UpdateAction::UnsetAttributes(_) => f(out, "Update:UnsetAttributes"),
                    UpdateAction::UnsetFacet(u) => {
                        f(out, "Update:UnsetFacet");
                        symbol(&u.facet, out)
                    }
                    UpdateAction::SetStructural(e) => {
                        f(out, "Update:SetStructural");
                        edges("Update", &Some(e.clone()), out)
                    }
                    UpdateAction::UnsetStructural(e) => {
                        f(out, "Update:UnsetStructural");
                        removals("Update", &Some(e.clone()), out)
                    }
                }
            }
            opt_where("Update", &c.where_clauses, out);
            opt_scalar("Update:limit", &c.limit, out);
        }
        MutationClause::RetractAssertion(c) => {
            f(out, "kml:RetractAssertion");
            element_ref("RetractAssertion", &c.target, out);
            opt_where("RetractAssertion", &c.where_clauses, out);
            opt_scalar("RetractAssertion:limit", &c.limit, out);
            opt_scalar("RetractAssertion:expect_state", &c.expect_state, out);
        }
        MutationClause::SupersedeAssertion(c) => {
            f(out, "kml:SupersedeAssertion");
            element_ref("SupersedeAssertion", &c.target, out);
            element_ref("SupersedeAssertion.by", &c.by, out);
            opt_scalar("SupersedeAssertion:expect_state", &c.expect_state, out);
        }
        MutationClause::CorrectEvidence(c) => {
            f(out, "kml:CorrectEvidence");
            element_ref("CorrectEvidence", &c.target, out);
            element_ref("CorrectEvidence.by", &c.by, out);
            opt_scalar("CorrectEvidence:expect_state", &c.expect_state, out);
        }
        MutationClause::TransitionActivity(c) => {
            f(out, "kml:TransitionActivity");
            element_ref("TransitionActivity", &c.target, out);
            scalar(&c.to, out);
            assignments("TransitionActivity", "set_fields", &c.set_fields, out);
            edges("TransitionActivity", &c.set_structural, out);
            opt_scalar("TransitionActivity:expect_state", &c.expect_state, out);
        }
        MutationClause::SetRetention(c) => {
            f(out, "kml:SetRetention");
            element_ref("SetRetention", &c.target, out);
            c.values.iter().for_each(|(_, v)| mutation_value(v, out));
            opt_where("SetRetention", &c.where_clauses, out);
            opt_scalar("SetRetention:limit", &c.limit, out);
            opt_scalar("SetRetention:expect_version", &c.expect_version, out);
        }
        // Archive / Tombstone share one payload type; handled below
        MutationClause::Archive(_) | MutationClause::Tombstone(_) => {}
        MutationClause::Purge(c) => {
            f(out, "kml:Purge");
            element_ref("Purge", &c.target, out);
            opt_where("Purge", &c.where_clauses, out);
            opt_scalar("Purge:limit", &c.limit, out);
            opt_scalar("Purge:reference_policy", &c.reference_policy, out);
        }
        MutationClause::MergeConcept(c) => {
            f(out, "kml:MergeConcept");
            element_ref("MergeConcept", &c.source, out);
            element_ref("MergeConcept.into", &c.into, out);
            opt_where("MergeConcept", &c.where_clauses, out);
            opt_scalar("MergeConcept:expect_version", &c.expect_version, out);
        }
    }
    let removal = |p: &str, c: &RemovalStatement, out: &mut Fams| {
        f(out, &format!("kml:{p}"));
        element_ref(p, &c.target, out);
        opt_where(p, &c.where_clauses, out);
        opt_scalar(&format!("{p}:limit"), &c.limit, out);
        opt_scalar(&format!("{p}:expect_state"), &c.expect_state, out);
    };
    match c {
        MutationClause::Archive(c) => removal("Archive", c, out),
        MutationClause::Tombstone(c) => removal("Tombstone", c, out),
        _ => {}
    }
}

fn meta(m: &MetaCommand, out: &mut Fams) {
    match m {
        MetaCommand::Describe(t) => {
            match t {
                DescribeTarget::Primer { mode } => {
                    f(out, "meta:Describe.Primer");
                    opt_scalar("Describe.Primer:mode", mode, out)
                }
                DescribeTarget::Protocol => f(out, "meta:Describe.Protocol"),
                DescribeTarget::ExecutionContext => f(out, "meta:Describe.ExecutionContext"),
                DescribeTarget::Capabilities => f(out, "meta:Describe.Capabilities"),
                DescribeTarget::Space { value } => {
                    f(out, "meta:Describe.Space");
                    opt_scalar("Describe.Space:value", value, out)
                }
                DescribeTarget::SchemaEnvironment { as_of: a } => {
                    f(out, "meta:Describe.SchemaEnvironment");
                    if a.is_some() {
                        f(out, "Describe.SchemaEnvironment:as_of");
                    }
                    as_of(a, out)
                }
                DescribeTarget::Package(s) => {
                    f(out, "meta:Describe.Package");
                    scalar(s, out)
                }
                DescribeTarget::Type(s) => {
                    f(out, "meta:Describe.Type");
                    scalar(s, out)
                }
                DescribeTarget::Predicate(s) => {
                    f(out, "meta:Describe.Predicate");
                    scalar(s, out)
                }
                DescribeTarget::Facet(s) => {
                    f(out, "meta:Describe.Facet");
                    scalar(s, out)
                }
                DescribeTarget::StructuralField(s) => {
                    f(out, "meta:Describe.StructuralField");
                    scalar(s, out)
                }
                DescribeTarget::Compatibility { from, to } => {
                    f(out, "meta:Describe.Compatibility");
                    scalar(from, out);
                    scalar(to, out)
                }
                DescribeTarget::Error(s) => {
                    f(out, "meta:Describe.Error");
                    scalar(s, out)
                }
                DescribeTarget::Transaction(s) => {
                    f(out, "meta:Describe.Transaction");
                    scalar(s, out)
                }
                DescribeTarget::TransactionByIdempotencyKey(s) => {
                    f(out, "meta:Describe.TransactionByIdempotencyKey");
                    scalar(s, out)
                }
                DescribeTarget::Snapshot { as_of: a } => {
                    f(out, "meta:Describe.Snapshot");
                    if a.is_some() {
                        f(out, "Describe.Snapshot:as_of");
                    }
                    as_of(a, out)
                }
                DescribeTarget::Capsule(s) => {
                    f(out, "meta:Describe.Capsule");
                    scalar(s, out)
                }
                DescribeTarget::EpistemicPolicy { value } => {
                    f(out, "meta:Describe.EpistemicPolicy");
                    opt_scalar("Describe.EpistemicPolicy:value", value, out)
                }
                DescribeTarget::ProjectionCapability => f(out, "meta:Describe.ProjectionCapability"),
                DescribeTarget::Trust { value } => {
                    f(out, "meta:Describe.Trust");
                    opt_scalar("Describe.Trust:value", value, out)
                }
                DescribeTarget::Access { with } => {
                    f(out, "meta:Describe.Access");
                    if let Some(w) = with {
                        f(out, "Describe.Access:with");
                        bound_object(w, out);
                    }
                }
            }
        }
        MetaCommand::List(l) => {
            f(out, &format!("meta:List.{:?}", l.target));
            opt_scalar("List:status", &l.status, out);
            opt_scalar("List:limit", &l.limit, out);
            opt_scalar("List:cursor", &l.cursor, out);
        }
        MetaCommand::Search(s) => {
            f(out, &format!("meta:Search.{:?}", s.target));
            scalar(&s.term, out);
            opt_scalar("Search:with_type", &s.with_type, out);
            opt_scalar("Search:with_predicate", &s.with_predicate, out);
            opt_scalar("Search:mode", &s.mode, out);
            opt_scalar("Search:threshold", &s.threshold, out);
            opt_scalar("Search:as_of_seq", &s.as_of_seq, out);
            opt_scalar("Search:limit", &s.limit, out);
            opt_scalar("Search:cursor", &s.cursor, out);
        }
        MetaCommand::Verify { target, value } => {
            f(out, &format!("meta:Verify.{target:?}"));
            scalar(value, out)
        }
        MetaCommand::Validate(v) => {
            f(out, &format!("meta:Validate.{:?}", v.target));
            scalar(&v.value, out);
            if let Some(o) = &v.options {
                f(out, "Validate:options");
                bound_object(o, out);
            }
        }
        MetaCommand::Preview(p) => match p {
            PreviewCommand::Kml(s) => {
                f(out, "meta:Preview.Kml");
                scalar(s, out)
            }
            PreviewCommand::ImportCapsule { capsule, into } => {
                f(out, "meta:Preview.ImportCapsule");
                scalar(capsule, out);
                scalar(into, out)
            }
        },
        MetaCommand::History(h) => match h {
            HistoryCommand::Element { value, from_seq, to_seq, limit, cursor } => {
                f(out, "meta:History.Element");
                scalar(value, out);
                opt_scalar("History:from_seq", from_seq, out);
                opt_scalar("History:to_seq", to_seq, out);
                opt_scalar("History:limit", limit, out);
                opt_scalar("History:cursor", cursor, out);
            }
            HistoryCommand::Space { from_seq, to_seq, limit, cursor } => {
                f(out, "meta:History.Space");
                opt_scalar("History:from_seq", from_seq, out);
                opt_scalar("History:to_seq", to_seq, out);
                opt_scalar("History:limit", limit, out);
                opt_scalar("History:cursor", cursor, out);
            }
        },
        MetaCommand::Changes(c) => match c {
            ChangesCommand::Since { cursor, limit } => {
                f(out, "meta:Changes.Since");
                scalar(cursor, out);
                opt_scalar("Changes:limit", limit, out)
            }
            ChangesCommand::AfterSeq { seq, limit } => {
                f(out, "meta:Changes.AfterSeq");
                scalar(seq, out);
                opt_scalar("Changes:limit", limit, out)
            }
        },
        MetaCommand::Snapshot { as_of: a } => {
            f(out, "meta:Snapshot");
            if a.is_some() {
                f(out, "Snapshot:as_of");
            }
            as_of(a, out)
        }
        MetaCommand::ExportCapsule(e) => {
            f(out, "meta:ExportCapsule");
            element_ref("ExportCapsule", &e.target, out);
            where_clauses(&e.where_clauses, out);
            if let Some(o) = &e.options {
                f(out, "ExportCapsule:options");
                bound_object(o, out);
            }
            if e.as_of.is_some() {
                f(out, "ExportCapsule:as_of");
            }
            as_of(&e.as_of, out);
        }
    }
}

/// Names every family the command exercises.
pub fn families(c: &Command) -> Fams {
    let mut out = Fams::new();
    match c {
        Command::Kql(q) => {
            f(&mut out, "cmd:Kql");
            for e in &q.find_clause.expressions {
                match e {
                    FindExpression::Variable(p) => {
                        f(&mut out, "find:Variable");
                        dot_path(p, &mut out)
                    }
                    FindExpression::Aggregation { func, var, distinct } => {
                        f(&mut out, &format!("find:Aggregation.{func:?}"));
                        if *distinct {
                            f(&mut out, "find:Aggregation.distinct");
                        }
                        dot_path(var, &mut out)
                    }
                }
            }
            where_clauses(&q.where_clauses, &mut out);
            as_of(&q.as_of, &mut out);
            opt_scalar("kql:for_time", &q.for_time, &mut out);
            if let Some(e) = &q.epistemic {
                f(&mut out, "kql:epistemic");
                bound_object(e, &mut out);
            }
            if let Some(o) = &q.order_by {
                f(&mut out, "kql:order_by");
                if o.len() > 1 {
                    f(&mut out, "kql:order_by.multiple");
                }
                for i in o {
                    f(&mut out, &format!("order:{:?}", i.direction));
                    if i.aggregation.is_some() {
                        f(&mut out, "order:aggregation");
                    }
                    dot_path(&i.variable, &mut out);
                }
            }
            opt_scalar("kql:limit", &q.limit, &mut out);
            opt_scalar("kql:cursor", &q.cursor, &mut out);
        }
        Command::Kml(s) => {
            f(&mut out, "cmd:Kml");
            f(&mut out, if s.explicit_transaction { "kml:explicit_transaction" } else { "kml:single_statement" });
            if s.clauses.len() > 1 {
                f(&mut out, "kml:multi_clause");
            }
            s.clauses.iter().for_each(|c| clause(c, &mut out));
        }
        Command::Meta(m) => {
            f(&mut out, "cmd:Meta");
            meta(m, &mut out)
        }
    }
    out
}

/// The top-level shape used to bucket distinct accepted trees.
pub fn major(c: &Command) -> Vec<String> {
    families(c)
        .into_iter()
        .filter(|s| s.starts_with("cmd:") || s.starts_with("kml:") || s.starts_with("meta:") || s.starts_with("where:"))
        .collect()
}

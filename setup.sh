#!/usr/bin/env bash
# Builds every harness binary once (offline) so that quick checks only pay incremental builds.
set -u
cd "$(dirname "$0")"
export CARGO_NET_OFFLINE=true
mkdir -p evidence replay logs
cd harness
cargo build --release --offline --workspace --bins 2>&1 | tail -5

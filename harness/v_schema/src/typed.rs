//! A fixed family of derive-macro structs covering every Rust type the derive crate documents
//! as supported, each with (a) the schema the DOCUMENTED inference table prescribes, written by
//! hand, and (b) a seeded value generator.

use crate::generate::{Ft, G, gen_bytes, gen_f32, gen_f64, gen_i64, gen_json, gen_text, gen_u64, gen_vector};
use anda_db_schema::{
    AndaDBSchema, ByteArrayB64, ByteBufB64, FieldKey, FieldTyped, Json, Resource, Schema, bf16,
};
use serde::{Deserialize, Serialize, de::DeserializeOwned};
use serde_bytes::{ByteArray, ByteBuf};
use std::borrow::Cow;
use std::collections::{BTreeMap, BTreeSet, HashMap, HashSet};
use std::fmt::Debug;

/// (serialized field name, documented FieldType, unique flag)
pub type Expected = Vec<(&'static str, Ft, bool)>;

pub trait Typed: Serialize + DeserializeOwned + PartialEq + Debug + Clone {
    const NAME: &'static str;
    fn derived_schema() -> Result<Schema, String>;
    fn expected() -> Expected;
    fn generate(g: &mut G) -> Self;
    fn set_id(&mut self, id: u64);
}

// type-table helpers -------------------------------------------------------------------------
pub fn opt(t: Ft) -> Ft {
    Ft::Option(Box::new(t))
}
pub fn arr(t: Ft) -> Ft {
    Ft::Array(vec![t])
}
pub fn wmap_t(t: Ft) -> Ft {
    Ft::Map(BTreeMap::from([(FieldKey::Text("*".into()), t)]))
}
pub fn wmap_i(t: Ft) -> Ft {
    Ft::Map(BTreeMap::from([(FieldKey::I64(i64::MIN), t)]))
}
pub fn wmap_b(t: Ft) -> Ft {
    Ft::Map(BTreeMap::from([(FieldKey::Bytes(b"*".to_vec()), t)]))
}
pub fn keyed(entries: Vec<(&str, Ft)>) -> Ft {
    Ft::Map(entries.into_iter().map(|(k, t)| (FieldKey::Text(k.to_string()), t)).collect())
}
pub fn keyed_i(entries: Vec<(i64, Ft)>) -> Ft {
    Ft::Map(entries.into_iter().map(|(k, t)| (FieldKey::I64(k), t)).collect())
}

// value helpers ------------------------------------------------------------------------------
macro_rules! gen_int {
    ($name:ident, $t:ty) => {
        fn $name(g: &mut G) -> $t {
            match g.rng.below(6) {
                0 => <$t>::MIN,
                1 => <$t>::MAX,
                2 => 0 as $t,
                3 => 1 as $t,
                _ => g.rng.next_u64() as $t,
            }
        }
    };
}
gen_int!(g_i8, i8);
gen_int!(g_i16, i16);
gen_int!(g_i32, i32);
gen_int!(g_isize, isize);
gen_int!(g_u8, u8);
gen_int!(g_u16, u16);
gen_int!(g_u32, u32);
gen_int!(g_usize, usize);

fn g_opt<T>(g: &mut G, f: impl FnOnce(&mut G) -> T) -> Option<T> {
    if g.rng.chance(1, 3) { None } else { Some(f(g)) }
}
fn g_vec<T>(g: &mut G, mut f: impl FnMut(&mut G) -> T) -> Vec<T> {
    let n = match g.rng.below(6) {
        0 => 0,
        1 => 1,
        _ => 2 + g.rng.usize(3),
    };
    (0..n).map(|_| f(g)).collect()
}
fn g_key(g: &mut G) -> String {
    let t = gen_text(g);
    if t.len() > 24 { format!("k{}", g.rng.below(1000)) } else { t }
}
fn g_tmap<V>(g: &mut G, mut f: impl FnMut(&mut G) -> V) -> BTreeMap<String, V> {
    let n = g.rng.usize(4);
    (0..n).map(|_| (g_key(g), f(g))).collect()
}
fn g_json(g: &mut G) -> Json {
    gen_json(g, 3, true)
}
fn g_json_nonnull(g: &mut G) -> Json {
    gen_json(g, 3, false)
}
fn g_arr<const N: usize>(g: &mut G) -> [u8; N] {
    let mut a = [0u8; N];
    let b = g.rng.bytes(N);
    a.copy_from_slice(&b);
    if g.rng.chance(1, 5) {
        a = [0xff; N];
    }
    a
}

macro_rules! impl_typed {
    ($t:ty, $name:literal, $exp:expr, |$g:ident| $generator:expr) => {
        impl Typed for $t {
            const NAME: &'static str = $name;
            fn derived_schema() -> Result<Schema, String> {
                <$t>::schema().map_err(|e| format!("{e:?}"))
            }
            fn expected() -> Expected {
                $exp
            }
            fn generate($g: &mut G) -> Self {
                $generator
            }
            fn set_id(&mut self, id: u64) {
                self._id = id;
            }
        }
    };
}

// 1 ------------------------------------------------------------------------------------------
#[derive(Debug, Clone, PartialEq, Serialize, Deserialize, AndaDBSchema)]
pub struct TScalars {
    pub _id: u64,
    pub b: bool,
    pub i8v: i8,
    pub i16v: i16,
    pub i32v: i32,
    pub i64v: i64,
    pub isz: isize,
    pub u8v: u8,
    pub u16v: u16,
    pub u32v: u32,
    pub u64v: u64,
    pub usz: usize,
    pub f32v: f32,
    pub f64v: f64,
    pub s: String,
}
impl_typed!(
    TScalars,
    "TScalars",
    vec![
        ("b", Ft::Bool, false),
        ("i8v", Ft::I64, false),
        ("i16v", Ft::I64, false),
        ("i32v", Ft::I64, false),
        ("i64v", Ft::I64, false),
        ("isz", Ft::I64, false),
        ("u8v", Ft::U64, false),
        ("u16v", Ft::U64, false),
        ("u32v", Ft::U64, false),
        ("u64v", Ft::U64, false),
        ("usz", Ft::U64, false),
        ("f32v", Ft::F32, false),
        ("f64v", Ft::F64, false),
        ("s", Ft::Text, false),
    ],
    |g| TScalars {
        _id: 0,
        b: g.rng.bool(),
        i8v: g_i8(g),
        i16v: g_i16(g),
        i32v: g_i32(g),
        i64v: gen_i64(g),
        isz: g_isize(g),
        u8v: g_u8(g),
        u16v: g_u16(g),
        u32v: g_u32(g),
        u64v: gen_u64(g),
        usz: g_usize(g),
        f32v: gen_f32(g),
        f64v: gen_f64(g),
        s: gen_text(g),
    }
);

// 2 ------------------------------------------------------------------------------------------
#[derive(Debug, Clone, PartialEq, Serialize, Deserialize, AndaDBSchema)]
pub struct TOptScalars {
    pub _id: u64,
    pub b: Option<bool>,
    pub i: Option<i64>,
    pub i32v: Option<i32>,
    pub u: Option<u64>,
    pub u16v: Option<u16>,
    pub f: Option<f32>,
    pub d: Option<f64>,
    pub s: Option<String>,
    pub oo: Option<Option<u64>>,
}
impl_typed!(
    TOptScalars,
    "TOptScalars",
    vec![
        ("b", opt(Ft::Bool), false),
        ("i", opt(Ft::I64), false),
        ("i32v", opt(Ft::I64), false),
        ("u", opt(Ft::U64), false),
        ("u16v", opt(Ft::U64), false),
        ("f", opt(Ft::F32), false),
        ("d", opt(Ft::F64), false),
        ("s", opt(Ft::Text), false),
        ("oo", opt(opt(Ft::U64)), false),
    ],
    |g| TOptScalars {
        _id: 0,
        b: g_opt(g, |g| g.rng.bool()),
        i: g_opt(g, gen_i64),
        i32v: g_opt(g, g_i32),
        u: g_opt(g, gen_u64),
        u16v: g_opt(g, g_u16),
        f: g_opt(g, gen_f32),
        d: g_opt(g, gen_f64),
        s: g_opt(g, gen_text),
        // Some(None) is plain-serde-indistinguishable from None: not generated
        oo: g_opt(g, |g| Some(gen_u64(g))),
    }
);

// 3 ------------------------------------------------------------------------------------------
#[derive(Debug, Clone, PartialEq, Serialize, Deserialize, AndaDBSchema)]
pub struct TBytes {
    pub _id: u64,
    pub data: Vec<u8>,
    pub arr: [u8; 4],
    pub arr32: [u8; 32],
    pub opt: Option<Vec<u8>>,
    pub opt_arr: Option<[u8; 8]>,
    pub bb: ByteBuf,
    pub ba: ByteArray<8>,
    pub b64: ByteBufB64,
    pub a64: Option<ByteArrayB64<32>>,
    pub list: Vec<ByteBuf>,
}
impl_typed!(
    TBytes,
    "TBytes",
    vec![
        ("data", Ft::Bytes, false),
        ("arr", Ft::Bytes, false),
        ("arr32", Ft::Bytes, false),
        ("opt", opt(Ft::Bytes), false),
        ("opt_arr", opt(Ft::Bytes), false),
        ("bb", Ft::Bytes, false),
        ("ba", Ft::Bytes, false),
        ("b64", Ft::Bytes, false),
        ("a64", opt(Ft::Bytes), false),
        ("list", arr(Ft::Bytes), false),
    ],
    |g| TBytes {
        _id: 0,
        data: gen_bytes(g),
        arr: g_arr::<4>(g),
        arr32: g_arr::<32>(g),
        opt: g_opt(g, gen_bytes),
        opt_arr: g_opt(g, g_arr::<8>),
        bb: ByteBuf::from(gen_bytes(g)),
        ba: ByteArray::new(g_arr::<8>(g)),
        b64: ByteBufB64(gen_bytes(g)),
        a64: g_opt(g, |g| ByteArrayB64(g_arr::<32>(g))),
        list: g_vec(g, |g| ByteBuf::from(gen_bytes(g))),
    }
);

// 4 ------------------------------------------------------------------------------------------
#[derive(Debug, Clone, PartialEq, Serialize, Deserialize, AndaDBSchema)]
pub struct TVecs {
    pub _id: u64,
    pub vi: Vec<i64>,
    pub vi8: Vec<i8>,
    pub vu: Vec<u32>,
    pub vu64: Vec<u64>,
    pub vs: Vec<String>,
    pub vf: Vec<f32>,
    pub vd: Vec<f64>,
    pub vb: Vec<bool>,
    pub vv: Vec<Vec<u16>>,
    pub vopt: Vec<Option<i32>>,
    pub ov: Option<Vec<i64>>,
    pub set: BTreeSet<String>,
    pub hset: HashSet<u64>,
    pub iset: BTreeSet<i64>,
}
impl_typed!(
    TVecs,
    "TVecs",
    vec![
        ("vi", arr(Ft::I64), false),
        ("vi8", arr(Ft::I64), false),
        ("vu", arr(Ft::U64), false),
        ("vu64", arr(Ft::U64), false),
        ("vs", arr(Ft::Text), false),
        ("vf", arr(Ft::F32), false),
        ("vd", arr(Ft::F64), false),
        ("vb", arr(Ft::Bool), false),
        ("vv", arr(arr(Ft::U64)), false),
        ("vopt", arr(opt(Ft::I64)), false),
        ("ov", opt(arr(Ft::I64)), false),
        ("set", arr(Ft::Text), false),
        ("hset", arr(Ft::U64), false),
        ("iset", arr(Ft::I64), false),
    ],
    |g| TVecs {
        _id: 0,
        vi: g_vec(g, gen_i64),
        vi8: g_vec(g, g_i8),
        vu: g_vec(g, g_u32),
        vu64: g_vec(g, gen_u64),
        vs: g_vec(g, gen_text),
        vf: g_vec(g, gen_f32),
        vd: g_vec(g, gen_f64),
        vb: g_vec(g, |g| g.rng.bool()),
        vv: g_vec(g, |g| g_vec(g, g_u16)),
        vopt: g_vec(g, |g| g_opt(g, g_i32)),
        ov: g_opt(g, |g| g_vec(g, gen_i64)),
        set: g_vec(g, gen_text).into_iter().collect(),
        hset: g_vec(g, gen_u64).into_iter().collect(),
        iset: g_vec(g, gen_i64).into_iter().collect(),
    }
);

// 5 ------------------------------------------------------------------------------------------
#[derive(Debug, Clone, PartialEq, Serialize, Deserialize, AndaDBSchema)]
pub struct TMapsText {
    pub _id: u64,
    pub mu: BTreeMap<String, u64>,
    pub ms: HashMap<String, String>,
    pub mv: BTreeMap<String, Vec<i64>>,
    pub mo: BTreeMap<String, Option<f64>>,
    pub mi: BTreeMap<String, i32>,
    pub mf: BTreeMap<String, f32>,
    pub om: Option<BTreeMap<String, bool>>,
    pub mb: BTreeMap<String, Vec<u8>>,
}
impl_typed!(
    TMapsText,
    "TMapsText",
    vec![
        ("mu", wmap_t(Ft::U64), false),
        ("ms", wmap_t(Ft::Text), false),
        ("mv", wmap_t(arr(Ft::I64)), false),
        ("mo", wmap_t(opt(Ft::F64)), false),
        ("mi", wmap_t(Ft::I64), false),
        ("mf", wmap_t(Ft::F32), false),
        ("om", opt(wmap_t(Ft::Bool)), false),
        ("mb", wmap_t(Ft::Bytes), false),
    ],
    |g| TMapsText {
        _id: 0,
        mu: g_tmap(g, gen_u64),
        ms: g_tmap(g, gen_text).into_iter().collect(),
        mv: g_tmap(g, |g| g_vec(g, gen_i64)),
        mo: g_tmap(g, |g| g_opt(g, gen_f64)),
        mi: g_tmap(g, g_i32),
        mf: g_tmap(g, gen_f32),
        om: g_opt(g, |g| g_tmap(g, |g| g.rng.bool())),
        mb: g_tmap(g, gen_bytes),
    }
);

// 6 ------------------------------------------------------------------------------------------
#[derive(Debug, Clone, PartialEq, Serialize, Deserialize, AndaDBSchema)]
pub struct TMapsInt {
    pub _id: u64,
    pub m64: BTreeMap<i64, String>,
    pub m32: BTreeMap<i32, u64>,
    pub m8: HashMap<i8, bool>,
    pub msz: BTreeMap<isize, f32>,
    pub m16: BTreeMap<i16, Vec<i64>>,
    pub om: Option<BTreeMap<i64, i64>>,
}
impl_typed!(
    TMapsInt,
    "TMapsInt",
    vec![
        ("m64", wmap_i(Ft::Text), false),
        ("m32", wmap_i(Ft::U64), false),
        ("m8", wmap_i(Ft::Bool), false),
        ("msz", wmap_i(Ft::F32), false),
        ("m16", wmap_i(arr(Ft::I64)), false),
        ("om", opt(wmap_i(Ft::I64)), false),
    ],
    |g| TMapsInt {
        _id: 0,
        m64: g_vec(g, |g| (gen_i64(g), gen_text(g))).into_iter().collect(),
        m32: g_vec(g, |g| (g_i32(g), gen_u64(g))).into_iter().collect(),
        m8: g_vec(g, |g| (g_i8(g), g.rng.bool())).into_iter().collect(),
        msz: g_vec(g, |g| (g_isize(g), gen_f32(g))).into_iter().collect(),
        m16: g_vec(g, |g| (g_i16(g), g_vec(g, gen_i64))).into_iter().collect(),
        om: g_opt(g, |g| g_vec(g, |g| (gen_i64(g), gen_i64(g))).into_iter().collect()),
    }
);

// 7 ------------------------------------------------------------------------------------------
#[derive(Debug, Clone, PartialEq, Serialize, Deserialize, AndaDBSchema)]
pub struct TMapsBytes {
    pub _id: u64,
    pub mb: BTreeMap<ByteBuf, u64>,
    pub ma: BTreeMap<ByteArray<4>, String>,
    pub mh: HashMap<ByteBuf, Vec<u8>>,
    pub om: Option<BTreeMap<ByteBuf, i64>>,
}
impl_typed!(
    TMapsBytes,
    "TMapsBytes",
    vec![
        ("mb", wmap_b(Ft::U64), false),
        ("ma", wmap_b(Ft::Text), false),
        ("mh", wmap_b(Ft::Bytes), false),
        ("om", opt(wmap_b(Ft::I64)), false),
    ],
    |g| TMapsBytes {
        _id: 0,
        mb: g_vec(g, |g| (ByteBuf::from(gen_bytes(g)), gen_u64(g))).into_iter().collect(),
        ma: g_vec(g, |g| (ByteArray::new(g_arr::<4>(g)), gen_text(g))).into_iter().collect(),
        mh: g_vec(g, |g| (ByteBuf::from(gen_bytes(g)), gen_bytes(g))).into_iter().collect(),
        om: g_opt(g, |g| g_vec(g, |g| (ByteBuf::from(gen_bytes(g)), gen_i64(g))).into_iter().collect()),
    }
);

// 8 ------------------------------------------------------------------------------------------
#[derive(Debug, Clone, PartialEq, Serialize, Deserialize, AndaDBSchema)]
pub struct TJson {
    pub _id: u64,
    pub j: Json,
    pub oj: Option<serde_json::Value>,
    pub jm: serde_json::Map<String, Json>,
    pub mj: BTreeMap<String, Json>,
    pub vj: Vec<Json>,
}
impl_typed!(
    TJson,
    "TJson",
    vec![
        ("j", Ft::Json, false),
        ("oj", opt(Ft::Json), false),
        ("jm", wmap_t(Ft::Json), false),
        ("mj", wmap_t(Ft::Json), false),
        ("vj", arr(Ft::Json), false),
    ],
    |g| TJson {
        _id: 0,
        j: g_json(g),
        oj: g_opt(g, g_json_nonnull),
        jm: g_tmap(g, g_json).into_iter().collect(),
        mj: g_tmap(g, g_json),
        vj: g_vec(g, g_json),
    }
);

// 9 ------------------------------------------------------------------------------------------
#[derive(Debug, Clone, PartialEq, Serialize, Deserialize, AndaDBSchema)]
pub struct TVector {
    pub _id: u64,
    pub v: Vec<bf16>,
    pub ov: Option<Vec<bf16>>,
    pub av: [bf16; 4],
    pub vv: Vec<Vec<bf16>>,
    pub mv: BTreeMap<String, Vec<bf16>>,
    pub alias: anda_db_schema::Vector,
}
impl_typed!(
    TVector,
    "TVector",
    vec![
        ("v", Ft::Vector, false),
        ("ov", opt(Ft::Vector), false),
        ("av", Ft::Vector, false),
        ("vv", arr(Ft::Vector), false),
        ("mv", wmap_t(Ft::Vector), false),
        ("alias", Ft::Vector, false),
    ],
    |g| {
        let four = loop {
            let v = gen_vector(g);
            if v.len() >= 4 {
                break [v[0], v[1], v[2], v[3]];
            }
        };
        TVector {
            _id: 0,
            v: gen_vector(g),
            ov: g_opt(g, gen_vector),
            av: four,
            vv: g_vec(g, gen_vector),
            mv: g_tmap(g, gen_vector),
            alias: gen_vector(g),
        }
    }
);

// 10 -----------------------------------------------------------------------------------------
#[derive(Debug, Clone, PartialEq, Serialize, Deserialize, FieldTyped)]
pub struct Deeper {
    pub x: f32,
    pub y: Option<BTreeMap<String, i64>>,
}
#[derive(Debug, Clone, PartialEq, Serialize, Deserialize, FieldTyped)]
pub struct Inner {
    pub a: u32,
    pub b: Option<String>,
    pub c: Vec<i64>,
    pub deep: Deeper,
}
fn deeper_ft() -> Ft {
    keyed(vec![("x", Ft::F32), ("y", opt(wmap_t(Ft::I64)))])
}
fn inner_ft() -> Ft {
    keyed(vec![("a", Ft::U64), ("b", opt(Ft::Text)), ("c", arr(Ft::I64)), ("deep", deeper_ft())])
}
fn g_inner(g: &mut G) -> Inner {
    Inner {
        a: g_u32(g),
        b: g_opt(g, gen_text),
        c: g_vec(g, gen_i64),
        deep: Deeper { x: gen_f32(g), y: g_opt(g, |g| g_tmap(g, gen_i64)) },
    }
}
#[derive(Debug, Clone, PartialEq, Serialize, Deserialize, AndaDBSchema)]
pub struct TNested {
    pub _id: u64,
    pub inner: Inner,
    pub oinner: Option<Inner>,
    pub vinner: Vec<Inner>,
    pub minner: BTreeMap<String, Inner>,
    pub iinner: BTreeMap<i64, Option<Inner>>,
}
impl_typed!(
    TNested,
    "TNested",
    vec![
        ("inner", inner_ft(), false),
        ("oinner", opt(inner_ft()), false),
        ("vinner", arr(inner_ft()), false),
        ("minner", wmap_t(inner_ft()), false),
        ("iinner", wmap_i(opt(inner_ft())), false),
    ],
    |g| TNested {
        _id: 0,
        inner: g_inner(g),
        oinner: g_opt(g, g_inner),
        vinner: g_vec(g, g_inner),
        minner: g_tmap(g, g_inner),
        iinner: g_vec(g, |g| (gen_i64(g), g_opt(g, g_inner))).into_iter().collect(),
    }
);

// 11 -----------------------------------------------------------------------------------------
#[derive(Debug, Clone, PartialEq, Serialize, Deserialize, AndaDBSchema)]
#[serde(rename_all = "lowercase")]
pub struct TRename {
    pub _id: u64,
    #[serde(rename = "renamed_x")]
    pub x: u64,
    #[serde(rename(serialize = "wire_y", deserialize = "wire_y"))]
    pub y: Option<String>,
    pub plain_z: i64,
    #[serde(skip)]
    pub runtime_cache: Option<String>,
    #[serde(skip_serializing, default)]
    pub never_written: Vec<u8>,
    /// documented: doc comments become the description
    #[serde(skip_serializing_if = "Option::is_none", default)]
    pub maybe: Option<u32>,
}
impl_typed!(
    TRename,
    "TRename",
    vec![
        ("renamed_x", Ft::U64, false),
        ("wire_y", opt(Ft::Text), false),
        ("plain_z", Ft::I64, false),
        ("maybe", opt(Ft::U64), false),
    ],
    |g| TRename {
        _id: 0,
        x: gen_u64(g),
        y: g_opt(g, gen_text),
        plain_z: gen_i64(g),
        runtime_cache: None, // skipped fields come back as Default
        never_written: vec![],
        maybe: g_opt(g, g_u32),
    }
);

// 12 -----------------------------------------------------------------------------------------
#[derive(Debug, Clone, PartialEq, Serialize, Deserialize, FieldTyped)]
#[serde(rename_all = "camelCase")]
pub struct CamelInner {
    pub first_name: String,
    pub last_login_at: Option<u64>,
    #[serde(rename = "ID")]
    pub ident: i32,
    #[serde(skip)]
    pub scratch: u8,
    #[serde(skip_serializing_if = "Option::is_none", default)]
    pub nick_name: Option<String>,
    #[serde(skip_serializing_if = "Option::is_none", default)]
    pub more_tags: Option<Vec<String>>,
}
fn camel_ft() -> Ft {
    keyed(vec![
        ("firstName", Ft::Text),
        ("lastLoginAt", opt(Ft::U64)),
        ("ID", Ft::I64),
        ("nickName", opt(Ft::Text)),
        ("moreTags", opt(arr(Ft::Text))),
    ])
}
fn g_camel(g: &mut G) -> CamelInner {
    CamelInner {
        first_name: gen_text(g),
        last_login_at: g_opt(g, gen_u64),
        ident: g_i32(g),
        scratch: 0,
        nick_name: g_opt(g, gen_text),
        more_tags: g_opt(g, |g| g_vec(g, gen_text)),
    }
}
#[derive(Debug, Clone, PartialEq, Serialize, Deserialize, AndaDBSchema)]
pub struct TCamelNested {
    pub _id: u64,
    pub who: CamelInner,
    pub others: Vec<CamelInner>,
    pub maybe: Option<CamelInner>,
}
impl_typed!(
    TCamelNested,
    "TCamelNested",
    vec![("who", camel_ft(), false), ("others", arr(camel_ft()), false), ("maybe", opt(camel_ft()), false)],
    |g| TCamelNested { _id: 0, who: g_camel(g), others: g_vec(g, g_camel), maybe: g_opt(g, g_camel) }
);

// 13 -----------------------------------------------------------------------------------------
#[derive(Debug, Clone, Copy, PartialEq, Serialize, Deserialize)]
pub enum Kind {
    Alpha,
    Beta,
    Gamma,
}
#[derive(Debug, Clone, PartialEq, Serialize, Deserialize)]
pub struct Plain {
    pub n: u32,
    pub t: String,
    pub l: Vec<i64>,
}
#[derive(Debug, Clone, PartialEq, Serialize, Deserialize, AndaDBSchema)]
pub struct TOverride {
    pub _id: u64,
    #[field_type = "Array<F32>"]
    pub samples: Vec<f32>,
    #[field_type = "Option<Map<Text, Json>>"]
    pub extra: Option<HashMap<String, Json>>,
    #[field_type = "Map<I64, Text>"]
    pub by_i64: BTreeMap<i64, String>,
    #[field_type = "Map<Bytes, U64>"]
    pub by_bytes: BTreeMap<ByteBuf, u64>,
    #[field_type = " Map < Text , Option < Array < Bytes > > > "]
    pub spaced: BTreeMap<String, Option<Vec<ByteBuf>>>,
    #[field_type = "Vector"]
    pub emb: Vec<bf16>,
    #[field_type = "Json"]
    pub payload: Plain,
    #[field_type = "Text"]
    pub kind: Kind,
    #[field_type = "Array<U64>"]
    pub pair: (u64, u64),
    #[field_type = "Bytes"]
    pub raw: ByteBuf,
    #[field_type = "Map<i32, Bool>"]
    pub flags: BTreeMap<i32, bool>,
}
impl_typed!(
    TOverride,
    "TOverride",
    vec![
        ("samples", arr(Ft::F32), false),
        ("extra", opt(wmap_t(Ft::Json)), false),
        ("by_i64", wmap_i(Ft::Text), false),
        ("by_bytes", wmap_b(Ft::U64), false),
        ("spaced", wmap_t(opt(arr(Ft::Bytes))), false),
        ("emb", Ft::Vector, false),
        ("payload", Ft::Json, false),
        ("kind", Ft::Text, false),
        ("pair", arr(Ft::U64), false),
        ("raw", Ft::Bytes, false),
        ("flags", wmap_i(Ft::Bool), false),
    ],
    |g| TOverride {
        _id: 0,
        samples: g_vec(g, gen_f32),
        extra: g_opt(g, |g| g_tmap(g, g_json).into_iter().collect()),
        by_i64: g_vec(g, |g| (gen_i64(g), gen_text(g))).into_iter().collect(),
        by_bytes: g_vec(g, |g| (ByteBuf::from(gen_bytes(g)), gen_u64(g))).into_iter().collect(),
        spaced: g_tmap(g, |g| g_opt(g, |g| g_vec(g, |g| ByteBuf::from(gen_bytes(g))))),
        emb: gen_vector(g),
        payload: Plain { n: g_u32(g), t: gen_text(g), l: g_vec(g, gen_i64) },
        kind: *g.rng.pick(&[Kind::Alpha, Kind::Beta, Kind::Gamma]),
        pair: (gen_u64(g), gen_u64(g)),
        raw: ByteBuf::from(gen_bytes(g)),
        flags: g_vec(g, |g| (g_i32(g), g.rng.bool())).into_iter().collect(),
    }
);

// 14 -----------------------------------------------------------------------------------------
#[allow(clippy::box_collection)]
#[derive(Debug, Clone, PartialEq, Serialize, Deserialize, AndaDBSchema)]
pub struct TSmartPtr {
    pub _id: u64,
    pub b: Box<String>,
    pub bv: Box<Vec<u8>>,
    pub c: Cow<'static, str>,
    pub ob: Option<Box<i64>>,
    pub vb: Vec<Box<u32>>,
    pub bi: Box<Inner>,
}
impl_typed!(
    TSmartPtr,
    "TSmartPtr",
    vec![
        ("b", Ft::Text, false),
        ("bv", Ft::Bytes, false),
        ("c", Ft::Text, false),
        ("ob", opt(Ft::I64), false),
        ("vb", arr(Ft::U64), false),
        ("bi", inner_ft(), false),
    ],
    |g| TSmartPtr {
        _id: 0,
        b: Box::new(gen_text(g)),
        bv: Box::new(gen_bytes(g)),
        c: Cow::Owned(gen_text(g)),
        ob: g_opt(g, |g| Box::new(gen_i64(g))),
        vb: g_vec(g, |g| Box::new(g_u32(g))),
        bi: Box::new(g_inner(g)),
    }
);

// 15 -----------------------------------------------------------------------------------------
#[derive(Debug, Clone, PartialEq, Serialize, Deserialize, AndaDBSchema)]
pub struct TFixedArrays {
    pub _id: u64,
    pub a3: [u32; 3],
    pub ai: [i64; 2],
    pub astr: [String; 2],
    pub af: [f64; 3],
    pub oa: Option<[u16; 2]>,
    pub aa: [[i8; 2]; 2],
}
impl_typed!(
    TFixedArrays,
    "TFixedArrays",
    vec![
        ("a3", arr(Ft::U64), false),
        ("ai", arr(Ft::I64), false),
        ("astr", arr(Ft::Text), false),
        ("af", arr(Ft::F64), false),
        ("oa", opt(arr(Ft::U64)), false),
        ("aa", arr(arr(Ft::I64)), false),
    ],
    |g| TFixedArrays {
        _id: 0,
        a3: [g_u32(g), g_u32(g), g_u32(g)],
        ai: [gen_i64(g), gen_i64(g)],
        astr: [gen_text(g), gen_text(g)],
        af: [gen_f64(g), gen_f64(g), gen_f64(g)],
        oa: g_opt(g, |g| [g_u16(g), g_u16(g)]),
        aa: [[g_i8(g), g_i8(g)], [g_i8(g), g_i8(g)]],
    }
);

// 16 -----------------------------------------------------------------------------------------
fn resource_ft() -> Ft {
    keyed(vec![
        ("_id", Ft::U64),
        ("tags", arr(Ft::Text)),
        ("name", Ft::Text),
        ("description", opt(Ft::Text)),
        ("uri", opt(Ft::Text)),
        ("mime_type", opt(Ft::Text)),
        ("blob", opt(Ft::Bytes)),
        ("size", opt(Ft::U64)),
        ("hash", opt(Ft::Bytes)),
        ("metadata", opt(wmap_t(Ft::Json))),
    ])
}
fn g_resource(g: &mut G) -> Resource {
    Resource {
        _id: gen_u64(g),
        tags: g_vec(g, gen_text),
        name: gen_text(g),
        description: g_opt(g, gen_text),
        uri: g_opt(g, gen_text),
        mime_type: g_opt(g, gen_text),
        blob: g_opt(g, |g| ByteBufB64(gen_bytes(g))),
        size: g_opt(g, gen_u64),
        hash: g_opt(g, |g| ByteArrayB64(g_arr::<32>(g))),
        metadata: g_opt(g, |g| g_tmap(g, g_json).into_iter().collect()),
    }
}
#[derive(Debug, Clone, PartialEq, Serialize, Deserialize, AndaDBSchema)]
pub struct TResource {
    pub _id: u64,
    pub res: Resource,
    pub ores: Option<Resource>,
    pub vres: Vec<Resource>,
}
impl_typed!(
    TResource,
    "TResource",
    vec![("res", resource_ft(), false), ("ores", opt(resource_ft()), false), ("vres", arr(resource_ft()), false)],
    |g| TResource { _id: 0, res: g_resource(g), ores: g_opt(g, g_resource), vres: g_vec(g, g_resource) }
);

// 17 -----------------------------------------------------------------------------------------
#[derive(Clone, Debug, Default, PartialEq, cbor2::Cbor, FieldTyped)]
pub struct Claims {
    #[cbor(key = 1)]
    #[serde(rename = "iss", skip_serializing_if = "Option::is_none", default)]
    pub issuer: Option<String>,
    #[cbor(key = 4)]
    #[serde(rename = "exp", skip_serializing_if = "Option::is_none", default)]
    pub expiration: Option<u64>,
    #[cbor(key = 7)]
    #[serde(rename = "cti", with = "serde_bytes", skip_serializing_if = "Option::is_none", default)]
    pub cwt_id: Option<Vec<u8>>,
    #[cbor(key = -3)]
    #[serde(rename = "neg", default)]
    pub negative_key: i64,
}
fn claims_ft() -> Ft {
    keyed_i(vec![(1, opt(Ft::Text)), (4, opt(Ft::U64)), (7, opt(Ft::Bytes)), (-3, Ft::I64)])
}
fn g_claims(g: &mut G) -> Claims {
    Claims {
        issuer: g_opt(g, gen_text),
        expiration: g_opt(g, gen_u64),
        cwt_id: g_opt(g, gen_bytes),
        negative_key: gen_i64(g),
    }
}
#[derive(Debug, Clone, PartialEq, Serialize, Deserialize, AndaDBSchema)]
pub struct TCborKey {
    pub _id: u64,
    pub claims: Claims,
    pub oclaims: Option<Claims>,
    pub vclaims: Vec<Claims>,
}
impl_typed!(
    TCborKey,
    "TCborKey",
    vec![("claims", claims_ft(), false), ("oclaims", opt(claims_ft()), false), ("vclaims", arr(claims_ft()), false)],
    |g| TCborKey { _id: 0, claims: g_claims(g), oclaims: g_opt(g, g_claims), vclaims: g_vec(g, g_claims) }
);

// 18 -----------------------------------------------------------------------------------------
#[derive(Debug, Clone, PartialEq, Serialize, Deserialize, AndaDBSchema)]
pub struct TUnique {
    pub _id: u64,
    /// the handle
    #[unique]
    pub handle: String,
    #[unique]
    #[serde(rename = "user_id")]
    pub id: u64,
    #[unique]
    pub code: Option<ByteArray<8>>,
    pub plain: bool,
}
impl_typed!(
    TUnique,
    "TUnique",
    vec![("handle", Ft::Text, true), ("user_id", Ft::U64, true), ("code", opt(Ft::Bytes), true), ("plain", Ft::Bool, false)],
    |g| TUnique {
        _id: 0,
        handle: format!("h{}-{}", g.rng.next_u64(), gen_text(g)),
        id: g.rng.next_u64(),
        code: g_opt(g, |g| ByteArray::new(g_arr::<8>(g))),
        plain: g.rng.bool(),
    }
);

// 19 -----------------------------------------------------------------------------------------
#[derive(Debug, Clone, PartialEq, Serialize, Deserialize, AndaDBSchema)]
pub struct TEmpty {
    pub _id: u64,
}
impl_typed!(TEmpty, "TEmpty", vec![], |_g| TEmpty { _id: 0 });

// 20 -----------------------------------------------------------------------------------------
#[derive(Debug, Clone, PartialEq, Serialize, Deserialize, AndaDBSchema)]
pub struct TMapOfMaps {
    pub _id: u64,
    pub mm: BTreeMap<String, BTreeMap<i64, Vec<Option<String>>>>,
    pub mb: BTreeMap<i64, BTreeMap<ByteBuf, BTreeMap<String, u8>>>,
    pub vm: Vec<BTreeMap<String, Vec<Vec<i16>>>>,
    pub oo: Option<Vec<Option<BTreeMap<String, Option<i64>>>>>,
}
impl_typed!(
    TMapOfMaps,
    "TMapOfMaps",
    vec![
        ("mm", wmap_t(wmap_i(arr(opt(Ft::Text)))), false),
        ("mb", wmap_i(wmap_b(wmap_t(Ft::U64))), false),
        ("vm", arr(wmap_t(arr(arr(Ft::I64)))), false),
        ("oo", opt(arr(opt(wmap_t(opt(Ft::I64))))), false),
    ],
    |g| TMapOfMaps {
        _id: 0,
        mm: g_tmap(g, |g| g_vec(g, |g| (gen_i64(g), g_vec(g, |g| g_opt(g, gen_text)))).into_iter().collect()),
        mb: g_vec(g, |g| {
            (
                gen_i64(g),
                g_vec(g, |g| (ByteBuf::from(gen_bytes(g)), g_tmap(g, g_u8))).into_iter().collect::<BTreeMap<_, _>>(),
            )
        })
        .into_iter()
        .collect(),
        vm: g_vec(g, |g| g_tmap(g, |g| g_vec(g, |g| g_vec(g, g_i16)))),
        oo: g_opt(g, |g| g_vec(g, |g| g_opt(g, |g| g_tmap(g, |g| g_opt(g, gen_i64))))),
    }
);

// 21 -----------------------------------------------------------------------------------------
#[derive(Debug, Clone, PartialEq, Serialize, Deserialize, FieldTyped)]
pub struct SkipInner {
    #[serde(skip_serializing_if = "Option::is_none", default)]
    pub a: Option<u64>,
    #[serde(skip_serializing_if = "Option::is_none", default)]
    pub b: Option<Vec<f32>>,
    #[serde(skip_serializing_if = "Option::is_none", default)]
    pub c: Option<BTreeMap<String, i64>>,
    pub always: Option<i64>,
}
fn skip_ft() -> Ft {
    keyed(vec![("a", opt(Ft::U64)), ("b", opt(arr(Ft::F32))), ("c", opt(wmap_t(Ft::I64))), ("always", opt(Ft::I64))])
}
fn g_skip(g: &mut G) -> SkipInner {
    SkipInner {
        a: g_opt(g, gen_u64),
        b: g_opt(g, |g| g_vec(g, gen_f32)),
        c: g_opt(g, |g| g_tmap(g, gen_i64)),
        always: g_opt(g, gen_i64),
    }
}
#[derive(Debug, Clone, PartialEq, Serialize, Deserialize, AndaDBSchema)]
pub struct TSkipNested {
    pub _id: u64,
    pub s: SkipInner,
    pub os: Option<SkipInner>,
    pub ms: BTreeMap<String, SkipInner>,
    #[serde(skip_serializing_if = "Option::is_none", default)]
    pub top: Option<String>,
}
impl_typed!(
    TSkipNested,
    "TSkipNested",
    vec![("s", skip_ft(), false), ("os", opt(skip_ft()), false), ("ms", wmap_t(skip_ft()), false), ("top", opt(Ft::Text), false)],
    |g| TSkipNested { _id: 0, s: g_skip(g), os: g_opt(g, g_skip), ms: g_tmap(g, g_skip), top: g_opt(g, gen_text) }
);

// 22 -----------------------------------------------------------------------------------------
#[derive(Debug, Clone, PartialEq, Serialize, Deserialize, AndaDBSchema)]
pub struct TQualified {
    pub _id: std::primitive::u64,
    pub title: std::string::String,
    pub tags: std::option::Option<std::vec::Vec<std::string::String>>,
    pub lookup: std::collections::HashMap<std::string::String, std::primitive::u64>,
    pub j: serde_json::Value,
    pub bytes: serde_bytes::ByteBuf,
    pub r#type: u8,
}
impl_typed!(
    TQualified,
    "TQualified",
    vec![
        ("title", Ft::Text, false),
        ("tags", opt(arr(Ft::Text)), false),
        ("lookup", wmap_t(Ft::U64), false),
        ("j", Ft::Json, false),
        ("bytes", Ft::Bytes, false),
        ("type", Ft::U64, false),
    ],
    |g| TQualified {
        _id: 0,
        title: gen_text(g),
        tags: g_opt(g, |g| g_vec(g, gen_text)),
        lookup: g_tmap(g, gen_u64).into_iter().collect(),
        j: g_json(g),
        bytes: ByteBuf::from(gen_bytes(g)),
        r#type: g_u8(g),
    }
);

// 23 -----------------------------------------------------------------------------------------
#[derive(Debug, Clone, PartialEq, Serialize, Deserialize, FieldTyped)]
pub struct Leaf {
    pub v: Vec<bf16>,
    pub j: Json,
    pub f: f32,
    pub i: i64,
}
#[derive(Debug, Clone, PartialEq, Serialize, Deserialize, FieldTyped)]
pub struct Mid {
    pub leaf: Leaf,
    pub leaves: Vec<Leaf>,
    pub by_id: BTreeMap<i64, Leaf>,
}
fn leaf_ft() -> Ft {
    keyed(vec![("v", Ft::Vector), ("j", Ft::Json), ("f", Ft::F32), ("i", Ft::I64)])
}
fn mid_ft() -> Ft {
    keyed(vec![("leaf", leaf_ft()), ("leaves", arr(leaf_ft())), ("by_id", wmap_i(leaf_ft()))])
}
fn g_leaf(g: &mut G) -> Leaf {
    Leaf { v: gen_vector(g), j: g_json(g), f: gen_f32(g), i: gen_i64(g) }
}
fn g_mid(g: &mut G) -> Mid {
    Mid {
        leaf: g_leaf(g),
        leaves: g_vec(g, g_leaf),
        by_id: g_vec(g, |g| (gen_i64(g), g_leaf(g))).into_iter().collect(),
    }
}
#[derive(Debug, Clone, PartialEq, Serialize, Deserialize, AndaDBSchema)]
pub struct TDeepVariants {
    pub _id: u64,
    pub mid: Mid,
    pub omid: Option<Mid>,
    pub mids: Vec<Option<Mid>>,
}
impl_typed!(
    TDeepVariants,
    "TDeepVariants",
    vec![("mid", mid_ft(), false), ("omid", opt(mid_ft()), false), ("mids", arr(opt(mid_ft())), false)],
    |g| TDeepVariants { _id: 0, mid: g_mid(g), omid: g_opt(g, g_mid), mids: g_vec(g, |g| g_opt(g, g_mid)) }
);

// 24 -----------------------------------------------------------------------------------------
#[derive(Debug, Clone, PartialEq, Serialize, Deserialize, AndaDBSchema)]
pub struct TUser {
    pub _id: u64,
    #[unique]
    pub handle: String,
    pub name: String,
    pub age: Option<u64>,
    pub active: bool,
    pub tags: Vec<String>,
    #[serde(rename = "metadata")]
    pub meta: Option<BTreeMap<String, u64>>,
    pub picture: Option<Resource>,
    pub score: Option<i64>,
    pub embedding: anda_db_schema::Vector,
}
impl_typed!(
    TUser,
    "TUser",
    vec![
        ("handle", Ft::Text, true),
        ("name", Ft::Text, false),
        ("age", opt(Ft::U64), false),
        ("active", Ft::Bool, false),
        ("tags", arr(Ft::Text), false),
        ("metadata", opt(wmap_t(Ft::U64)), false),
        ("picture", opt(resource_ft()), false),
        ("score", opt(Ft::I64), false),
        ("embedding", Ft::Vector, false),
    ],
    |g| TUser {
        _id: 0,
        handle: format!("u{}", g.rng.next_u64()),
        name: gen_text(g),
        age: g_opt(g, gen_u64),
        active: g.rng.bool(),
        tags: g_vec(g, gen_text),
        meta: g_opt(g, |g| g_tmap(g, gen_u64)),
        picture: g_opt(g, g_resource),
        score: g_opt(g, gen_i64),
        embedding: gen_vector(g),
    }
);

/// Calls `$f::<T>(args..)` for every struct of the family.
#[macro_export]
macro_rules! for_each_typed {
    ($f:ident, $($arg:expr),*) => {{
        $f::<$crate::typed::TScalars>($($arg),*);
        $f::<$crate::typed::TOptScalars>($($arg),*);
        $f::<$crate::typed::TBytes>($($arg),*);
        $f::<$crate::typed::TVecs>($($arg),*);
        $f::<$crate::typed::TMapsText>($($arg),*);
        $f::<$crate::typed::TMapsInt>($($arg),*);
        $f::<$crate::typed::TMapsBytes>($($arg),*);
        $f::<$crate::typed::TJson>($($arg),*);
        $f::<$crate::typed::TVector>($($arg),*);
        $f::<$crate::typed::TNested>($($arg),*);
        $f::<$crate::typed::TRename>($($arg),*);
        $f::<$crate::typed::TCamelNested>($($arg),*);
        $f::<$crate::typed::TOverride>($($arg),*);
        $f::<$crate::typed::TSmartPtr>($($arg),*);
        $f::<$crate::typed::TFixedArrays>($($arg),*);
        $f::<$crate::typed::TResource>($($arg),*);
        $f::<$crate::typed::TCborKey>($($arg),*);
        $f::<$crate::typed::TUnique>($($arg),*);
        $f::<$crate::typed::TEmpty>($($arg),*);
        $f::<$crate::typed::TMapOfMaps>($($arg),*);
        $f::<$crate::typed::TSkipNested>($($arg),*);
        $f::<$crate::typed::TQualified>($($arg),*);
        $f::<$crate::typed::TDeepVariants>($($arg),*);
        $f::<$crate::typed::TUser>($($arg),*);
    }};
}

pub const N_TYPED: usize = 24;

/// Canonical text of any Serialize value: map entries sorted, floats with sign (bit-faithful for
/// non-NaN values). Used to compare typed values beyond `PartialEq` (which equates -0.0 and 0.0).
pub fn canon_text<T: Serialize>(v: &T) -> String {
    fn canon(v: &cbor2::Value, out: &mut String) {
        use cbor2::Value as V;
        match v {
            V::Float(f) => out.push_str(&format!("f{:016x}", f.to_bits())),
            V::Array(a) => {
                // element order is already covered by `==` (and is unspecified for HashSet):
                // compare arrays as multisets of canonical elements
                let mut items: Vec<String> = a
                    .iter()
                    .map(|x| {
                        let mut s = String::new();
                        canon(x, &mut s);
                        s
                    })
                    .collect();
                items.sort();
                out.push('[');
                for x in items {
                    out.push_str(&x);
                    out.push(',');
                }
                out.push(']');
            }
            V::Map(m) => {
                let mut entries: Vec<(String, String)> = m
                    .iter()
                    .map(|(k, v)| {
                        let mut ks = String::new();
                        canon(k, &mut ks);
                        let mut vs = String::new();
                        canon(v, &mut vs);
                        (ks, vs)
                    })
                    .collect();
                entries.sort();
                out.push('{');
                for (k, v) in entries {
                    out.push_str(&k);
                    out.push(':');
                    out.push_str(&v);
                    out.push(',');
                }
                out.push('}');
            }
            V::Tag(t, inner) => {
                out.push_str(&format!("tag{t}("));
                canon(inner, out);
                out.push(')');
            }
            other => out.push_str(&format!("{other:?}")),
        }
    }
    match cbor2::Value::serialized(v) {
        Ok(val) => {
            let mut s = String::new();
            canon(&val, &mut s);
            s
        }
        Err(e) => format!("<unserializable: {e:?}>"),
    }
}

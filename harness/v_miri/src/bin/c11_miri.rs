//! C11 under Miri (UB detector + data-race detector + randomized weak-memory scheduler).
//!
//! usage: `c11_miri <seed> [rounds]`, run through
//! `MIRIFLAGS="-Zmiri-disable-isolation -Zmiri-many-seeds=0..8" cargo +nightly miri run -p v_miri --bin c11_miri -- <seed>`.
//!
//! `anda_db_tfs` is linked without its default tantivy tokenizer (pure Rust closure); the index is a
//! real `BM25Index` over a tiny lower-casing alphanumeric tokenizer defined here. One process =
//! one round by default (a search costs ~0.5 s under Miri), 2 or 3 threads. A round prefills a few "cold" documents (so that more
//! than one bucket exists and a compaction has work to do), then the threads run short scripts
//! (insert / remove / purge_ids / compact_buckets / search) with seeded yields at the
//! `verif_point!` hooks.
//!
//! Every asserted outcome is independent of the schedule: each document id is owned by one thread
//! and has one fixed text (so every remove is given the original text and no stale posting can
//! legitimately exist), while all texts draw on the same few words, i.e. the threads work on the
//! same postings and buckets. Hence: every return value (Ok / AlreadyExists / removed / purge
//! count) equals the owner's sequential model; a search result filtered to the searcher's own ids
//! equals the searcher's model at any time; no search ever returns a document whose text lacks
//! the term; and after the join the indexed set is exactly the union of the per-thread models.
//! After the join: `verif_check_invariants()`, `len`, `get_doc_tokens` for every id and the id set
//! of `search` for six words vs the model, ranking sanity (finite, >= 0, non-increasing, ties by
//! ascending id), flush through the callback API into an in-memory object map, `load_all`, the
//! same oracles on the loaded index; odd rounds (`c11_miri <seed> 2`) add a sequential follow-up,
//! an incremental flush and a second reload.
//!
//! Output: one line `MIRI-C11 done seed=.. threads=.. ops=.. invariant_checks=..
//! model_comparisons=.. reloads=.. ...` (exit 0) or `MIRI-C11 violation <what>` (exit 1).
//! Flush is never run concurrently with mutations (documented caller contract).

use anda_db_tfs_lite::{
    BM25Config, BM25Error, BM25Index, BM25Params, BoxError, BucketObject, Token, TokenStream, Tokenizer,
};
use std::collections::{BTreeMap, BTreeSet, HashMap};
use std::sync::Arc;
use vcore::Rng;
use vcore::manual::drive;

// ---------------------------------------------------------------------------------------------
// tokenizer: maximal runs of ASCII alphanumerics, lower-cased

#[derive(Clone, Default)]
struct WsTokenizer;

struct WsStream<'a> {
    text: &'a str,
    pos: usize,
    n: usize,
    token: Token,
}

impl Tokenizer for WsTokenizer {
    type TokenStream<'a> = WsStream<'a>;
    fn token_stream<'a>(&'a mut self, text: &'a str) -> WsStream<'a> {
        WsStream { text, pos: 0, n: 0, token: Token::default() }
    }
}

impl TokenStream for WsStream<'_> {
    fn advance(&mut self) -> bool {
        let b = self.text.as_bytes();
        while self.pos < b.len() && !b[self.pos].is_ascii_alphanumeric() {
            self.pos += 1;
        }
        if self.pos >= b.len() {
            return false;
        }
        let from = self.pos;
        while self.pos < b.len() && b[self.pos].is_ascii_alphanumeric() {
            self.pos += 1;
        }
        self.token.offset_from = from;
        self.token.offset_to = self.pos;
        self.token.position = self.n;
        self.token.position_length = 1;
        self.token.text.clear();
        self.token.text.push_str(&self.text[from..self.pos].to_ascii_lowercase());
        self.n += 1;
        true
    }
    fn token(&self) -> &Token {
        &self.token
    }
    fn token_mut(&mut self) -> &mut Token {
        &mut self.token
    }
}

type Idx = BM25Index<WsTokenizer>;

/// Reference tokenization (independent of the index code path): word -> term frequency.
fn toks(text: &str) -> BTreeMap<String, usize> {
    let mut m = BTreeMap::new();
    for w in text.split(|c: char| !c.is_ascii_alphanumeric()) {
        if w.len() > 1 {
            *m.entry(w.to_ascii_lowercase()).or_default() += 1;
        }
    }
    m
}

const HOT: [&str; 3] = ["red", "blue", "fox"];
const FRESH: [&str; 3] = ["sun", "moon", "Rock"];
const COLD: [&str; 4] = ["salt", "gold", "iron", "wolf"];
const QUERIES: [&str; 12] =
    ["red", "blue", "fox", "sun", "moon", "rock", "salt", "gold", "iron", "wolf", "zebra", "RED"];
const BIG: usize = 1000;

#[derive(Clone, Debug)]
enum Op {
    Insert(u64),
    Remove(u64),
    Purge(Vec<u64>),
    Compact,
    Search(&'static str),
}

#[derive(Clone, Debug, PartialEq)]
enum Ret {
    Ok,
    AlreadyExists,
    Err(String),
    Bool(bool),
    Count(usize),
    Unit,
}

struct Plan {
    texts: BTreeMap<u64, String>,
    /// reference tokenization of every text (computed once: interpretation is slow)
    tokens: BTreeMap<u64, BTreeMap<String, usize>>,
    owned: Vec<Vec<u64>>,
}

fn exec(idx: &Idx, plan: &Plan, op: &Op, now: u64) -> Ret {
    match op {
        Op::Insert(id) => match idx.insert(*id, &plan.texts[id], now) {
            Ok(()) => Ret::Ok,
            Err(BM25Error::AlreadyExists { .. }) => Ret::AlreadyExists,
            Err(e) => Ret::Err(format!("{e:?}")),
        },
        Op::Remove(id) => Ret::Bool(idx.remove(*id, &plan.texts[id], now)),
        Op::Purge(ids) => Ret::Count(idx.purge_ids(&ids.iter().copied().collect(), now)),
        Op::Compact => {
            idx.compact_buckets();
            Ret::Unit
        }
        Op::Search(_) => Ret::Unit,
    }
}

/// Sequential semantics on the set of present ids.
fn model_apply(present: &mut BTreeSet<u64>, op: &Op) -> Ret {
    match op {
        Op::Insert(id) => {
            if present.insert(*id) {
                Ret::Ok
            } else {
                Ret::AlreadyExists
            }
        }
        Op::Remove(id) => Ret::Bool(present.remove(id)),
        Op::Purge(ids) => {
            let set: BTreeSet<u64> = ids.iter().copied().collect();
            Ret::Count(set.iter().filter(|id| present.remove(id)).count())
        }
        Op::Compact | Op::Search(_) => Ret::Unit,
    }
}

/// Ranking sanity of one result list: finite, >= 0, non-increasing, ties by ascending id, no
/// duplicate id.
fn check_ranked(v: &[(u64, f32)]) -> Result<(), String> {
    let mut seen = BTreeSet::new();
    for (i, (id, s)) in v.iter().enumerate() {
        if !s.is_finite() || *s < 0.0 {
            return Err(format!("score of {id} is {s}"));
        }
        if !seen.insert(*id) {
            return Err(format!("id {id} returned twice"));
        }
        if i > 0 {
            let (pid, ps) = v[i - 1];
            if ps < *s || (ps == *s && pid > *id) {
                return Err(format!("order broken at position {i}: ({pid},{ps}) before ({id},{s})"));
            }
        }
    }
    Ok(())
}

fn matching(plan: &Plan, present: &BTreeSet<u64>, word: &str) -> BTreeSet<u64> {
    let q = toks(word);
    present.iter().copied().filter(|id| plan.tokens[id].keys().any(|t| q.contains_key(t))).collect()
}

// ---------------------------------------------------------------------------------------------
// persistence through the callback API into an in-memory object map

#[derive(Default)]
struct Disk {
    objects: HashMap<(u32, u64), Vec<u8>>,
    meta: Option<Vec<u8>>,
    bucket_writes: u64,
}

fn flush(idx: &Idx, disk: &mut Disk, now: u64) -> Result<bool, String> {
    let cell = std::cell::RefCell::new(disk);
    let r = drive(idx.flush_with(
        now,
        |data: Vec<u8>| {
            cell.borrow_mut().meta = Some(data);
            async move { Ok::<(), BoxError>(()) }
        },
        |obj: BucketObject, data: Vec<u8>| {
            let mut d = cell.borrow_mut();
            d.objects.insert((obj.bucket_id, obj.generation), data);
            d.bucket_writes += 1;
            async move { Ok::<(), BoxError>(()) }
        },
    ));
    match r {
        Ok(out) => {
            // the documented caller duty: delete the replaced objects (best effort)
            for o in &out.obsolete {
                cell.borrow_mut().objects.remove(&(o.bucket_id, o.generation));
            }
            Ok(out.saved)
        }
        Err(e) => Err(format!("{e:?}")),
    }
}

fn load(disk: &Disk) -> Result<Idx, String> {
    let Some(meta) = &disk.meta else {
        return Err("no metadata object was written".into());
    };
    drive(BM25Index::load_all(WsTokenizer, &meta[..], async |o: BucketObject| {
        Ok(disk.objects.get(&(o.bucket_id, o.generation)).cloned())
    }))
    .map_err(|e| format!("{e:?}"))
}

// ---------------------------------------------------------------------------------------------

fn gen_script(rng: &mut Rng, own: &[u64], init: &BTreeSet<u64>, len: usize) -> Vec<Op> {
    let mut present = init.clone();
    let mut out = vec![];
    for _ in 0..len {
        let pick = |rng: &mut Rng, want: bool, present: &BTreeSet<u64>| -> u64 {
            let c: Vec<u64> = own.iter().copied().filter(|id| present.contains(id) == want).collect();
            if !c.is_empty() && rng.chance(5, 6) { *rng.pick(&c) } else { *rng.pick(own) }
        };
        let op = match rng.weighted(&[32, 24, 10, 9, 25]) {
            0 => Op::Insert(pick(rng, false, &present)),
            1 => Op::Remove(pick(rng, true, &present)),
            2 => {
                let mut ids = vec![pick(rng, true, &present)];
                if rng.bool() {
                    ids.push(*rng.pick(own));
                }
                Op::Purge(ids)
            }
            3 => Op::Compact,
            _ => Op::Search(if rng.chance(2, 3) { *rng.pick(&HOT) } else { *rng.pick(&QUERIES) }),
        };
        model_apply(&mut present, &op);
        out.push(op);
    }
    out
}

struct ThreadOut {
    present: BTreeSet<u64>,
    comparisons: u64,
    hook_points: u64,
    compactions: u64,
    searches: u64,
}

fn run_thread(
    t: usize,
    idx: &Idx,
    plan: &Plan,
    script: &[Op],
    init: BTreeSet<u64>,
    all_ids: &BTreeSet<u64>,
    stress_seed: u64,
) -> Result<ThreadOut, String> {
    vcore::sched::start_tag_log();
    vcore::sched::enable_stress(stress_seed, 2);
    let own = &plan.owned[t];
    let mut present = init;
    let (mut comparisons, mut compactions, mut searches) = (0u64, 0u64, 0u64);
    for (i, op) in script.iter().enumerate() {
        let ctx = |what: String| format!("thread {t} op #{i} {op:?}: {what}");
        match op {
            Op::Search(w) => {
                let got = idx.search(w, BIG, None);
                check_ranked(&got).map_err(|e| ctx(format!("ranking: {e}; result {got:?}")))?;
                let q = toks(w);
                for (id, _) in &got {
                    // never a document that lacks the term (texts are fixed per id)
                    let ok = all_ids.contains(id) && plan.tokens[id].keys().any(|t| q.contains_key(t));
                    if !ok {
                        return Err(ctx(format!("returned id {id} whose text does not contain the term")));
                    }
                }
                let mine: BTreeSet<u64> = got.iter().map(|x| x.0).filter(|id| own.contains(id)).collect();
                let exp = matching(plan, &present, w);
                if mine != exp {
                    return Err(ctx(format!("own documents found {mine:?}, sequential model of the owner {exp:?}")));
                }
                comparisons += 3;
                searches += 1;
            }
            _ => {
                let got = exec(idx, plan, op, 2);
                let exp = model_apply(&mut present, op);
                if matches!(op, Op::Compact) {
                    compactions += 1;
                } else {
                    if got != exp {
                        return Err(ctx(format!("returned {got:?}, sequential model of the owner says {exp:?}")));
                    }
                    comparisons += 1;
                }
            }
        }
    }
    vcore::sched::disable_stress();
    let hook_points = vcore::sched::take_tag_log().len() as u64;
    Ok(ThreadOut { present, comparisons, hook_points, compactions, searches })
}

#[derive(Default)]
struct Totals {
    threads: u64,
    ops: u64,
    invariant_checks: u64,
    model_comparisons: u64,
    reloads: u64,
    rounds: u64,
    hook_points: u64,
    compactions: u64,
    searches: u64,
    bucket_objects: u64,
    max_bucket_id: u64,
    final_docs: u64,
}

/// Quiescent oracles against the set of present documents.
fn check_against(
    what: &str,
    idx: &Idx,
    plan: &Plan,
    present: &BTreeSet<u64>,
    queries: &[&str],
    tot: &mut Totals,
) -> Result<(), String> {
    idx.verif_check_invariants().map_err(|e| format!("{what}: invariant broken: {e}"))?;
    tot.invariant_checks += 1;
    if idx.len() != present.len() {
        return Err(format!("{what}: len() = {} but the model holds {} documents {present:?}", idx.len(), present.len()));
    }
    for (id, t) in &plan.tokens {
        let exp = present.contains(id).then(|| t.values().sum::<usize>());
        let got = idx.get_doc_tokens(*id);
        if got != exp {
            return Err(format!("{what}: get_doc_tokens({id}) = {got:?}, model {exp:?}"));
        }
    }
    tot.model_comparisons += 2;
    for (qi, w) in queries.iter().enumerate() {
        let got = idx.search(w, BIG, None);
        check_ranked(&got).map_err(|e| format!("{what}: search({w:?}) ranking: {e}; result {got:?}"))?;
        let ids: BTreeSet<u64> = got.iter().map(|x| x.0).collect();
        let exp = matching(plan, present, w);
        if ids != exp {
            return Err(format!("{what}: search({w:?}) found {ids:?}, the model matches {exp:?}"));
        }
        // prefix law on the quiescent index: top-1 is the head of the full list
        if qi == 0
            && let Some(first) = got.first()
            && idx.search(w, 1, None).first().map(|x| x.0) != Some(first.0)
        {
            return Err(format!("{what}: search({w:?}, 1) is not the head of the full ranking"));
        }
        tot.model_comparisons += 1;
    }
    Ok(())
}

fn progress(t0: std::time::Instant, what: &str) {
    if std::env::var_os("MIRI_PROGRESS").is_some() {
        eprintln!("  [{:7.2}s] {what}", t0.elapsed().as_secs_f64());
    }
}

fn round(seed: u64, round: u64, tot: &mut Totals) -> Result<(), String> {
    let t0 = std::time::Instant::now();
    let mut rng = Rng::derive(seed ^ 0x4d31_3143, round);
    let n_threads = if rng.bool() { 2 } else { 3 };
    let per_thread = if n_threads == 3 { 6 } else { 9 };
    // quiescent searches are the expensive part under Miri (~0.5 s each): the hot words, one
    // fresh word, one cold word, one absent word
    let mut queries: Vec<String> = HOT
        .iter()
        .copied()
        .chain([["sun", "moon", "rock"][rng.usize(3)], *rng.pick(&COLD), "zebra"])
        .map(String::from)
        .collect();
    let overload = *rng.pick(&[48usize, 64, 100]);
    // plan: fixed text per id, ids owned per thread; cold documents are never touched by threads
    let mut texts = BTreeMap::new();
    let mut owned: Vec<Vec<u64>> = vec![];
    for t in 0..n_threads {
        let base = [10u64, 300, 70_000][t];
        let ids: Vec<u64> = (0..4).map(|j| base + j).collect();
        for id in &ids {
            let mut ws: Vec<&str> = (0..1 + rng.usize(2)).map(|_| *rng.pick(&HOT)).collect();
            if rng.bool() {
                ws.push(*rng.pick(&FRESH));
            }
            if rng.chance(1, 4) {
                ws.push(ws[0]); // tf = 2
            }
            rng.shuffle(&mut ws);
            let mut text = ws.join(if rng.bool() { " " } else { ", " });
            // most documents also carry a word of their own: inserting / removing them creates /
            // deletes a posting (new postings are what a concurrent compaction can lose)
            if rng.chance(3, 4) {
                text.push_str(&format!(" d{id}"));
            }
            texts.insert(*id, text);
        }
        owned.push(ids);
    }
    let cold: Vec<u64> = (0..4u64).map(|i| 1000 + i).collect();
    for (i, id) in cold.iter().enumerate() {
        texts.insert(*id, format!("{} {} {}", COLD[i % 4], rng.pick(&COLD), rng.pick(&COLD)));
    }
    let tokens = texts.iter().map(|(id, t)| (*id, toks(t))).collect();
    let plan = Plan { texts, tokens, owned };
    let all_ids: BTreeSet<u64> = plan.texts.keys().copied().collect();
    let idx: Arc<Idx> = Arc::new(BM25Index::new(
        "c11_miri".to_string(),
        WsTokenizer,
        Some(BM25Config { bm25: BM25Params::default(), bucket_overload_size: overload }),
    ));
    let mut cold_present = BTreeSet::new();
    let mut inits: Vec<BTreeSet<u64>> = vec![BTreeSet::new(); n_threads];
    let mut prefill: Vec<(Option<usize>, Op)> = cold.iter().map(|id| (None, Op::Insert(*id))).collect();
    for t in 0..n_threads {
        for id in &plan.owned[t] {
            if rng.chance(2, 5) {
                prefill.push((Some(t), Op::Insert(*id)));
            }
        }
    }
    for (t, op) in &prefill {
        let got = exec(&idx, &plan, op, 1);
        let exp = match t {
            Some(t) => model_apply(&mut inits[*t], op),
            None => model_apply(&mut cold_present, op),
        };
        if got != exp {
            return Err(format!("round {round} prefill {op:?}: returned {got:?}, model {exp:?}"));
        }
        tot.ops += 1;
        tot.model_comparisons += 1;
    }
    progress(t0, "prefilled");
    let mut scripts: Vec<Vec<Op>> =
        (0..n_threads).map(|t| gen_script(&mut rng, &plan.owned[t], &inits[t], per_thread)).collect();
    // at least one compaction runs in the middle of somebody's script
    {
        let t = rng.usize(n_threads);
        let pos = 2 + rng.usize(per_thread - 4);
        scripts[t][pos] = Op::Compact;
    }
    let stress = rng.next_u64();
    let mut outs: Vec<Result<ThreadOut, String>> = vec![];
    std::thread::scope(|s| {
        let hs: Vec<_> = (0..n_threads)
            .map(|t| {
                let (idx, plan, script, init, all_ids) = (idx.clone(), &plan, &scripts[t], inits[t].clone(), &all_ids);
                s.spawn(move || run_thread(t, &idx, plan, script, init, all_ids, stress ^ ((t as u64) << 8)))
            })
            .collect();
        for h in hs {
            outs.push(h.join().unwrap_or_else(|_| Err("a script thread panicked".into())));
        }
    });
    progress(t0, "threads joined");
    tot.threads += n_threads as u64;
    let describe = || format!("overload {overload}, texts {:?}, prefill {prefill:?}, scripts {scripts:?}", plan.texts);
    let ctx = |e: String| format!("round {round} ({n_threads} threads): {e}; {}", describe());
    let mut present = cold_present;
    for (t, o) in outs.into_iter().enumerate() {
        let o = o.map_err(ctx)?;
        tot.ops += scripts[t].len() as u64;
        tot.model_comparisons += o.comparisons;
        tot.hook_points += o.hook_points;
        tot.compactions += o.compactions;
        tot.searches += o.searches;
        present.extend(o.present);
    }
    // ... and the private word of one surviving document
    if let Some(id) = present.iter().find(|id| plan.tokens[id].contains_key(&format!("d{id}"))) {
        queries.push(format!("d{id}"));
    }
    let queries: Vec<&str> = queries.iter().map(|s| s.as_str()).collect();
    check_against("after join", &idx, &plan, &present, &queries, tot).map_err(ctx)?;
    progress(t0, "checked after join");
    tot.max_bucket_id = tot.max_bucket_id.max(idx.stats().max_bucket_id as u64);
    let mut disk = Disk::default();
    flush(&idx, &mut disk, 3).map_err(|e| ctx(format!("flush failed: {e}")))?;
    let loaded = load(&disk).map_err(|e| ctx(format!("load_all failed: {e}")))?;
    check_against("reloaded", &loaded, &plan, &present, &queries, tot).map_err(ctx)?;
    tot.reloads += 1;
    progress(t0, "flushed + reloaded + checked");
    if round % 2 == 1 {
        // (odd rounds only, i.e. not in the default single round: flush + reload + searches are
        // the expensive part under Miri and the native C11 monitor does the same follow-up)
        // the same instance keeps working: sequential follow-up, incremental flush, second reload
        let mut follow = vec![];
        if let Some(id) = present.iter().next() {
            follow.push(Op::Remove(*id));
        }
        if let Some(id) = all_ids.iter().find(|id| !present.contains(id)) {
            follow.push(Op::Insert(*id));
        }
        follow.push(Op::Compact);
        if let Some(id) = present.iter().next_back() {
            follow.push(Op::Purge(vec![*id]));
        }
        for op in &follow {
            let got = exec(&idx, &plan, op, 4);
            let exp = model_apply(&mut present, op);
            if !matches!(op, Op::Compact) && got != exp {
                return Err(ctx(format!("follow-up {op:?}: returned {got:?}, model {exp:?}")));
            }
            tot.ops += 1;
            tot.model_comparisons += 1;
        }
        flush(&idx, &mut disk, 5).map_err(|e| ctx(format!("second flush failed: {e}")))?;
        let loaded = load(&disk).map_err(|e| ctx(format!("second load_all failed: {e}")))?;
        check_against("reloaded after follow-up", &loaded, &plan, &present, &queries[..3], tot).map_err(ctx)?;
        tot.reloads += 1;
        progress(t0, "follow-up flushed + reloaded + checked");
    }
    tot.bucket_objects += disk.bucket_writes;
    tot.final_docs += present.len() as u64;
    tot.rounds += 1;
    Ok(())
}

fn main() {
    let args: Vec<String> = std::env::args().collect();
    let seed: u64 = args.get(1).and_then(|s| s.parse().ok()).unwrap_or(1);
    let rounds: u64 = args.get(2).and_then(|s| s.parse().ok()).unwrap_or(1);
    anda_db_utils::verif::set_hook(Some(v_miri::hook));
    let mut tot = Totals::default();
    for r in 0..rounds {
        if let Err(e) = round(seed, r, &mut tot) {
            println!("MIRI-C11 violation {e}");
            std::process::exit(1);
        }
    }
    println!(
        "MIRI-C11 done seed={seed} threads={} ops={} invariant_checks={} model_comparisons={} reloads={} rounds={} \
         hook_points={} compactions={} searches={} bucket_objects={} max_bucket_id={} final_docs={}",
        tot.threads,
        tot.ops,
        tot.invariant_checks,
        tot.model_comparisons,
        tot.reloads,
        tot.rounds,
        tot.hook_points,
        tot.compactions,
        tot.searches,
        tot.bucket_objects,
        tot.max_bucket_id,
        tot.final_docs
    );
}

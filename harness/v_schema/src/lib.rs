//! Shared fixtures of the C13 monitors: type/value generators, comparison helpers, the
//! schema-only oracles (also run under Miri by `c13_miri`) and the derive-macro struct family.
pub mod generate;
pub mod oracle;
pub mod typed;

//! Grammar-derived sentence generator for KQL / KML / META and the KIP JSON dialect.
//!
//! Written from KIPSyntax.md and SPECIFICATION.md (sections 42-69 and appendices A-C), not from
//! the parser: every pattern family, filter function, aggregate, path quantifier, time axis,
//! every KML statement family with its clause menu and every META command has a production
//! here. Sentences are emitted as a token sequence (`GTok`) whose canonical rendering puts one
//! space between tokens; `glue` marks the few places where the language is written without a
//! separator (`"pred"{0,5}`).
//!
//! Nesting: `Gen::drill` makes one path of the sentence descend to a chosen bracket depth
//! (below, at and beyond `MAX_KIP_NESTING_DEPTH`); `Gen::fuel` bounds the size.

use vcore::Rng;

#[derive(Clone, Copy, Debug, PartialEq, Eq)]
pub enum GK {
    Kw,
    Func,
    Ident,
    Var,
    Param,
    Str,
    Num,
    Lit,
    Punct,
}

#[derive(Clone, Debug)]
pub struct GTok {
    pub kind: GK,
    pub text: String,
    /// written directly after the previous token
    pub glue: bool,
}

pub fn render(toks: &[GTok]) -> String {
    let mut s = String::new();
    for (i, t) in toks.iter().enumerate() {
        if i > 0 && !t.glue {
            s.push(' ');
        }
        s.push_str(&t.text);
    }
    s
}

/// Which target kind a WHERE block binds the target variable to.
#[derive(Clone, Copy, Debug, PartialEq, Eq)]
pub enum BindKind {
    Concept,
    ConceptKw,
    Proposition,
    Assertion,
    Evidence,
    Activity,
}

#[derive(Clone, Copy, Debug, PartialEq, Eq)]
enum Flavor {
    Kql,
    Exact,
}

pub struct Gen<'a> {
    pub rng: &'a mut Rng,
    pub t: Vec<GTok>,
    /// current bracket depth
    cur: usize,
    /// deepest bracket depth reached
    pub reached: usize,
    /// ordinary recursion stops at this bracket depth
    pub soft_depth: usize,
    /// remaining levels that one path is forced to descend
    pub drill: usize,
    /// remaining size budget in tokens (lists stop growing when exhausted)
    pub fuel: i64,
    glue_next: bool,
    nvar: usize,
    /// multiplier for list lengths (big sentences)
    pub scale: usize,
}

const VARS: &[&str] = &[
    "x", "y", "person", "p", "a", "e", "act", "org", "belief", "slot", "edge", "t", "_v", "x1",
    "type", "limit", "CONCEPT", "Where", "id", "m",
];
const PARAMS: &[&str] = &[
    "id", "alice", "n", "t1", "limit", "cursor", "v", "key", "payload", "time", "type", "FIND",
    "_p", "p2",
];
const KEYS: &[&str] = &[
    "name", "key", "type", "id", "status", "by", "mode", "goal", "outcome_status", "summary",
    "salience", "memory_strength", "x", "y1", "_z", "where", "limit", "FIND", "attributes", "role",
    "index", "n", "display_name", "confidence_note", "value",
];
const QKEYS: &[&str] = &["exact-key", "a b", "k//x", "q\\\"k", "{", "ünï", "", "kip://pkg@1/sym"];
const TYPES: &[&str] = &["Person", "Experience", "Drug", "Preference", "Event", "T", "kip://core@2.0/Person"];
const PREDS: &[&str] = &["prefers", "works_for", "timezone", "is_subclass_of", "related_to", "caused_by", "p"];
const FACETS: &[&str] = &["MnemonicState", "SkillUtility", "F"];
const SFIELDS: &[&str] = &["has_step", "evidence", "source", "inputs", "outputs", "about"];
const STRINGS: &[&str] = &[
    "", "a", "Alice", "dark mode", "+01:00", "2026-01-01T00:00:00Z", "a//b", "// not a comment",
    "({[", "]})", "x\\\"y", "\\\\", "tab\\tnew\\nline", "\\u00e9", "\\ud83d\\ude00", "é✓🦀", "PURGE",
    "null", "FIND(?x) WHERE {}", "it's", "a,b", "?x", ":p", "{\\\"k\\\": [1,2]}", "/", "\\/",
];
const NUMS: &[&str] = &[
    "0", "1", "2", "7", "42", "100", "-1", "-0", "0.5", "0.95", "1.0", "1e3", "1E-2", "-2.5e+10",
    "9223372036854775807", "-9223372036854775808", "18446744073709551615", "3.14159", "1500",
];
const CMP: &[&str] = &["==", "!=", "<", ">", "<=", ">="];
const AGGS: &[&str] = &["COUNT", "SUM", "AVG", "MIN", "MAX"];
const FILTER_FUNCS: &[(&str, usize)] = &[
    ("CONTAINS", 2), ("STARTS_WITH", 2), ("ENDS_WITH", 2), ("REGEX", 2), ("IN", 2), ("IS_NULL", 1),
    ("IS_NOT_NULL", 1), ("IS_LITERAL", 1), ("IS_ELEMENT", 1), ("IS_KIND", 2), ("LITERAL_TYPE", 1),
];

impl<'a> Gen<'a> {
    pub fn new(rng: &'a mut Rng) -> Gen<'a> {
        Gen {
            rng,
            t: Vec::new(),
            cur: 0,
            reached: 0,
            soft_depth: 7,
            drill: 0,
            fuel: 400,
            glue_next: false,
            nvar: 0,
            scale: 1,
        }
    }

    // ------------------------------------------------------------------ emit helpers
    fn push(&mut self, kind: GK, text: impl Into<String>) {
        let glue = std::mem::take(&mut self.glue_next);
        self.fuel -= 1;
        let text = text.into();
        // a `["key"]` step opens and closes one bracket
        if kind == GK::Var && text.contains('[') && self.cur + 1 > self.reached {
            self.reached = self.cur + 1;
        }
        self.t.push(GTok { kind, text, glue });
    }
    pub fn kw(&mut self, w: &str) {
        for part in w.split(' ') {
            self.push(GK::Kw, part);
        }
    }
    fn func(&mut self, w: &str) {
        self.push(GK::Func, w);
    }
    fn p(&mut self, s: &str) {
        self.push(GK::Punct, s);
    }
    fn open(&mut self, s: &str) {
        self.p(s);
        self.cur += 1;
        if self.cur > self.reached {
            self.reached = self.cur;
        }
    }
    fn close(&mut self, s: &str) {
        self.p(s);
        self.cur -= 1;
    }
    fn ident(&mut self, s: &str) {
        self.push(GK::Ident, s);
    }
    fn lit(&mut self, s: &str) {
        self.push(GK::Lit, s);
    }
    fn num(&mut self, s: &str) {
        self.push(GK::Num, s);
    }
    fn str_raw(&mut self, body: &str) {
        self.push(GK::Str, format!("\"{body}\""));
    }
    fn string(&mut self) {
        let s = *self.rng.pick(STRINGS);
        self.str_raw(s);
    }
    fn var_named(&mut self, name: &str) {
        self.push(GK::Var, format!("?{name}"));
    }
    fn param(&mut self) {
        let s = *self.rng.pick(PARAMS);
        self.push(GK::Param, format!(":{s}"));
    }
    fn glue(&mut self) {
        self.glue_next = true;
    }

    fn chance(&mut self, n: u64, d: u64) -> bool {
        self.rng.chance(n, d)
    }
    /// May an ordinary (non-drilled) production open `need` more bracket levels?
    fn room(&self, need: usize) -> bool {
        self.cur + need <= self.soft_depth && self.fuel > 0
    }
    /// One path is forced to descend while `drill` levels remain.
    fn take_drill(&mut self) -> bool {
        if self.drill > 0 {
            self.drill -= 1;
            true
        } else {
            false
        }
    }
    /// While drilling, sometimes hand the remaining levels to a production further down
    /// (so that the deep path changes its kind of bracket).
    fn pass_drill_down(&mut self) -> bool {
        self.drill > 0 && self.rng.chance(1, 7)
    }
    fn count(&mut self, max: usize) -> usize {
        if self.fuel <= 0 {
            1
        } else {
            1 + self.rng.usize(max * self.scale.max(1))
        }
    }
    fn fresh_var(&mut self) -> String {
        self.nvar += 1;
        if self.chance(1, 3) {
            format!("v{}", self.nvar)
        } else {
            (*self.rng.pick(VARS)).to_string()
        }
    }
    fn any_var(&mut self) -> String {
        (*self.rng.pick(VARS)).to_string()
    }

    // ------------------------------------------------------------------ lexical atoms
    fn var_path(&mut self, name: &str) {
        let mut s = format!("?{name}");
        let steps = match self.rng.below(6) {
            0 | 1 => 0,
            2 | 3 => 1,
            4 => 2,
            _ => 3,
        };
        for _ in 0..steps {
            if self.chance(1, 5) {
                let k = *self.rng.pick(&["MnemonicState", "exact-key", "a b", "k]\\\"["]);
                if self.chance(1, 4) {
                    s.push_str(&format!("[ \"{k}\" ]"));
                } else {
                    s.push_str(&format!("[\"{k}\"]"));
                }
            } else {
                let f = *self.rng.pick(&[
                    "name", "id", "attributes", "facets", "lifecycle", "status", "_system", "version",
                    "confidence", "index", "memory_strength", "goal", "type", "limit",
                ]);
                s.push('.');
                s.push_str(f);
            }
        }
        self.push(GK::Var, s);
    }

    fn literal_scalar(&mut self) {
        match self.rng.below(8) {
            0 => self.lit("true"),
            1 => self.lit("false"),
            2 => self.lit("null"),
            3 | 4 => {
                let n = *self.rng.pick(NUMS);
                self.num(n)
            }
            _ => self.string(),
        }
    }

    /// `parameter | literal`
    fn scalar(&mut self) {
        if self.chance(1, 2) {
            self.param()
        } else {
            self.literal_scalar()
        }
    }
    fn scalar_num(&mut self) {
        if self.chance(1, 2) {
            self.param()
        } else {
            let n = *self.rng.pick(&["0", "1", "5", "10", "100", "4200"]);
            self.num(n)
        }
    }
    fn scalar_str(&mut self) {
        if self.chance(1, 3) {
            self.param()
        } else {
            self.string()
        }
    }
    fn symbol(&mut self, pool: &[&str]) {
        if self.chance(1, 5) {
            self.param()
        } else {
            let s = *self.rng.pick(pool);
            self.str_raw(s)
        }
    }

    fn key(&mut self, used: &mut Vec<String>) -> bool {
        for _ in 0..8 {
            let (txt, k) = if self.chance(1, 5) {
                let q = *self.rng.pick(QKEYS);
                (format!("\"{q}\""), GK::Str)
            } else {
                ((*self.rng.pick(KEYS)).to_string(), GK::Ident)
            };
            // the parser compares decoded keys; keep the spelling-level keys distinct and never
            // let a quoted spelling collide with a bare one
            let norm = txt.trim_matches('"').to_string();
            if used.contains(&norm) {
                continue;
            }
            used.push(norm);
            self.push(k, txt);
            return true;
        }
        false
    }

    // ------------------------------------------------------------------ JSON-like data values
    /// `data_value`: literal | parameter | array | object (handles / own-field reads are added by
    /// the KML productions that know which names are bound).
    fn data_value(&mut self, allow_param: bool) {
        let nest = self.take_drill() || (self.room(1) && self.chance(1, 4));
        if nest {
            if self.chance(1, 2) {
                self.open("[");
                let n = if self.drill > 0 { 1 } else { self.rng.usize(4) };
                for i in 0..n {
                    if i > 0 {
                        self.p(",");
                    }
                    self.data_value(allow_param);
                }
                if n > 0 && self.chance(1, 6) {
                    self.p(",");
                }
                self.close("]");
            } else {
                self.open("{");
                let n = if self.drill > 0 { 1 } else { self.rng.usize(4) };
                let mut used = vec![];
                let mut first = true;
                for _ in 0..n {
                    if !first {
                        self.p(",");
                    }
                    if !self.key(&mut used) {
                        // keep the object well formed
                        self.ident(&format!("k{}", used.len()));
                    }
                    first = false;
                    self.p(":");
                    self.data_value(allow_param);
                }
                if n > 0 && self.chance(1, 6) {
                    self.p(",");
                }
                self.close("}");
            }
        } else if allow_param && self.chance(1, 4) {
            self.param();
        } else {
            self.literal_scalar();
        }
    }

    /// `{ key: data_value, ... }` option block (`WITH {...}`, `WITH EPISTEMIC {...}`).
    fn option_block(&mut self, keys: &[&str]) {
        self.open("{");
        let n = self.rng.usize(keys.len().min(4) + 1);
        let mut pool: Vec<&str> = keys.to_vec();
        self.rng.shuffle(&mut pool);
        for (i, k) in pool.iter().take(n).enumerate() {
            if i > 0 {
                self.p(",");
            }
            if self.chance(1, 6) {
                self.str_raw(k);
            } else {
                self.ident(k);
            }
            self.p(":");
            self.data_value(true);
        }
        if n > 0 && self.chance(1, 8) {
            self.p(",");
        }
        self.close("}");
    }

    // ------------------------------------------------------------------ patterns
    fn object_matcher(&mut self, fl: Flavor, typed: bool) {
        self.open("{");
        let mut used: Vec<String> = vec![];
        let mut n = 0;
        if typed {
            self.ident("type");
            used.push("type".into());
            self.p(":");
            let s = *self.rng.pick(TYPES);
            self.str_raw(s);
            n += 1;
        }
        let extra = if self.drill > 0 { 1 } else { self.rng.usize(3) };
        for _ in 0..extra {
            if self.fuel <= 0 && n > 0 {
                break;
            }
            if n > 0 {
                self.p(",");
            }
            if !self.key(&mut used) {
                self.ident(&format!("k{n}"));
            }
            self.p(":");
            self.match_value(fl);
            n += 1;
        }
        if n > 0 && self.chance(1, 8) {
            self.p(",");
        }
        self.close("}");
    }

    fn match_value(&mut self, fl: Flavor) {
        let nest = self.take_drill() || (self.room(2) && self.chance(1, 4));
        if nest {
            match self.rng.below(3) {
                0 => {
                    self.open("[");
                    let n = if self.drill > 0 { 1 } else { self.rng.usize(3) };
                    for i in 0..n {
                        if i > 0 {
                            self.p(",");
                        }
                        self.match_value(fl);
                    }
                    if n > 0 && self.chance(1, 8) {
                        self.p(",");
                    }
                    self.close("]");
                }
                1 => self.object_matcher(fl, false),
                _ => self.proposition_matcher(fl, false),
            }
            return;
        }
        match self.rng.below(4) {
            0 => {
                let v = self.any_var();
                self.var_named(&v)
            }
            1 => self.param(),
            _ => self.literal_scalar(),
        }
    }

    fn term(&mut self, fl: Flavor, allow_literal: bool) {
        let nest = self.take_drill() || (self.room(2) && self.chance(1, 6));
        if nest {
            if self.chance(1, 2) {
                let typed = self.rng.bool();
                self.object_matcher(fl, typed);
            } else {
                self.proposition_matcher(fl, false);
            }
            return;
        }
        match self.rng.below(if allow_literal { 4 } else { 2 }) {
            0 => {
                let v = self.any_var();
                self.var_named(&v)
            }
            1 => self.param(),
            _ => self.literal_scalar(),
        }
    }

    fn pred_atom(&mut self, allow_var: bool) {
        match self.rng.below(6) {
            0 if allow_var => {
                let v = self.any_var();
                self.var_named(&v)
            }
            1 => self.param(),
            _ => {
                let s = *self.rng.pick(PREDS);
                self.str_raw(s)
            }
        }
    }

    fn quantifier(&mut self) {
        self.glue();
        self.open("{");
        let lo = self.rng.usize(4);
        self.num(&lo.to_string());
        match self.rng.below(3) {
            0 => {}
            1 => self.p(","),
            _ => {
                self.p(",");
                let hi = lo + self.rng.usize(5);
                self.num(&hi.to_string());
            }
        }
        self.close("}");
    }

    /// `( term , predicate , term )` or `( id : scalar )`; `structural_only` = the creating forms.
    fn proposition_matcher(&mut self, fl: Flavor, structural_only: bool) {
        self.open("(");
        if !structural_only && self.drill == 0 && self.chance(1, 7) {
            self.ident("id");
            self.p(":");
            self.scalar_str();
            self.close(")");
            return;
        }
        self.term(fl, false);
        self.p(",");
        if fl == Flavor::Kql && self.chance(1, 3) {
            let n = self.count(3);
            for i in 0..n {
                if i > 0 {
                    self.p("|");
                }
                self.pred_atom(true);
                if self.chance(1, 2) {
                    self.quantifier();
                }
            }
        } else {
            self.pred_atom(!structural_only);
        }
        self.p(",");
        self.term(fl, true);
        self.close(")");
    }

    // ------------------------------------------------------------------ filters
    fn filter_operand(&mut self, var: &str) {
        let nest = self.take_drill() || (self.room(1) && self.chance(1, 8));
        if nest {
            match self.rng.below(3) {
                0 => {
                    self.open("(");
                    self.filter_operand(var);
                    self.close(")");
                }
                1 => {
                    self.open("[");
                    let n = if self.drill > 0 { 1 } else { self.rng.usize(4) };
                    for i in 0..n {
                        if i > 0 {
                            self.p(",");
                        }
                        self.filter_operand(var);
                    }
                    self.close("]");
                }
                _ => {
                    // wholly literal object operand
                    let d = std::mem::take(&mut self.drill);
                    self.open("{");
                    let n = self.rng.usize(3);
                    let mut used = vec![];
                    for i in 0..n {
                        if i > 0 {
                            self.p(",");
                        }
                        if !self.key(&mut used) {
                            self.ident(&format!("k{i}"));
                        }
                        self.p(":");
                        self.literal_scalar();
                    }
                    self.close("}");
                    self.drill = d;
                }
            }
            return;
        }
        match self.rng.below(8) {
            0 => self.param(),
            1 | 2 | 3 => {
                let v = if self.chance(3, 4) { var.to_string() } else { self.any_var() };
                self.var_path(&v)
            }
            4 => {
                // negation of a non-numeric operand (a glued `-5` is a literal, `- ?x` a negation)
                self.p("-");
                let v = var.to_string();
                self.var_path(&v)
            }
            _ => self.literal_scalar(),
        }
    }

    fn filter_primary(&mut self, var: &str) {
        let nest = (!self.pass_drill_down() && self.take_drill()) || (self.drill == 0 && self.room(1) && self.chance(1, 6));
        if nest {
            self.open("(");
            self.filter_expr(var);
            self.close(")");
            return;
        }
        if self.chance(2, 5) {
            let (name, arity) = *self.rng.pick(FILTER_FUNCS);
            self.func(name);
            self.open("(");
            for i in 0..arity {
                if i > 0 {
                    self.p(",");
                }
                if name == "IN" && i == 1 {
                    self.open("[");
                    let n = self.rng.usize(4);
                    for j in 0..n {
                        if j > 0 {
                            self.p(",");
                        }
                        self.literal_scalar();
                    }
                    self.close("]");
                } else if i == 0 {
                    self.var_path(var);
                } else {
                    self.filter_operand(var);
                }
            }
            if self.chance(1, 10) {
                self.p(",");
            }
            self.close(")");
        } else {
            self.filter_operand(var);
            let op = *self.rng.pick(CMP);
            self.p(op);
            self.filter_operand(var);
        }
    }

    fn filter_unary(&mut self, var: &str) {
        let mut nots = 0;
        while nots < 3 && self.chance(1, 6) {
            self.p("!");
            nots += 1;
        }
        self.filter_primary(var);
    }

    fn filter_expr(&mut self, var: &str) {
        let ors = if self.fuel > 0 && self.chance(1, 4) { 1 + self.rng.usize(2) } else { 0 };
        for i in 0..=ors {
            if i > 0 {
                self.p("||");
            }
            let ands = if self.fuel > 0 && self.chance(1, 3) { 1 + self.rng.usize(2) } else { 0 };
            for j in 0..=ands {
                if j > 0 {
                    self.p("&&");
                }
                self.filter_unary(var);
            }
        }
    }

    // ------------------------------------------------------------------ WHERE
    fn bind_pattern(&mut self, fl: Flavor, var: &str, kind: BindKind) {
        self.var_named(var);
        match kind {
            BindKind::Concept => {
                let typed = self.chance(3, 4);
                self.object_matcher(fl, typed)
            }
            BindKind::ConceptKw => {
                self.kw("CONCEPT");
                let typed = self.chance(3, 4);
                self.object_matcher(fl, typed)
            }
            BindKind::Proposition => {
                if self.chance(1, 2) {
                    self.kw("PROPOSITION");
                }
                self.proposition_matcher(fl, false)
            }
            BindKind::Assertion => {
                self.kw("ASSERTION");
                self.object_matcher(fl, false)
            }
            BindKind::Evidence => {
                self.kw("EVIDENCE");
                self.object_matcher(fl, false)
            }
            BindKind::Activity => {
                self.kw("ACTIVITY");
                self.object_matcher(fl, false)
            }
        }
    }

    fn where_item(&mut self, fl: Flavor, anchor: &str) {
        if self.pass_drill_down() {
            // a pattern whose matcher / tuple / filter continues the deep path
            match self.rng.below(4) {
                0 => {
                    let v = self.fresh_var();
                    self.bind_pattern(fl, &v, BindKind::Concept)
                }
                1 => {
                    let v = self.fresh_var();
                    self.bind_pattern(fl, &v, BindKind::Proposition)
                }
                2 => {
                    let v = self.fresh_var();
                    self.bind_pattern(fl, &v, BindKind::Assertion)
                }
                _ => {
                    self.kw("FILTER");
                    self.open("(");
                    self.filter_expr(anchor);
                    self.close(")");
                }
            }
            return;
        }
        let nest = self.take_drill() || (self.room(3) && self.chance(1, 7));
        if nest {
            let k = *self.rng.pick(&["NOT", "OPTIONAL", "UNION"]);
            self.kw(k);
            self.where_block(fl, anchor, None);
            return;
        }
        // Exact flavor (mutation WHERE, EXPORT selection): now and then a KQL-only pattern
        // (BELIEF / BELIEF SLOT) that every entry point must refuse there - the negative half of
        // "classification agrees between the entry points"
        let n_kinds = if fl == Flavor::Kql { 14 } else { 10 };
        let pick = if fl != Flavor::Kql && self.chance(1, 16) { 10 + self.rng.below(4) } else { self.rng.below(n_kinds) };
        match pick {
            0 => {
                let v = self.fresh_var();
                let k = if self.rng.bool() { BindKind::Concept } else { BindKind::ConceptKw };
                self.bind_pattern(fl, &v, k)
            }
            1 => {
                let v = self.fresh_var();
                self.bind_pattern(fl, &v, BindKind::Proposition)
            }
            2 => {
                // proposition without a variable
                if self.chance(1, 2) {
                    self.kw("PROPOSITION");
                }
                self.proposition_matcher(fl, false)
            }
            3 => {
                let v = self.fresh_var();
                self.bind_pattern(fl, &v, BindKind::Assertion)
            }
            4 => {
                let v = self.fresh_var();
                self.bind_pattern(fl, &v, BindKind::Evidence)
            }
            5 => {
                let v = self.fresh_var();
                self.bind_pattern(fl, &v, BindKind::Activity)
            }
            6 | 7 => {
                if self.chance(1, 2) {
                    let v = self.fresh_var();
                    self.var_named(&v);
                }
                self.kw("STRUCTURAL");
                self.open("(");
                self.term(fl, false);
                self.p(",");
                self.symbol(SFIELDS);
                self.p(",");
                self.term(fl, false);
                self.close(")");
            }
            8 | 9 => {
                self.kw("FILTER");
                self.open("(");
                self.filter_expr(anchor);
                self.close(")");
            }
            10 | 11 => {
                let v = self.fresh_var();
                self.var_named(&v);
                self.kw("BELIEF");
                self.open("(");
                match self.rng.below(3) {
                    0 => {
                        let pv = self.any_var();
                        self.var_named(&pv);
                    }
                    1 => {
                        self.ident("id");
                        self.p(":");
                        self.scalar_str();
                    }
                    _ => {
                        self.term(fl, false);
                        self.p(",");
                        self.pred_atom(true);
                        self.p(",");
                        self.term(fl, true);
                    }
                }
                self.close(")");
            }
            _ => {
                let v = self.fresh_var();
                self.var_named(&v);
                self.kw("BELIEF SLOT");
                self.open("(");
                self.term(fl, false);
                self.p(",");
                self.pred_atom(true);
                self.close(")");
            }
        }
    }

    /// `{ where_clause* }`; when `bind` is given the first item binds that variable to the kind.
    fn where_block(&mut self, fl: Flavor, anchor: &str, bind: Option<BindKind>) {
        self.open("{");
        if let Some(k) = bind {
            self.bind_pattern(fl, anchor, k);
        }
        let n = if self.drill > 0 {
            1
        } else if bind.is_some() {
            self.rng.usize(3)
        } else if self.chance(1, 25) {
            0
        } else {
            self.count(3)
        };
        for _ in 0..n {
            self.where_item(fl, anchor);
        }
        self.close("}");
    }

    fn as_of(&mut self) {
        self.kw("AS OF");
        match self.rng.below(3) {
            0 => {
                self.kw("SEQ");
                self.scalar_num()
            }
            1 => {
                self.kw("TX");
                self.scalar_str()
            }
            _ => {
                self.kw("TIME");
                self.scalar_str()
            }
        }
    }

    // ------------------------------------------------------------------ KQL
    pub fn kql(&mut self) {
        self.kw("FIND");
        self.open("(");
        let anchor = self.fresh_var();
        let n = self.count(3);
        let mut projected: Vec<String> = vec![];
        for i in 0..n {
            if i > 0 {
                self.p(",");
            }
            let v = if i == 0 { anchor.clone() } else { self.any_var() };
            if self.chance(1, 3) {
                let a = *self.rng.pick(AGGS);
                self.func(a);
                self.open("(");
                if self.chance(1, 3) {
                    self.kw("DISTINCT");
                }
                self.var_path(&v);
                self.close(")");
            } else {
                self.var_path(&v);
            }
            projected.push(v);
        }
        self.close(")");
        self.kw("WHERE");
        let bind = if self.chance(2, 3) { Some(BindKind::Concept) } else { None };
        self.where_block(Flavor::Kql, &anchor, bind);
        if self.chance(1, 3) {
            self.as_of();
        }
        if self.chance(1, 4) {
            self.kw("FOR TIME");
            self.scalar_str();
        }
        if self.chance(1, 4) {
            self.kw("WITH EPISTEMIC");
            self.option_block(&[
                "purpose", "risk", "policy", "include_historical", "include_hypothetical", "explanation",
            ]);
        }
        if self.chance(1, 3) {
            self.kw("ORDER BY");
            let k = self.count(3);
            for i in 0..k {
                if i > 0 {
                    self.p(",");
                }
                let v = self.rng.pick(&projected).clone();
                if self.chance(1, 4) {
                    let a = *self.rng.pick(AGGS);
                    self.func(a);
                    self.open("(");
                    self.var_path(&v);
                    self.close(")");
                } else {
                    self.var_path(&v);
                }
                match self.rng.below(3) {
                    0 => self.kw("ASC"),
                    1 => self.kw("DESC"),
                    _ => {}
                }
            }
        }
        if self.chance(1, 2) {
            self.kw("LIMIT");
            self.scalar_num();
        }
        if self.chance(1, 4) {
            self.kw("CURSOR");
            self.scalar_str();
        }
    }

    // ------------------------------------------------------------------ KML values
    fn update_expr(&mut self, target: Option<&str>, depth: usize) {
        let nest = self.take_drill() || (depth < 3 && self.room(1) && self.chance(1, 3));
        if nest {
            let (f, arity) = *self.rng.pick(&[("ADD", 2), ("MUL", 2), ("CLAMP", 3), ("COALESCE", 2)]);
            self.func(f);
            self.open("(");
            for i in 0..arity {
                if i > 0 {
                    self.p(",");
                }
                self.update_expr(target, depth + 1);
            }
            self.close(")");
            return;
        }
        match (self.rng.below(3), target) {
            (0, Some(t)) => self.var_path_nonempty(t),
            (1, _) => self.param(),
            _ => {
                let n = *self.rng.pick(&["0", "1", "0.99", "-1", "2.5", "-0.5", "100"]);
                self.num(n)
            }
        }
    }

    fn var_path_nonempty(&mut self, name: &str) {
        let f = *self.rng.pick(&[
            ".attributes.count", ".facets[\"MnemonicState\"].memory_strength", ".n", ".attributes.score",
        ]);
        self.push(GK::Var, format!("?{name}{f}"));
    }

    /// `mutation_value`; `handles` are the names a `?h` may refer to, `target` the variable whose
    /// own fields an update expression may read.
    fn mutation_value(&mut self, handles: &[String], target: Option<&str>, allow_expr: bool) {
        match self.rng.below(10) {
            0 if !handles.is_empty() => {
                let h = self.rng.pick(handles).clone();
                self.var_named(&h)
            }
            1 if allow_expr => {
                let (f, arity) = *self.rng.pick(&[("ADD", 2), ("MUL", 2), ("CLAMP", 3), ("COALESCE", 2)]);
                self.func(f);
                self.open("(");
                for i in 0..arity {
                    if i > 0 {
                        self.p(",");
                    }
                    self.update_expr(target, 1);
                }
                self.close(")");
            }
            2 if target.is_some() && allow_expr => self.var_path_nonempty(target.unwrap()),
            3 if !handles.is_empty() && self.room(1) => {
                // array mixing a handle with data (and, in UPDATE, with a read of the target's own field)
                self.open("[");
                let h = self.rng.pick(handles).clone();
                self.var_named(&h);
                self.p(",");
                if let (Some(t), true) = (target, allow_expr) {
                    self.var_path_nonempty(t);
                    self.p(",");
                }
                self.data_value(true);
                self.close("]");
            }
            4 if self.room(1) => {
                self.open("{");
                self.ident("ref");
                self.p(":");
                self.param();
                self.p(",");
                self.ident("note");
                self.p(":");
                self.data_value(true);
                self.close("}");
            }
            _ => self.data_value(true),
        }
    }

    fn assignments(&mut self, names: &[&str], handles: &[String], target: Option<&str>, allow_expr: bool) {
        self.open("{");
        let n = if self.fuel <= 0 { 1 } else { self.rng.usize(names.len().min(4)) + 1 };
        let mut pool: Vec<&str> = names.to_vec();
        self.rng.shuffle(&mut pool);
        for (i, k) in pool.iter().take(n).enumerate() {
            if i > 0 {
                self.p(",");
            }
            if self.chance(1, 6) {
                self.str_raw(k);
            } else {
                self.ident(k);
            }
            self.p(":");
            self.mutation_value(handles, target, allow_expr);
        }
        if self.chance(1, 8) {
            self.p(",");
        }
        self.close("}");
    }

    fn unset_set(&mut self, names: &[&str]) {
        self.open("{");
        let n = self.rng.usize(names.len().min(3)) + 1;
        let mut pool: Vec<&str> = names.to_vec();
        self.rng.shuffle(&mut pool);
        for (i, k) in pool.iter().take(n).enumerate() {
            if i > 0 {
                self.p(",");
            }
            let bare_ok = k.chars().all(|c| c.is_ascii_alphanumeric() || c == '_');
            if !bare_ok || self.chance(1, 4) {
                self.str_raw(k);
            } else {
                self.ident(k);
            }
        }
        if self.chance(1, 8) {
            self.p(",");
        }
        self.close("}");
    }

    fn structural_edges(&mut self, handles: &[String], with_options: bool, min: usize) {
        self.open("{");
        let n = min + self.rng.usize(3);
        for _ in 0..n {
            self.open("(");
            self.symbol(SFIELDS);
            self.p(",");
            if !handles.is_empty() && self.chance(1, 2) {
                let h = self.rng.pick(handles).clone();
                self.var_named(&h);
            } else if self.chance(1, 4) {
                self.string();
            } else {
                self.param();
            }
            self.close(")");
            if with_options && self.chance(1, 3) {
                self.open("{");
                if self.chance(1, 2) {
                    self.ident("role");
                    self.p(":");
                    let r = *self.rng.pick(&["support", "challenge", "context"]);
                    self.str_raw(r);
                } else {
                    self.ident("index");
                    self.p(":");
                    let i = self.rng.usize(5).to_string();
                    self.num(&i);
                }
                self.close("}");
            }
        }
        self.close("}");
    }

    fn set_facet(&mut self, handles: &[String], target: Option<&str>, allow_expr: bool) {
        self.kw("SET FACET");
        self.symbol(FACETS);
        self.assignments(&["memory_strength", "salience", "utility", "last_metabolized_at"], handles, target, allow_expr);
    }

    const ATTRS: &'static [&'static str] = &[
        "goal", "outcome_status", "status", "summary", "display_name", "due_at", "type", "limit", "score",
    ];

    fn element_ref_direct(&mut self) {
        if self.chance(1, 3) {
            let s = *self.rng.pick(&["C-1", "A-17", "E-3", "concept:alice", ""]);
            self.str_raw(s);
        } else {
            self.param();
        }
    }

    // ------------------------------------------------------------------ KML statements
    fn create_concept(&mut self, h: &str, handles: &[String]) {
        self.kw("CREATE CONCEPT");
        self.var_named(h);
        self.open("{");
        let mut menu = vec![0, 1, 2, 3, 4, 5, 6];
        self.rng.shuffle(&mut menu);
        // TYPE is always there (required by the card), the rest is optional
        let keep = 1 + self.rng.usize(menu.len());
        let mut chosen: Vec<usize> = menu.into_iter().take(keep).collect();
        if !chosen.contains(&0) {
            chosen.push(0);
        }
        for c in chosen {
            match c {
                0 => {
                    self.kw("TYPE");
                    self.symbol(TYPES)
                }
                1 => {
                    self.kw("CLIENT KEY");
                    self.scalar_str()
                }
                2 => {
                    self.kw("NAME");
                    self.scalar_str()
                }
                3 => {
                    self.kw("SET FIELDS");
                    self.assignments(&["name", "key"], handles, None, false)
                }
                4 => {
                    self.kw("SET ATTRIBUTES");
                    self.assignments(Self::ATTRS, handles, None, false)
                }
                5 => {
                    let n = self.count(2);
                    for _ in 0..n {
                        self.set_facet(handles, None, false)
                    }
                }
                _ => {
                    self.kw("SET STRUCTURAL");
                    self.structural_edges(handles, true, 0)
                }
            }
        }
        self.close("}");
    }

    fn upsert_concept(&mut self, h: &str, handles: &[String]) {
        self.kw("UPSERT CONCEPT");
        self.var_named(h);
        self.open("{");
        let mut menu = vec![1, 2, 3, 4, 5, 6, 7, 8];
        self.rng.shuffle(&mut menu);
        let keep = self.rng.usize(menu.len() + 1);
        let mut chosen: Vec<usize> = menu.into_iter().take(keep).collect();
        let at = self.rng.usize(chosen.len() + 1);
        chosen.insert(at, 0);
        for c in chosen {
            match c {
                0 => {
                    self.kw("MATCH");
                    self.open("{");
                    let by_id = self.chance(1, 3);
                    if !by_id || self.chance(1, 2) {
                        self.ident("type");
                        self.p(":");
                        let s = *self.rng.pick(TYPES);
                        self.str_raw(s);
                        self.p(",");
                    }
                    self.ident(if by_id { "id" } else { "key" });
                    self.p(":");
                    self.scalar_str();
                    if self.chance(1, 4) {
                        self.p(",");
                        self.ident("name");
                        self.p(":");
                        self.string();
                    }
                    self.close("}");
                }
                1 => {
                    self.kw("EXPECT VERSION");
                    self.scalar_num()
                }
                2 => {
                    self.kw("SET FIELDS");
                    self.assignments(&["name"], handles, None, false)
                }
                3 => {
                    self.kw("SET ATTRIBUTES");
                    self.assignments(Self::ATTRS, handles, None, false)
                }
                4 => self.set_facet(handles, None, false),
                5 => {
                    self.kw("UNSET ATTRIBUTES");
                    self.unset_set(&["obsolete", "legacy-field", "type", "name", "by"])
                }
                6 => {
                    self.kw("UNSET FACET");
                    self.symbol(FACETS);
                    self.unset_set(&["salience", "memory_strength", "key"])
                }
                7 => {
                    self.kw("SET STRUCTURAL");
                    self.structural_edges(handles, true, 0)
                }
                _ => {
                    self.kw("UNSET STRUCTURAL");
                    self.structural_edges(handles, false, 1)
                }
            }
        }
        self.close("}");
    }

    fn create_record(&mut self, which: usize, h: &str, handles: &[String]) {
        let (kwd, fields): (&str, &[&str]) = match which {
            0 => ("CREATE EVIDENCE", &["evidence_class", "payload", "observed_at", "media_type"]),
            1 => (
                "CREATE ASSERTION",
                &["proposition", "asserted_by", "stance", "mode", "confidence", "asserted_at", "valid_time"],
            ),
            _ => ("CREATE ACTIVITY", &["activity_class", "status", "started_at", "ended_at"]),
        };
        self.kw(kwd);
        self.var_named(h);
        self.open("{");
        let mut menu = vec![0, 1, 2, 3];
        self.rng.shuffle(&mut menu);
        let keep = self.rng.usize(menu.len() + 1);
        for c in menu.into_iter().take(keep) {
            match c {
                0 => {
                    self.kw("CLIENT KEY");
                    self.scalar_str()
                }
                1 => {
                    self.kw("SET FIELDS");
                    self.assignments(fields, handles, None, false)
                }
                2 => self.set_facet(handles, None, false),
                _ => {
                    self.kw("SET STRUCTURAL");
                    self.structural_edges(handles, true, 0)
                }
            }
        }
        self.close("}");
    }

    fn endpoint(&mut self, handles: &[String], allow_literal: bool) {
        if !handles.is_empty() && self.chance(1, 3) {
            let h = self.rng.pick(handles).clone();
            self.var_named(&h);
        } else if self.take_drill() || (self.room(2) && self.chance(1, 8)) {
            // a nested statement about a statement, or an inline concept match
            if self.chance(1, 2) {
                self.open("(");
                self.endpoint(handles, false);
                self.p(",");
                self.pred_atom(false);
                self.p(",");
                self.endpoint(handles, true);
                self.close(")");
            } else {
                self.open("{");
                self.ident("type");
                self.p(":");
                let s = *self.rng.pick(TYPES);
                self.str_raw(s);
                self.p(",");
                self.ident("name");
                self.p(":");
                self.string();
                self.close("}");
            }
        } else if allow_literal && self.chance(1, 3) {
            self.literal_scalar();
        } else {
            self.param();
        }
    }

    fn ensure_proposition(&mut self, h: Option<&str>, handles: &[String]) {
        self.kw("ENSURE PROPOSITION");
        if let Some(h) = h {
            self.var_named(h);
        }
        self.open("(");
        self.endpoint(handles, false);
        self.p(",");
        self.pred_atom(false);
        self.p(",");
        self.endpoint(handles, true);
        self.close(")");
        if self.chance(1, 4) {
            self.kw("EXPECT VERSION");
            self.scalar_num();
        }
    }

    fn assert_stmt(&mut self, h: Option<&str>, handles: &[String]) {
        self.kw("ASSERT");
        if let Some(h) = h {
            self.var_named(h);
        }
        self.open("(");
        self.endpoint(handles, false);
        self.p(",");
        self.pred_atom(false);
        self.p(",");
        self.endpoint(handles, true);
        self.close(")");
        self.open("{");
        let mut members = vec!["by", "mode"];
        for m in ["stance", "confidence", "at", "valid", "evidence", "key"] {
            if self.chance(1, 3) {
                members.push(m);
            }
        }
        self.rng.shuffle(&mut members);
        for (i, m) in members.iter().enumerate() {
            if i > 0 {
                self.p(",");
            }
            if self.chance(1, 8) {
                self.str_raw(m);
            } else {
                self.ident(m);
            }
            self.p(":");
            match *m {
                "by" => {
                    if !handles.is_empty() && self.chance(1, 3) {
                        let hh = self.rng.pick(handles).clone();
                        self.var_named(&hh);
                    } else {
                        self.param()
                    }
                }
                "mode" => {
                    let s = *self.rng.pick(&["observed", "stated", "inferred", "predicted", "hypothetical", "imported"]);
                    self.str_raw(s)
                }
                "stance" => {
                    let s = *self.rng.pick(&["support", "reject", "uncertain"]);
                    self.str_raw(s)
                }
                "confidence" => {
                    let s = *self.rng.pick(&["0.95", "1", "0", "0.5"]);
                    self.num(s)
                }
                "at" => self.scalar_str(),
                "valid" => {
                    self.open("{");
                    self.ident("from");
                    self.p(":");
                    self.scalar_str();
                    if self.chance(1, 2) {
                        self.p(",");
                        self.ident("until");
                        self.p(":");
                        self.scalar_str();
                    }
                    self.close("}");
                }
                "evidence" => match self.rng.below(4) {
                    0 => {
                        self.open("[");
                        let n = self.rng.usize(3);
                        for j in 0..n {
                            if j > 0 {
                                self.p(",");
                            }
                            if !handles.is_empty() && self.chance(1, 3) {
                                let hh = self.rng.pick(handles).clone();
                                self.var_named(&hh);
                            } else if self.chance(1, 3) {
                                self.string();
                            } else {
                                self.param();
                            }
                        }
                        self.close("]");
                    }
                    1 if !handles.is_empty() => {
                        let hh = self.rng.pick(handles).clone();
                        self.var_named(&hh);
                    }
                    2 => self.string(),
                    _ => self.param(),
                },
                _ => self.scalar(),
            }
        }
        if self.chance(1, 8) {
            self.p(",");
        }
        self.close("}");
        if self.chance(1, 3) {
            self.kw("SUPERSEDING");
            self.element_ref_direct();
        }
    }

    /// Target of a selecting statement: `?t` with a WHERE block that binds it, or a direct ref.
    /// Returns the bound variable if any; the caller emits the WHERE via `sel_where`.
    fn sel_target(&mut self) -> Option<String> {
        if self.chance(1, 2) {
            let v = self.fresh_var();
            self.var_named(&v);
            Some(v)
        } else {
            self.element_ref_direct();
            None
        }
    }

    fn sel_where(&mut self, bound: &Option<String>, kind: BindKind) {
        match bound {
            Some(v) => {
                self.kw("WHERE");
                self.where_block(Flavor::Exact, v, Some(kind));
            }
            None => {
                if self.chance(1, 4) {
                    self.kw("WHERE");
                    let v = self.fresh_var();
                    self.where_block(Flavor::Exact, &v, Some(kind));
                }
            }
        }
    }

    fn update_stmt(&mut self, handles: &[String]) {
        self.kw("UPDATE");
        let bound = self.sel_target();
        if self.chance(1, 3) {
            self.kw("EXPECT VERSION");
            self.scalar_num();
        }
        let kind = *self.rng.pick(&[
            BindKind::Concept, BindKind::Concept, BindKind::ConceptKw, BindKind::Assertion, BindKind::Evidence,
            BindKind::Activity, BindKind::Proposition,
        ]);
        let concept = matches!(kind, BindKind::Concept | BindKind::ConceptKw) || bound.is_none();
        let n = self.count(3);
        let tv = bound.clone();
        let mut hs: Vec<String> = handles.to_vec();
        if let Some(v) = &tv {
            hs.push(v.clone());
        }
        for _ in 0..n {
            // structural actions and arbitrary core fields only where the target may be a Concept
            let pick = if concept { self.rng.below(7) } else { *self.rng.pick(&[1, 2, 3, 4]) };
            match pick {
                0 => {
                    self.kw("SET FIELDS");
                    self.assignments(&["name", "confidence_note"], &hs, tv.as_deref(), true)
                }
                1 => {
                    self.kw("SET ATTRIBUTES");
                    self.assignments(Self::ATTRS, &hs, tv.as_deref(), true)
                }
                2 => self.set_facet(&hs, tv.as_deref(), true),
                3 => {
                    self.kw("UNSET ATTRIBUTES");
                    self.unset_set(&["obsolete", "legacy-field", "where"])
                }
                4 => {
                    self.kw("UNSET FACET");
                    self.symbol(FACETS);
                    self.unset_set(&["salience", "utility"])
                }
                5 => {
                    self.kw("SET STRUCTURAL");
                    self.structural_edges(&hs, true, 0)
                }
                _ => {
                    self.kw("UNSET STRUCTURAL");
                    self.structural_edges(&hs, false, 1)
                }
            }
        }
        self.sel_where(&bound, kind);
        if self.chance(1, 3) {
            self.kw("LIMIT");
            self.scalar_num();
        }
    }

    fn lifecycle(&mut self, which: usize, handles: &[String]) {
        match which {
            0 => {
                self.kw("RETRACT ASSERTION");
                let b = self.sel_target();
                self.sel_where(&b, BindKind::Assertion);
                if self.chance(1, 3) {
                    self.kw("LIMIT");
                    self.scalar_num();
                }
                if self.chance(1, 3) {
                    self.kw("EXPECT STATE");
                    self.scalar_str();
                }
            }
            1 | 2 => {
                self.kw(if which == 1 { "SUPERSEDE ASSERTION" } else { "CORRECT EVIDENCE" });
                if !handles.is_empty() && self.chance(1, 4) {
                    let h = self.rng.pick(handles).clone();
                    self.var_named(&h);
                } else {
                    self.element_ref_direct();
                }
                self.kw("BY");
                if !handles.is_empty() && self.chance(1, 2) {
                    let h = self.rng.pick(handles).clone();
                    self.var_named(&h);
                } else {
                    self.element_ref_direct();
                }
                if self.chance(1, 3) {
                    self.kw("EXPECT STATE");
                    self.scalar_str();
                }
            }
            3 => {
                self.kw("TRANSITION ACTIVITY");
                if !handles.is_empty() && self.chance(1, 4) {
                    let h = self.rng.pick(handles).clone();
                    self.var_named(&h);
                } else {
                    self.element_ref_direct();
                }
                self.kw("TO");
                let s = *self.rng.pick(&["completed", "running", "failed", "cancelled"]);
                if self.chance(1, 4) {
                    self.param()
                } else {
                    self.str_raw(s)
                }
                let mut parts = vec![0, 1];
                self.rng.shuffle(&mut parts);
                for p in parts {
                    if self.chance(1, 2) {
                        continue;
                    }
                    if p == 0 {
                        self.kw("SET FIELDS");
                        self.assignments(&["ended_at", "status_note"], handles, None, false);
                    } else {
                        self.kw("SET STRUCTURAL");
                        self.structural_edges(handles, true, 0);
                    }
                }
                if self.chance(1, 3) {
                    self.kw("EXPECT STATE");
                    self.scalar_str();
                }
            }
            4 => {
                self.kw("SET RETENTION");
                let b = self.sel_target();
                self.assignments(&["retention_class", "expires_at", "legal_hold"], &[], None, false);
                let k = *self.rng.pick(&[BindKind::Concept, BindKind::Evidence, BindKind::Assertion]);
                self.sel_where(&b, k);
                if self.chance(1, 3) {
                    self.kw("LIMIT");
                    self.scalar_num();
                }
                if self.chance(1, 3) {
                    self.kw("EXPECT VERSION");
                    self.scalar_num();
                }
            }
            5 | 6 => {
                self.kw(if which == 5 { "ARCHIVE" } else { "TOMBSTONE" });
                let b = self.sel_target();
                let k = *self.rng.pick(&[
                    BindKind::Concept, BindKind::Evidence, BindKind::Assertion, BindKind::Activity, BindKind::Proposition,
                ]);
                self.sel_where(&b, k);
                if self.chance(1, 3) {
                    self.kw("LIMIT");
                    self.scalar_num();
                }
                if self.chance(1, 3) {
                    self.kw("EXPECT STATE");
                    self.scalar_str();
                }
            }
            7 => {
                self.kw("PURGE");
                let b = self.sel_target();
                let k = *self.rng.pick(&[BindKind::Concept, BindKind::Evidence, BindKind::Assertion]);
                self.sel_where(&b, k);
                if self.chance(1, 3) {
                    self.kw("LIMIT");
                    self.scalar_num();
                }
                if self.chance(1, 2) {
                    self.kw("REFERENCE POLICY");
                    let s = *self.rng.pick(&["deny_if_referenced", "tombstone_reference", "authorized_cascade"]);
                    if self.chance(1, 5) {
                        self.param()
                    } else {
                        self.str_raw(s)
                    }
                }
                self.kw("CONFIRM");
                self.str_raw("PURGE");
            }
            _ => {
                self.kw("MERGE CONCEPT");
                if self.chance(1, 2) {
                    let s = self.fresh_var();
                    let t = format!("{s}_into");
                    self.var_named(&s);
                    self.kw("INTO");
                    self.var_named(&t);
                    self.kw("WHERE");
                    self.open("{");
                    self.bind_pattern(Flavor::Exact, &s, BindKind::Concept);
                    self.bind_pattern(Flavor::Exact, &t, BindKind::ConceptKw);
                    self.close("}");
                } else {
                    self.element_ref_direct();
                    self.kw("INTO");
                    self.element_ref_direct();
                }
                if self.chance(1, 3) {
                    self.kw("EXPECT VERSION");
                    self.scalar_num();
                }
            }
        }
    }

    /// One KML statement family by index (0..=17); `handles` = names a value may reference,
    /// `own` = the handle this statement declares (if it declares one).
    pub fn kml_statement(&mut self, family: usize, own: &str, handles: &[String]) {
        match family {
            0 => self.create_concept(own, handles),
            1 => self.upsert_concept(own, handles),
            2 => {
                let h = if self.rng.bool() { Some(own) } else { None };
                self.ensure_proposition(h, handles)
            }
            3 => {
                let h = if self.rng.bool() { Some(own) } else { None };
                self.assert_stmt(h, handles)
            }
            4..=6 => self.create_record(family - 4, own, handles),
            7 => self.update_stmt(handles),
            8..=16 => self.lifecycle(family - 8, handles),
            _ => self.update_stmt(handles),
        }
    }

    pub const KML_FAMILIES: usize = 17;

    pub fn kml(&mut self) {
        if self.chance(2, 5) {
            // a plan with a handle graph (forward references allowed)
            self.kw("MUTATE");
            self.open("{");
            let n = if self.fuel <= 0 { 1 } else { 1 + self.rng.usize(5) };
            let fams: Vec<usize> = (0..n).map(|_| self.rng.usize(Self::KML_FAMILIES)).collect();
            let names: Vec<String> = (0..n).map(|i| format!("h{i}")).collect();
            // handles that are certainly declared: CREATE*/UPSERT always bind theirs
            let declared: Vec<String> = fams
                .iter()
                .zip(&names)
                .filter(|(f, _)| matches!(**f, 0 | 1 | 4 | 5 | 6))
                .map(|(_, n)| n.clone())
                .collect();
            for (f, name) in fams.iter().zip(&names) {
                self.kml_statement(*f, name, &declared);
            }
            self.close("}");
        } else {
            let f = self.rng.usize(Self::KML_FAMILIES);
            let own = self.fresh_var();
            let hs = if matches!(f, 0 | 1 | 4 | 5 | 6) && self.chance(1, 3) { vec![own.clone()] } else { vec![] };
            self.kml_statement(f, &own, &hs);
        }
    }

    // ------------------------------------------------------------------ META
    pub const META_FAMILIES: usize = 52;

    pub fn meta(&mut self) {
        let f = self.rng.usize(Self::META_FAMILIES);
        self.meta_family(f);
    }

    fn paging(&mut self) {
        if self.chance(1, 2) {
            self.kw("LIMIT");
            self.scalar_num();
        }
        if self.chance(1, 3) {
            self.kw("CURSOR");
            self.scalar_str();
        }
    }

    pub fn meta_family(&mut self, f: usize) {
        match f {
            0 => {
                self.kw("DESCRIBE PRIMER");
                if self.chance(1, 2) {
                    self.kw("MODE");
                    let s = *self.rng.pick(&["compact", "full"]);
                    if self.chance(1, 4) {
                        self.param()
                    } else {
                        self.str_raw(s)
                    }
                }
            }
            1 => self.kw("DESCRIBE PROTOCOL"),
            2 => self.kw("DESCRIBE EXECUTION CONTEXT"),
            3 => self.kw("DESCRIBE CAPABILITIES"),
            4 => self.kw("DESCRIBE PROJECTION CAPABILITY"),
            5 => {
                self.kw("DESCRIBE SPACE");
                if self.chance(1, 2) {
                    self.scalar_str()
                }
            }
            6 => {
                self.kw("DESCRIBE SCHEMA ENVIRONMENT");
                if self.chance(1, 2) {
                    self.as_of()
                }
            }
            7 => {
                self.kw("DESCRIBE SNAPSHOT");
                if self.chance(1, 2) {
                    self.as_of()
                }
            }
            8..=12 => {
                let w = ["TYPE", "PREDICATE", "FACET", "STRUCTURAL FIELD", "PACKAGE"][f - 8];
                self.kw("DESCRIBE");
                self.kw(w);
                self.scalar_str();
            }
            13 => {
                self.kw("DESCRIBE COMPATIBILITY FROM");
                self.scalar_str();
                self.kw("TO");
                self.scalar_str();
            }
            14 => {
                self.kw("DESCRIBE ERROR");
                self.scalar_str()
            }
            15 => {
                self.kw("DESCRIBE CAPSULE");
                self.scalar_str()
            }
            16 => {
                self.kw("DESCRIBE EPISTEMIC POLICY");
                if self.chance(1, 2) {
                    self.scalar_str()
                }
            }
            17 => {
                self.kw("DESCRIBE TRUST");
                if self.chance(1, 2) {
                    self.scalar_str()
                }
            }
            18 => {
                self.kw("DESCRIBE ACCESS");
                if self.chance(1, 2) {
                    self.kw("WITH");
                    self.option_block(&["operation", "resource", "purpose"]);
                }
            }
            19 => {
                self.kw("DESCRIBE TRANSACTION");
                self.scalar_str()
            }
            20 => {
                self.kw("DESCRIBE TRANSACTION BY IDEMPOTENCY KEY");
                self.scalar_str()
            }
            21..=26 => {
                let w = ["SPACES", "TYPES", "PREDICATES", "FACETS", "STRUCTURAL FIELDS", "EPISTEMIC POLICIES"][f - 21];
                self.kw("LIST");
                self.kw(w);
                self.paging();
            }
            27 => {
                self.kw("LIST SCHEMA PACKAGES");
                if self.chance(1, 2) {
                    self.kw("STATUS");
                    self.scalar_str();
                }
                self.paging();
            }
            28 => {
                self.kw("HISTORY ELEMENT");
                self.scalar_str();
                if self.chance(1, 2) {
                    self.kw("FROM SEQ");
                    self.scalar_num();
                }
                if self.chance(1, 2) {
                    self.kw("TO SEQ");
                    self.scalar_num();
                }
                self.paging();
            }
            29 => {
                self.kw("HISTORY SPACE");
                if self.chance(1, 2) {
                    self.kw("FROM SEQ");
                    self.scalar_num();
                }
                if self.chance(1, 2) {
                    self.kw("TO SEQ");
                    self.scalar_num();
                }
                self.paging();
            }
            30 => {
                self.kw("CHANGES SINCE");
                self.scalar_str();
                if self.chance(1, 2) {
                    self.kw("LIMIT");
                    self.scalar_num();
                }
            }
            31 => {
                self.kw("CHANGES AFTER SEQ");
                self.scalar_num();
                if self.chance(1, 2) {
                    self.kw("LIMIT");
                    self.scalar_num();
                }
            }
            32 => {
                self.kw("SNAPSHOT");
                if self.chance(2, 3) {
                    self.as_of()
                }
            }
            33..=37 => {
                let w = ["CAPSULE", "SCHEMA PACKAGE", "RECEIPT", "BLOB", "CHECKPOINT"][f - 33];
                self.kw("VERIFY");
                self.kw(w);
                self.scalar_str();
            }
            38..=42 => {
                let w = ["KQL", "KML", "CAPSULE", "SCHEMA PACKAGE", "IMPORT PLAN"][f - 38];
                self.kw("VALIDATE");
                self.kw(w);
                self.scalar_str();
                if self.chance(1, 2) {
                    self.kw("WITH");
                    self.option_block(&["strict", "mode", "schema", "dry_run"]);
                }
            }
            43 => {
                self.kw("PREVIEW KML");
                self.scalar_str()
            }
            44 => {
                self.kw("PREVIEW IMPORT CAPSULE");
                self.scalar_str();
                self.kw("INTO");
                self.scalar_str();
            }
            45 => {
                self.kw("EXPORT CAPSULE");
                let b = self.sel_target();
                self.kw("WHERE");
                let v = b.unwrap_or_else(|| "roots".to_string());
                self.where_block(Flavor::Exact, &v, Some(BindKind::Concept));
                if self.chance(1, 2) {
                    self.kw("WITH");
                    self.option_block(&["closure", "provenance_depth", "include_schema", "include_blobs", "proof_profile"]);
                }
                if self.chance(1, 3) {
                    self.as_of();
                }
            }
            _ => {
                let w = ["CONCEPT", "PROPOSITION", "ASSERTION", "EVIDENCE", "ACTIVITY", "COGNITION"][(f - 46) % 6];
                self.kw("SEARCH");
                self.kw(w);
                self.scalar_str();
                if self.chance(1, 3) {
                    self.kw("WITH TYPE");
                    self.scalar_str();
                }
                if self.chance(1, 3) {
                    self.kw("WITH PREDICATE");
                    self.scalar_str();
                }
                if self.chance(1, 3) {
                    self.kw("MODE");
                    let s = *self.rng.pick(&["keyword", "semantic", "hybrid"]);
                    self.str_raw(s);
                }
                if self.chance(1, 3) {
                    self.kw("THRESHOLD");
                    let s = *self.rng.pick(&["0.7", "0", "1", "0.25"]);
                    if self.chance(1, 4) {
                        self.param()
                    } else {
                        self.num(s)
                    }
                }
                if self.chance(1, 4) {
                    self.kw("AS OF SEQ");
                    self.scalar_num();
                }
                self.paging();
            }
        }
    }

    // ------------------------------------------------------------------ JSON dialect
    pub fn json(&mut self) {
        self.data_value(false);
    }
}

/// Convenience: one sentence of the chosen surface (0 KQL, 1 KML, 2 META) with ordinary depth.
pub fn sentence(rng: &mut Rng, surface: usize) -> Vec<GTok> {
    let mut g = Gen::new(rng);
    match surface {
        0 => g.kql(),
        1 => g.kml(),
        _ => g.meta(),
    }
    g.t
}

//! Shared fixtures of the v_nexus monitors.
pub mod nx1718;
pub mod nx1920;

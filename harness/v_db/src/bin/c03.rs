//! C03 - Filters follow set algebra; a bounded page is an end of the full result.
//! Differential monitor: generated filter trees over `_id` and every B-tree index of fixture F
//! (both the filter level and the range-query level, within the documented complexity budget)
//! are evaluated by the real collection and by a harness set-algebra evaluator over the model;
//! every limit and both entry points are compared with the first/last elements of the full
//! result; metamorphic equalities run on the real code alone; `search_ids` with a filter is
//! recomputed from the public index views.

use anda_db::collection::Collection;
use anda_db::query::{Filter, Query, RRFReranker, RangeQuery, Search};
use anda_db::schema::Fv;
use std::collections::{BTreeMap, BTreeSet};
use std::sync::Arc;
use v_db::audit::composite_key;
use v_db::driver::{Driver, GenCfg, Op, Step, gen_op};
use v_db::{Cfg, FDoc, IndexSet, Model, VOCAB, gen_doc};
use vcore::recstore::RecStore;
use vcore::run::block_on;
use vcore::{Rng, Run, Stats, Value, json};

const MAX: usize = Collection::MAX_SEARCH_LIMIT;

#[derive(Clone, Debug, PartialEq, Eq, PartialOrd, Ord)]
enum K {
    N(i128),
    T(String),
    B(Vec<u8>),
}

fn k_of(v: &Fv) -> Option<K> {
    match v {
        Fv::I64(x) => Some(K::N(*x as i128)),
        Fv::U64(x) => Some(K::N(*x as i128)),
        Fv::Text(s) => Some(K::T(s.clone())),
        Fv::Bytes(b) => Some(K::B(b.clone())),
        _ => None,
    }
}

const FIELDS: [&str; 8] = ["_id", "age", "score", "uname", "tags", "codes", "attrs", "grp-slot"];

fn doc_keys(id: u64, d: &FDoc, field: &str) -> Vec<K> {
    match field {
        "_id" => vec![K::N(id as i128)],
        "age" => vec![K::N(d.age as i128)],
        "score" => d.score.map(|s| K::N(s as i128)).into_iter().collect(),
        "uname" => vec![K::T(d.uname.clone())],
        "tags" => d.tags.iter().map(|t| K::T(t.clone())).collect(),
        "codes" => d.codes.iter().map(|t| K::T(t.clone())).collect(),
        "attrs" => d.attrs.keys().map(|t| K::T(t.clone())).collect(),
        _ => vec![k_of(&composite_key(&d.grp, d.slot)).unwrap()],
    }
}

/// A key the generator may use for a field: in-range values, values between stored keys, and
/// values outside the stored range.
fn gen_key(rng: &mut Rng, field: &str, m: &Model) -> Fv {
    let some_doc = if m.docs.is_empty() { None } else { m.docs.values().nth(rng.usize(m.docs.len())) };
    match field {
        "_id" => Fv::U64(match rng.below(4) {
            0 => rng.below(m.max_id() + 3),
            1 => m.max_id() + 1 + rng.below(3),
            _ => m.docs.keys().nth(rng.usize(m.docs.len().max(1))).copied().unwrap_or(0),
        }),
        "age" => Fv::U64(match (rng.below(3), some_doc) {
            (0, Some(d)) => d.age,
            _ => *rng.pick(&[0u64, 1, 17, 18, 19, 23, 24, 25, 30, 65, 255, 256, 1000, u64::MAX]),
        }),
        "score" => {
            let x = match (rng.below(3), some_doc.and_then(|d| d.score)) {
                (0, Some(s)) => s,
                _ => *rng.pick(&[i64::MIN, -51, -50, -10, -1, 0, 1, 10, 49, 50, i64::MAX]),
            };
            // a non-negative I64 key may also arrive in its generic read-back shape
            if x >= 0 && rng.chance(1, 3) { Fv::U64(x as u64) } else { Fv::I64(x) }
        }
        "uname" => Fv::Text(match (rng.below(3), some_doc) {
            (0, Some(d)) => d.uname.clone(),
            _ => format!("u{}", rng.below(40)),
        }),
        "tags" => Fv::Text(format!("t{}", rng.below(8))),
        "codes" => Fv::Text(match (rng.below(3), some_doc.and_then(|d| d.codes.first())) {
            (0, Some(c)) => c.clone(),
            _ => format!("c{}", rng.below(70)),
        }),
        "attrs" => Fv::Text(format!("a{}", rng.below(7))),
        _ => match (rng.below(4), some_doc) {
            (0, _) | (_, None) => composite_key(&format!("g{}", rng.below(3)), rng.below(40)),
            (_, Some(d)) => composite_key(&d.grp, d.slot),
        },
    }
}

fn gen_rq(rng: &mut Rng, field: &str, m: &Model, depth: usize) -> RangeQuery<Fv> {
    if depth == 0 || rng.chance(3, 5) {
        let k = gen_key(rng, field, m);
        match rng.below(8) {
            0 | 1 => RangeQuery::Eq(k),
            2 => RangeQuery::Gt(k),
            3 => RangeQuery::Ge(k),
            4 => RangeQuery::Lt(k),
            5 => RangeQuery::Le(k),
            6 => RangeQuery::Between(k, gen_key(rng, field, m)), // inverted ones included
            _ => RangeQuery::Include((0..rng.usize(5)).map(|_| if rng.chance(1, 4) { k.clone() } else { gen_key(rng, field, m) }).collect()),
        }
    } else {
        match rng.below(3) {
            0 => RangeQuery::And((0..rng.usize(4)).map(|_| Box::new(gen_rq(rng, field, m, depth - 1))).collect()),
            1 => RangeQuery::Or((0..rng.usize(4)).map(|_| Box::new(gen_rq(rng, field, m, depth - 1))).collect()),
            _ => RangeQuery::Not(Box::new(gen_rq(rng, field, m, depth - 1))),
        }
    }
}

fn gen_filter(rng: &mut Rng, m: &Model, depth: usize) -> Filter {
    if depth == 0 || rng.chance(2, 5) {
        let field = *rng.pick(&FIELDS);
        let d = if rng.chance(1, 3) { 2 } else { 0 };
        Filter::Field((field.to_string(), gen_rq(rng, field, m, d)))
    } else {
        match rng.below(3) {
            0 => Filter::And((0..1 + rng.usize(3)).map(|_| Box::new(gen_filter(rng, m, depth - 1))).collect()),
            1 => Filter::Or((0..1 + rng.usize(3)).map(|_| Box::new(gen_filter(rng, m, depth - 1))).collect()),
            _ => Filter::Not(Box::new(gen_filter(rng, m, depth - 1))),
        }
    }
}

fn key_matches(k: &K, q: &RangeQuery<Fv>) -> bool {
    let c = |v: &Fv| k_of(v);
    match q {
        RangeQuery::Eq(x) => c(x).as_ref() == Some(k),
        RangeQuery::Gt(x) => c(x).map(|x| *k > x).unwrap_or(false),
        RangeQuery::Ge(x) => c(x).map(|x| *k >= x).unwrap_or(false),
        RangeQuery::Lt(x) => c(x).map(|x| *k < x).unwrap_or(false),
        RangeQuery::Le(x) => c(x).map(|x| *k <= x).unwrap_or(false),
        RangeQuery::Between(a, b) => match (c(a), c(b)) {
            (Some(a), Some(b)) => a <= b && *k >= a && *k <= b,
            _ => false,
        },
        RangeQuery::Include(v) => v.iter().any(|x| c(x).as_ref() == Some(k)),
        RangeQuery::And(v) => !v.is_empty() && v.iter().all(|q| key_matches(k, q)),
        RangeQuery::Or(v) => v.iter().any(|q| key_matches(k, q)),
        RangeQuery::Not(q) => !key_matches(k, q),
    }
}

/// Set-algebra reading: a field predicate matches the documents owning at least one indexed key
/// that satisfies the range query; And = intersection, Or = union, Not = complement within the
/// live documents.
fn eval(m: &Model, f: &Filter) -> BTreeSet<u64> {
    match f {
        Filter::Field((field, q)) => m
            .docs
            .iter()
            .filter(|(id, d)| doc_keys(**id, d, field).iter().any(|k| key_matches(k, q)))
            .map(|(id, _)| *id)
            .collect(),
        Filter::And(v) => {
            let mut it = v.iter();
            let mut s = it.next().map(|f| eval(m, f)).unwrap_or_default();
            for f in it {
                let o = eval(m, f);
                s.retain(|x| o.contains(x));
            }
            s
        }
        Filter::Or(v) => v.iter().flat_map(|f| eval(m, f)).collect(),
        Filter::Not(f) => {
            let o = eval(m, f);
            m.docs.keys().filter(|x| !o.contains(x)).copied().collect()
        }
    }
}

fn shape_rq(q: &RangeQuery<Fv>) -> String {
    match q {
        RangeQuery::Eq(_) => "Eq".into(),
        RangeQuery::Gt(_) => "Gt".into(),
        RangeQuery::Ge(_) => "Ge".into(),
        RangeQuery::Lt(_) => "Lt".into(),
        RangeQuery::Le(_) => "Le".into(),
        RangeQuery::Between(..) => "Btw".into(),
        RangeQuery::Include(v) => format!("Inc{}", v.len().min(3)),
        RangeQuery::And(v) => format!("and({})", v.iter().map(|q| shape_rq(q)).collect::<Vec<_>>().join(",")),
        RangeQuery::Or(v) => format!("or({})", v.iter().map(|q| shape_rq(q)).collect::<Vec<_>>().join(",")),
        RangeQuery::Not(q) => format!("not({})", shape_rq(q)),
    }
}
fn shape(f: &Filter) -> String {
    match f {
        Filter::Field((n, q)) => format!("{n}:{}", shape_rq(q)),
        Filter::And(v) => format!("AND({})", v.iter().map(|q| shape(q)).collect::<Vec<_>>().join(",")),
        Filter::Or(v) => format!("OR({})", v.iter().map(|q| shape(q)).collect::<Vec<_>>().join(",")),
        Filter::Not(q) => format!("NOT({})", shape(q)),
    }
}
fn top_kind(f: &Filter) -> &'static str {
    match f {
        Filter::Field((n, _)) if n == "_id" => "top:_id",
        Filter::Field(_) => "top:index_field",
        Filter::And(_) => "top:And",
        Filter::Or(_) => "top:Or",
        Filter::Not(_) => "top:Not",
    }
}

fn expect_page(full: &[u64], limit: Option<usize>, last: bool) -> Vec<u64> {
    let l = match limit {
        Some(0) => return vec![],
        None => MAX,
        Some(l) => l.min(MAX),
    };
    if full.len() <= l {
        full.to_vec()
    } else if last {
        full[full.len() - l..].to_vec()
    } else {
        full[..l].to_vec()
    }
}

async fn check_filter(c: &Collection, m: &Model, f: &Filter, rng: &mut Rng, st: &mut Stats, ctx: &dyn Fn() -> Value, all_limits: bool) -> bool {
    let full: Vec<u64> = eval(m, f).into_iter().collect();
    let fs = format!("{f:?}");
    let fail = |st: &mut Stats, sig: String, d: Value| {
        st.violation(sig, json!({"filter": fs, "detail": d, "context": ctx()}));
    };
    st.eval();
    st.count("oracle_query_all_ids");
    st.count(top_kind(f));
    st.set("filter_shapes", vcore::fnv_str(&shape(f)));
    match c.query_all_ids(f.clone()).await {
        Ok(got) => {
            if got != full {
                fail(st, format!("C03/query_all_ids/{}", top_kind(f)), json!({"got": got, "expected": full}));
                return false;
            }
        }
        Err(e) => {
            fail(st, format!("C03/query_all_ids_error/{}", top_kind(f)), json!(format!("{e:?}")));
            return false;
        }
    }
    if !full.is_empty() {
        st.count("filters_with_matches");
    }
    let n = full.len();
    let mut limits: Vec<Option<usize>> = vec![None, Some(0), Some(1), Some(MAX), Some(MAX + 1)];
    if all_limits {
        limits.extend((2..=n + 1).map(Some));
    } else {
        limits.push(Some(2));
        limits.push(Some(n.max(1)));
        limits.push(Some(n + 1));
        if n > 2 {
            limits.push(Some(1 + rng.usize(n - 1)));
        }
    }
    for l in limits {
        for last in [false, true] {
            let exp = expect_page(&full, l, last);
            let got = if last { c.query_last_ids(f.clone(), l).await } else { c.query_ids(f.clone(), l).await };
            st.count(if last { "oracle_query_last_ids" } else { "oracle_query_ids" });
            if l.map(|x| x > 0 && x < n).unwrap_or(false) {
                st.count("oracle_truncating_pages");
            }
            match got {
                Ok(got) => {
                    if got != exp {
                        fail(st, format!("C03/{}/{}", if last { "query_last_ids" } else { "query_ids" }, top_kind(f)),
                             json!({"limit": l, "got": got, "expected": exp, "full_result": full}));
                        return false;
                    }
                }
                Err(e) => {
                    fail(st, format!("C03/{}_error", if last { "query_last_ids" } else { "query_ids" }), json!({"limit": l, "error": format!("{e:?}")}));
                    return false;
                }
            }
        }
    }
    true
}

async fn metamorphic(c: &Collection, m: &Model, rng: &mut Rng, st: &mut Stats, ctx: &dyn Fn() -> Value) {
    let field = *rng.pick(&FIELDS[..7]);
    let a = gen_key(rng, field, m);
    let b = gen_key(rng, field, m);
    let leaf = |q: RangeQuery<Fv>| Filter::Field((field.to_string(), q));
    let f1 = gen_filter(rng, m, 2);
    let f2 = gen_filter(rng, m, 2);
    let bx = |f: &Filter| Box::new(f.clone());
    let rq1 = gen_rq(rng, field, m, 1);
    let rq2 = gen_rq(rng, field, m, 1);
    let pairs: Vec<(&str, Filter, Filter)> = vec![
        ("between_vs_and_ge_le", leaf(RangeQuery::Between(a.clone(), b.clone())),
            leaf(RangeQuery::And(vec![Box::new(RangeQuery::Ge(a.clone())), Box::new(RangeQuery::Le(b.clone()))]))),
        ("double_negation", Filter::Not(Box::new(Filter::Not(bx(&f1)))), f1.clone()),
        ("and_commutes", Filter::And(vec![bx(&f1), bx(&f2)]), Filter::And(vec![bx(&f2), bx(&f1)])),
        ("or_commutes", Filter::Or(vec![bx(&f1), bx(&f2)]), Filter::Or(vec![bx(&f2), bx(&f1)])),
        ("de_morgan", Filter::Not(Box::new(Filter::And(vec![bx(&f1), bx(&f2)]))),
            Filter::Or(vec![Box::new(Filter::Not(bx(&f1))), Box::new(Filter::Not(bx(&f2)))])),
        ("or_at_filter_vs_range_level", Filter::Or(vec![Box::new(leaf(rq1.clone())), Box::new(leaf(rq2.clone()))]),
            leaf(RangeQuery::Or(vec![Box::new(rq1.clone()), Box::new(rq2.clone())]))),
    ];
    for (name, x, y) in pairs {
        let l = *rng.pick(&[None, Some(1), Some(2), Some(3), Some(5)]);
        for last in [false, true] {
            let (rx, ry) = if last {
                (c.query_last_ids(x.clone(), l).await, c.query_last_ids(y.clone(), l).await)
            } else {
                (c.query_ids(x.clone(), l).await, c.query_ids(y.clone(), l).await)
            };
            st.count("oracle_metamorphic_pairs");
            match (rx, ry) {
                (Ok(a), Ok(b)) => {
                    if a != b {
                        st.violation(format!("C03/metamorphic/{name}"), json!({"left": format!("{x:?}"), "right": format!("{y:?}"), "limit": l, "last": last,
                            "left_result": a, "right_result": b, "context": ctx()}));
                        return;
                    }
                }
                (a, b) => {
                    st.violation(format!("C03/metamorphic_error/{name}"), json!({"left": format!("{x:?}"), "right": format!("{y:?}"),
                        "left_result": format!("{a:?}"), "right_result": format!("{b:?}"), "context": ctx()}));
                    return;
                }
            }
        }
    }
}

/// search_ids{search, filter, limit} == relevance-ordered candidates (recomputed from the index
/// views with the documented top_k) restricted to the model's match set, cut to limit.
async fn check_search(c: &Collection, m: &Model, rng: &mut Rng, st: &mut Stats, ctx: &dyn Fn() -> Value) {
    let f = gen_filter(rng, m, 2);
    let matches = eval(m, &f);
    let limit = *rng.pick(&[None, Some(0usize), Some(1), Some(2), Some(3), Some(10), Some(MAX + 1)]);
    let eff = limit.unwrap_or(10).min(MAX);
    let top_k = (eff * 10).min(4096);
    let text = if rng.chance(2, 3) { Some(format!("{} {}", rng.pick(&VOCAB), rng.pick(&VOCAB))) } else { None };
    let vector: Option<Vec<f32>> = if text.is_none() || rng.bool() { Some(v_db::gen_vec(rng).iter().map(|x| x.to_f32()).collect()) } else { None };
    let mut lists: Vec<Vec<u64>> = vec![];
    if let Some(t) = &text {
        lists.push(c.get_bm25_index(&["body"]).unwrap().search(t, top_k, None).into_iter().map(|r| r.0).collect());
    }
    if let Some(v) = &vector {
        lists.push(c.get_hnsw_index("embedding").unwrap().search(v, top_k).into_iter().map(|r| r.0).collect());
    }
    let mut exp: Vec<u64> = vec![];
    if eff > 0 {
        let mut seen = BTreeSet::new();
        for (id, _) in RRFReranker::default().rerank(&lists) {
            if seen.insert(id) && matches.contains(&id) {
                exp.push(id);
            }
        }
        exp.truncate(eff);
    }
    let q = Query { search: Some(Search { text: text.clone(), vector: vector.clone(), ..Default::default() }), filter: Some(f.clone()), limit };
    st.count("oracle_search_ids_with_filter");
    if !exp.is_empty() {
        st.count("search_ids_nonempty_expectations");
    }
    match c.search_ids(q).await {
        Ok(got) => {
            if got != exp {
                st.violation("C03/search_ids_with_filter", json!({"filter": format!("{f:?}"), "text": text, "vector": vector, "limit": limit,
                    "got": got, "expected": exp, "match_set": matches, "candidate_lists": lists, "context": ctx()}));
            }
        }
        Err(e) => st.violation("C03/search_ids_error", json!({"filter": format!("{f:?}"), "error": format!("{e:?}"), "context": ctx()})),
    }
    // filter-only search: the smallest `limit` ids of the match set
    let q = Query { search: None, filter: Some(f.clone()), limit };
    let full: Vec<u64> = matches.iter().copied().collect();
    let exp: Vec<u64> = if eff == 0 { vec![] } else { full.iter().take(eff).copied().collect() };
    st.count("oracle_search_ids_filter_only");
    match c.search_ids(q).await {
        Ok(got) => {
            if got != exp {
                st.violation(format!("C03/search_ids_filter_only/{}", top_kind(&f)), json!({"filter": format!("{f:?}"), "limit": limit, "got": got, "expected": exp, "full_result": full, "context": ctx()}));
            }
        }
        Err(e) => st.violation("C03/search_ids_filter_only_error", json!({"filter": format!("{f:?}"), "error": format!("{e:?}"), "context": ctx()})),
    }
}

async fn refusals(c: &Collection, st: &mut Stats) {
    // over the documented budget: refused, never evaluated
    let mut deep = Filter::Field(("age".into(), RangeQuery::Eq(Fv::U64(1))));
    for _ in 0..70 {
        deep = Filter::Not(Box::new(deep));
    }
    let wide = Filter::Field(("age".into(), RangeQuery::Include((0..5000).map(Fv::U64).collect())));
    for (name, f) in [("too_deep", deep), ("include_too_wide", wide)] {
        st.count("oracle_budget_refusals");
        if let Ok(r) = c.query_ids(f.clone(), Some(3)).await {
            st.violation(format!("C03/over_budget_filter_accepted/{name}"), json!({"result_len": r.len()}));
        }
        if let Ok(r) = c.query_all_ids(f).await {
            st.violation(format!("C03/over_budget_filter_accepted_all/{name}"), json!({"result_len": r.len()}));
        }
    }
    // a key of the wrong type is an error, not an empty result
    for (name, f) in [
        ("text_key_on_u64_index", Filter::Field(("age".into(), RangeQuery::Eq(Fv::Text("x".into()))))),
        ("u64_key_on_text_index", Filter::Field(("uname".into(), RangeQuery::Ge(Fv::U64(1))))),
        ("unknown_index", Filter::Field(("nope".into(), RangeQuery::Eq(Fv::U64(1))))),
    ] {
        st.count("oracle_type_mismatch_refusals");
        if let Ok(r) = c.query_all_ids(f).await {
            st.violation(format!("C03/mistyped_filter_accepted/{name}"), json!({"result": r}));
        }
    }
}

fn case(case: u64, rng: &mut Rng, st: &mut Stats, n_filters: usize, big: bool) {
    let cfg = Cfg::random(rng);
    let store = RecStore::new();
    store.set_record_reads(false);
    block_on(async {
        let mut d = match Driver::start(Arc::new(store.clone()), cfg, IndexSet::ALL).await {
            Ok(d) => d,
            Err(e) => {
                st.violation("C03/setup_failed", json!(format!("{e:?}")));
                return;
            }
        };
        // population: ids made non-contiguous by interleaved removes; values independent of id
        let n_ops = if big { 0 } else { rng.usize(90) };
        let g = GenCfg { contention: 40, allow_reopen: false, allow_index_change: false, allow_maintenance: false, rejects: false };
        for _ in 0..n_ops {
            let op = gen_op(rng, &d.model, d.set, &g);
            if let Step::Wrong(sig, det) = d.step(&op, st).await {
                st.violation(format!("C03/populate/{sig}"), json!({"detail": det, "context": d.ctx()}));
                return;
            }
        }
        if big {
            // one collection with more matches than MAX_SEARCH_LIMIT so that the clamp is exercised
            for i in 0..(MAX as u64 + 150) {
                let mut doc = gen_doc(rng, 1_000_000);
                doc.uname = format!("big{i}");
                doc.codes = vec![];
                doc.slot = i;
                if let Step::Wrong(sig, det) = d.step(&Op::Add(doc), st).await {
                    st.violation(format!("C03/populate/{sig}"), json!({"detail": det}));
                    return;
                }
                if i % 7 == 3 {
                    let _ = d.step(&Op::Remove(i / 2 + 1), st).await;
                }
            }
            st.count("big_collections");
        }
        let hist = if big { vec!["<1150 generated adds with interleaved removes>".to_string()] } else { d.history.clone() };
        let model = d.model.clone();
        let summary: BTreeMap<u64, String> = model.docs.iter().take(80).map(|(id, x)| (*id, format!("age={} score={:?} uname={} tags={:?} codes={:?} attrs={:?} grp={} slot={}", x.age, x.score, x.uname, x.tags, x.codes, x.attrs.keys().collect::<Vec<_>>(), x.grp, x.slot))).collect();
        let ctx = move || json!({"case": case, "cfg": format!("{cfg:?}"), "documents": summary, "history_len": hist.len()});
        st.set("collections", vcore::fnv_str(&format!("{:?}", model.docs)));
        st.max("max_documents", model.docs.len() as u64);
        let mut nontrivial = 0;
        for i in 0..n_filters {
            let f = gen_filter(rng, &model, 3);
            let before = st.get("filters_with_matches");
            if !check_filter(&d.coll, &model, &f, rng, st, &ctx, !big && i % 5 == 0).await {
                return;
            }
            if st.get("filters_with_matches") > before {
                nontrivial += 1;
                st.distinct(vcore::fnv_str(&format!("{}|{}", shape(&f), model.docs.len())) ^ case.rotate_left(17));
            }
        }
        let _ = nontrivial;
        if big {
            // shapes that certainly match more than MAX documents
            for f in [
                Filter::Field(("age".into(), RangeQuery::Ge(Fv::U64(0)))),
                Filter::Field(("_id".into(), RangeQuery::Ge(Fv::U64(0)))),
                Filter::Not(Box::new(Filter::Field(("uname".into(), RangeQuery::Eq(Fv::Text("nobody".into())))))),
                Filter::Or(vec![Box::new(Filter::Field(("age".into(), RangeQuery::Le(Fv::U64(30))))), Box::new(Filter::Field(("age".into(), RangeQuery::Gt(Fv::U64(30)))))]),
            ] {
                st.count("oracle_clamped_queries");
                if !check_filter(&d.coll, &model, &f, rng, st, &ctx, false).await {
                    return;
                }
            }
        }
        for _ in 0..(n_filters / 6).max(2) {
            metamorphic(&d.coll, &model, rng, st, &ctx).await;
            check_search(&d.coll, &model, rng, st, &ctx).await;
        }
        refusals(&d.coll, st).await;
        st.sample(|| json!({"documents": model.docs.len(), "example_filter": format!("{:?}", gen_filter(&mut rng.fork(), &model, 3))}));
    });
}

fn main() {
    let mut run = Run::from_args(
        "C03",
        "exploration",
        "one evaluation = one generated filter tree evaluated by query_all_ids and by query_ids/query_last_ids for a set of \
         limits, each compared with the set-algebra evaluator over the model; non-trivial = the filter matches at least one \
         document; distinct by (filter shape, collection size, case)",
    );
    run.assume("a field predicate matches a document iff one of its indexed keys satisfies the range query (documented index derivation: Null skipped, arrays and map keys expanded); range-level Not is therefore a statement about keys, filter-level Not about documents");
    run.assume("empty And/Or are generated at the range level only (pinned semantics: empty And = empty, as the index crate documents); filter-level And/Or always have at least one operand");
    run.assume("search_ids expectations are recomputed from the public index views with the documented top_k = min(limit*10, 4096) and the public RRFReranker");
    let t = run.tier;
    run.parallel("collections", t.pick(600, 60000), 0.9, |c, rng, st| case(c, rng, st, t.pick(30, 50), false));
    run.parallel("big", t.pick(2, 16), 0.9, |c, rng, st| case(c, rng, st, t.pick(20, 60), true));
    run.floor("oracle_query_all_ids", 5000);
    run.floor("oracle_truncating_pages", 2000);
    run.floor("oracle_metamorphic_pairs", 1000);
    run.floor("oracle_search_ids_with_filter", 500);
    run.floor("search_ids_nonempty_expectations", 50);
    run.floor("oracle_clamped_queries", 4);
    run.floor("oracle_budget_refusals", 10);
    for k in ["top:_id", "top:index_field", "top:And", "top:Or", "top:Not"] {
        run.floor(k, 200);
    }
    run.finish();
}

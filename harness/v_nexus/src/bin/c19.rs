//! C19 - Unreadable elements are invisible; only the control plane changes authority.
//!
//! Monitors (DESIGN.md C19):
//!  * relational two-run non-interference: two Nexus instances S1, S2 built by the same script
//!    with the SAME number of commits (S1 is padded with updates of an element hidden in both, so
//!    every Space sequence / tx id / snapshot coordinate is compared exactly) that differ in ONE of
//!    two things per configuration: (mode hidden_elements) the content of elements p certainly may
//!    not read and additional such elements appended at the end - hidden by `secret`, by the label
//!    one step above p's ceiling, by an unknown label, or by no label under a `public` ceiling; or
//!    (mode masked_fields) attributes / facets / stance / confidence of READABLE elements where
//!    every authority of p masks that field. Every query of a battery gives p byte-identical
//!    responses on S1 and S2 (wall-clock instants and digests over them masked; established by
//!    building S1 twice); the owner must see a difference (non-trivial);
//!    p's authority comes from ONE source or is COMBINED from several independent ones (direct
//!    grant, group grant, policy allow, delegation, in every pairing): different kinds by
//!    different sources (masked on one kind, in full on another; each with its own ceiling - an
//!    element is then hidden one step above the ceiling of the source over ITS kind), two masks
//!    over the same kinds (only what both hide varies), two ceilings, an unbounded source that
//!    lapsed long ago, an unbounded source that confers search / history / export but not `read`,
//!    a label that only a deny statement (naming p, or a group of p) takes away, a kind no source
//!    reaches (hidden whatever its label). Masked members that vary: attributes, facets, name, key
//!    of Concepts, stance, confidence, mode of Assertions - each only for a kind where EVERY source
//!    that reaches it masks the member; the battery constrains the indexed ones in element
//!    patterns (bare, COUNT, NOT, OPTIONAL, UNION, paged, EXPORT);
//!    REFERENCE members vary the same way (same ids in S1 and S2, another target where every
//!    source over the kind masks the member): subject / object of Propositions (shape "masked
//!    propositions beside unmasked concepts": p reads both endpoints, only not that this
//!    proposition connects them), what an Assertion is about / by / cites, what an Evidence record
//!    derives from; battery families `masked_tuple` (tuple patterns with a bound subject / bound
//!    object / both variables / a variable predicate, joined with element patterns, hop-quantified
//!    and alternated paths, NOT / OPTIONAL / UNION / COUNT, ORDER BY + LIMIT, paging, AS OF,
//!    EXPORT by tuple and with a referential closure), `belief_tuple` (BELIEF by tuple, BELIEF
//!    SLOT; also of a slot that holds one more hidden proposition in the bigger instance) and
//!    `masked_link` (assertions by proposition / actor, citations and sources read, counted and
//!    exported with a provenance closure). The predicate of a Proposition never varies: it is the
//!    Schema symbol the element is typed by, which stays selectable under a mask like `type`;
//!    plus, per store: `SEARCH .. LIMIT k` is a prefix of `SEARCH .. LIMIT 100` ("not paged over"),
//!    walking `SEARCH .. LIMIT k` (k = 1, 2, 3) by `next_cursor` to the end gives exactly the hits
//!    of `SEARCH .. LIMIT 100` (the pages after the first; where the bigger instance has a hidden
//!    crowd, four visible hits sit behind six unreadable ones, and the same walks are compared
//!    across S1 / S2),
//!    and a command family whose permission p does not hold (search / read_history / export /
//!    project) is refused - also a plain FIND whose request binds it to the past by
//!    `read.snapshot_token`;
//!    the JOURNAL BLOCK closes every base script: transactions whose changes are all visible to p,
//!    mixed and all hidden, committed under an idempotency key (stated for the request / for the
//!    operation) and without one, single- and multi-change, a keyed CREATE classified by the next
//!    commit, two transactions under one key; every hidden target is ANOTHER hidden element in S2.
//!    Battery family `journal` asks about them through EVERY entry point that answers from the
//!    transaction journal, the version log or the change feed (Spec 68; meta/history.rs,
//!    describe.rs, kql bind_read): DESCRIBE TRANSACTION by id and BY IDEMPOTENCY KEY, HISTORY SPACE /
//!    ELEMENT (exact sequence, range, LIMIT, CURSOR, paged to the end; of the hidden elements too),
//!    CHANGES AFTER SEQ / CHANGES SINCE walked by cursor, SNAPSHOT / DESCRIBE SNAPSHOT / DESCRIBE
//!    SCHEMA ENVIRONMENT AS OF TX | SEQ | TIME, FIND / EXPORT AS OF TX | SEQ | TIME, FIND under a
//!    snapshot token. Besides the two-run oracle, per store: every change record p is shown is one
//!    the owner is shown under the same transaction id (complete answers), none is a change of an
//!    element p may not read, and the chronology of such an element is empty;
//!  * authority timeline: after a revocation / suspension / expiry / explicit deny, p's next
//!    request equals that of a fresh principal which only ever held what p still holds, and a
//!    principal holding nothing is refused every FIND/SEARCH/HISTORY/CHANGES/EXPORT/PREVIEW;
//!    one of two sources removed: p's next request equals that of a fresh principal holding the
//!    other source only;
//!    p again through a session that NAMES its delegation chain (`AuthContext::with_delegation_chain`,
//!    one- and two-link chains): after the last link, an ancestor link or the delegator's grant is
//!    revoked (or p is suspended / revoked / denied) its next request is refused, or answered
//!    exactly as a principal that holds nothing is;
//!    delegation: every Delegation record states its own bounds, drawn independently of what it
//!    descends from (not stated / restated / narrower / WIDER, per bound: classification ceiling as
//!    constraint and as scope list, field mask, max_results, kinds, actions, influence-authority
//!    ceiling; chains of 1-3 links; also "only an earlier link states the bound"). Against every
//!    principal up the chain: whatever is denied to it now is denied to the delegate now, the
//!    delegate sees no element id, no member of an element and no more rows than it does, and
//!    raises no element's influence authority (host API) where it is refused; the delegate's
//!    chain-naming session is held to the same oracles, and once the delegate's own (last)
//!    Delegation is revoked both of its sessions are refused every read of the Space's content;
//!  * the standing of a delegator (section `standing`): a delegator that is a co-owner (listed in
//!    `owners`), the `owner_principal`, a grantee, a member of a granted group, allowed by a Policy
//!    statement, or itself a delegate (under a co-owner / a grantee) delegates to P, which
//!    re-delegates to SUB in every other case; then its standing changes, event after event:
//!    suspended, reactivated, revoked, reactivated, the standing taken away (removed from `owners`,
//!    `owner_principal` reassigned, Grant revoked, group left, statement withdrawn, its own
//!    Delegation revoked) and given back, its upstream suspended, its Grant's `valid_until` passing.
//!    After every event the principals DOWNSTREAM ask first (plain and chain-naming sessions): while
//!    the delegator holds nothing, it answers like a principal that never held anything and every
//!    principal downstream like a fresh one holding only what it holds beside the Delegation;
//!    whatever is refused to the delegator is never answered to them;
//!  * no self-escalation: no KML/KQL/META command of any session changes a gov_* collection
//!    (audit may gain rows), a Space's governance columns or an existing element's governance
//!    block; no session without write authority gets a mutation executed; a writer whose ceiling is
//!    `internal` changes no element classified `secret` (per-element authorization of targets).
//!
//! Known findings (A2, listed in known_findings.json): SEARCH scores / order of visible hits
//! depend on unreadable documents (global BM25 statistics), SEARCH matches on masked fields.

use anda_cognitive_nexus::{
    CognitiveNexus, ElementId,
    governance::{
        AuthContext, SYSTEM_PRINCIPAL,
        rows::{
            ActorBindingRow, ApprovalRow, AuthorityConditions, AuthorityConstraints, AuthorityScope,
            DelegationRow, GovernanceAuditRow, GovernancePolicyRow, GrantRow, PolicyStatement,
            PrincipalGroupRow, PrincipalRow, principal_class, status,
        },
        store::{DelegationDraft, GrantDraft, GroupDraft, PolicyDraft, PrincipalDraft},
    },
    nexus::{DEFAULT_SPACE, Session},
};
use serde_json::{Map, Value, json};
use std::collections::{BTreeMap, BTreeSet};
use v_nexus::nx1920::*;
use vcore::{Rng, Run, Stats};

// ---------------------------------------------------------------------------------------------
// the creation script: the same list of steps builds S1, S1' and S2

/// A parameter of a scripted command.
#[derive(Clone, Debug)]
enum PVal {
    Lit(Value),
    /// `{"id": <id bound to this symbol>}`
    Ref(String),
    /// the id string itself
    Id(String),
    /// content of a hidden element: S1 and S2 take different columns of `Script::hidden_vals`
    Hidden(usize),
    /// an attribute / facet value of a VISIBLE element: differs between S1 and S2 only when every
    /// authority of p masks attributes / facets (field mask), else column 0 in both
    MaskedAttr(usize),
    MaskedFacet(usize),
    /// the stance / confidence of a VISIBLE assertion: differs only when that field is masked
    MaskedStance(usize),
    MaskedConfidence(usize),
    /// the mode of a VISIBLE assertion, the name / key of a VISIBLE person: differ only when every
    /// authority of p that reaches the kind masks that member
    MaskedMode(usize),
    MaskedName(usize),
    MaskedKey(usize),
    /// a REFERENCE member of a visible element - subject / object of a proposition (never its
    /// predicate: the symbol an element is typed by stays selectable under a mask), the
    /// proposition / actor / cited evidence of an assertion, the source of an evidence record -
    /// as `{"id": ..}`: symbol `s2` in S2 only where every authority of p that reaches the kind
    /// masks the view member `tag`, symbol `s1` everywhere else
    MaskedRef { tag: &'static str, s1: String, s2: String },
    /// the id of the k-th transaction AFTER the common part of the script (in S2 a commit of the
    /// hidden tail, in S1 one of the padding commits on a hidden element)
    TailTx(u64),
    /// the Space sequence right after step i of the script (every step is one commit)
    SeqOfStep(usize),
    /// the Space sequence right before step i of the script (`CHANGES AFTER SEQ` starts there)
    SeqBeforeStep(usize),
    /// the id of the transaction that step i of the script committed
    TxOfStep(usize),
    /// the id string of an element p may not read: another element in S2 (mode hidden_elements),
    /// so that the owner sees two different journal rows under one transaction id / idempotency key
    HiddenId { s1: String, s2: String },
}

#[derive(Clone, Debug)]
enum Step {
    /// run as the owner; `binds`: (handle in the response, symbol)
    Kml { cmd: String, params: Vec<(String, PVal)>, binds: Vec<(String, String)> },
    /// host classify API, as the owner
    Classify { sym: String, label: &'static str },
    /// like `Kml`, committed under an idempotency key (stated for the whole request, or - `at_operation` -
    /// for the operation)
    Keyed { key: String, at_operation: bool, cmd: String, params: Vec<(String, PVal)>, binds: Vec<(String, String)> },
}

/// One transaction of the journal block (`journal_block`): what the history-read battery asks about
/// through every entry point that answers from the journal, the version log or the change feed.
#[derive(Clone, Debug)]
struct JournalTx {
    /// index of its step in `Script::steps` (one step = one commit)
    step: usize,
    /// the idempotency key it committed under
    key: Option<String>,
    /// which of its changes p can possibly read: "visible" (all), "mixed" (some), "hidden" (none)
    class: &'static str,
    tag: &'static str,
}

#[derive(Clone, Debug, Default)]
struct Script {
    steps: Vec<Step>,
    /// steps only the "bigger" variant runs, appended at the very end (hidden elements only)
    tail: Vec<Step>,
    /// [variant][i]
    hidden_vals: [Vec<Value>; 2],
    /// symbols of elements p certainly may not read (explicitly classified above every ceiling)
    hidden: BTreeSet<String>,
    visible: Vec<String>,
    /// symbols by kind, for query generation
    persons: Vec<String>,
    props: Vec<String>,
    assertions: Vec<String>,
    evidence: Vec<String>,
    /// (index into hidden_vals, symbol) of the nickname attribute of VISIBLE persons
    masked_nicks: Vec<(usize, String)>,
    /// index into hidden_vals of the name / key of VISIBLE persons (column 0 = the value in S1)
    masked_names: Vec<usize>,
    masked_keys: Vec<usize>,
    /// id the first element of the tail gets in the bigger instance (it exists there only)
    first_tail_concept: String,
    /// names of the visible persons
    visible_names: Vec<String>,
    /// (step index, kind) of the creation of hidden persons / evidence: right after that step the
    /// element exists and is not yet classified
    hidden_creations: Vec<(usize, &'static str)>,
    /// a word of a visible person's name that a crowd of hidden tail elements repeats (they
    /// outrank the visible match in a keyword search)
    crowd_word: Option<String>,
    /// (subject, predicate) of tail propositions whose subject is a base-script person: a slot
    /// that holds one more (hidden) proposition in the bigger instance
    tail_slots: Vec<(String, String)>,
    /// (step index, symbol, subject, predicate, object) of every base-script proposition
    prop_tuples: Vec<(usize, String, String, String, String)>,
    /// propositions whose tuple has another value in S2 under a mask that hides the member
    masked_tuples: Vec<MaskedTuple>,
    /// assertions (and one evidence record) appended to the base script whose reference members
    /// have another target in S2 under a mask that hides the member
    late: Vec<Late>,
    /// the transactions of the journal block, in commit order (the last steps of the base script)
    journal: Vec<JournalTx>,
    /// symbol of the visible person the journal block updates
    journal_visible: String,
    /// symbol of the hidden Concept the journal block creates under a key
    vault: String,
}

/// A proposition with the same id in S1 and S2 whose tuple differs where p's mask hides the member.
#[derive(Clone, Debug)]
struct MaskedTuple {
    sym: String,
    /// (subject, predicate, object) in S1 / in S2 when subject and object are both masked
    s1: (String, String, String),
    s2: (String, String, String),
}

/// An element created after the propositions whose references differ under a mask.
#[derive(Clone, Debug)]
struct Late {
    sym: String,
    /// S1 targets: proposition, actor, cited evidence (assertions) / source (the evidence record)
    prop: Option<String>,
    actor: Option<String>,
    evidence: Option<String>,
}

struct World {
    nx: CognitiveNexus,
    sym: BTreeMap<String, String>,
    /// whether Hidden values follow the variant in this instance (mode "hidden elements")
    vary_hidden: bool,
    /// whether MaskedAttr / MaskedFacet values follow the variant in this instance (mode "masked
    /// fields", and only for fields that every authority of p masks)
    vary_attrs: bool,
    vary_facets: bool,
    vary_stance: bool,
    vary_confidence: bool,
    vary_mode: bool,
    vary_name: bool,
    vary_key: bool,
    /// reference members (view keys) that follow the variant in this instance: `subject`,
    /// `object` of propositions, `proposition_id`, `asserted_by`, `evidence_refs`
    /// of assertions, `source_refs` of evidence - each only where every authority of p that
    /// reaches the kind masks it
    vary_links: BTreeSet<&'static str>,
    /// Space sequence after the common part of the script
    base_seq: u64,
    /// Space sequence before the first step of the script
    start_seq: u64,
    /// how the hidden elements are hidden in this instance
    hidden_as: HiddenAs,
}

/// What S1 and S2 differ in. One kind of difference per configuration, so that an alarm names
/// its channel: either elements p may not read at all, or masked fields of elements p may read.
#[derive(Clone, Copy, Debug, PartialEq, Eq)]
enum Mode {
    HiddenElements,
    MaskedFields,
}

impl Mode {
    fn tag(self) -> &'static str {
        match self {
            Mode::HiddenElements => "hidden_elements",
            Mode::MaskedFields => "masked_fields",
        }
    }
}

impl World {
    /// An instance in which nothing varies (timeline / delegation monitors build one store only).
    fn plain(nx: CognitiveNexus) -> World {
        World {
            nx,
            sym: BTreeMap::new(),
            vary_hidden: false,
            vary_attrs: false,
            vary_facets: false,
            vary_stance: false,
            vary_confidence: false,
            vary_mode: false,
            vary_name: false,
            vary_key: false,
            vary_links: BTreeSet::new(),
            base_seq: 0,
            start_seq: 0,
            hidden_as: HiddenAs::Label("secret".into()),
        }
    }
    fn id(&self, s: &str) -> String {
        self.sym.get(s).cloned().unwrap_or_else(|| format!("<unbound {s}>"))
    }
    fn params(&self, script: &Script, variant: usize, ps: &[(String, PVal)]) -> Value {
        let mut m = Map::new();
        for (k, v) in ps {
            m.insert(
                k.clone(),
                match v {
                    PVal::Lit(v) => v.clone(),
                    PVal::Ref(s) => json!({"id": self.id(s)}),
                    PVal::Id(s) => json!(self.id(s)),
                    PVal::Hidden(i) => script.hidden_vals[if self.vary_hidden { variant } else { 0 }][*i].clone(),
                    PVal::TailTx(k) => json!(format!("{DEFAULT_SPACE}#{}", self.base_seq + k)),
                    PVal::SeqOfStep(i) => json!(self.start_seq + *i as u64 + 1),
                    PVal::SeqBeforeStep(i) => json!(self.start_seq + *i as u64),
                    PVal::TxOfStep(i) => json!(format!("{DEFAULT_SPACE}#{}", self.start_seq + *i as u64 + 1)),
                    PVal::HiddenId { s1, s2 } => json!(self.id(if variant == 1 && self.vary_hidden { s2 } else { s1 })),
                    PVal::MaskedAttr(i) => script.hidden_vals[if self.vary_attrs { variant } else { 0 }][*i].clone(),
                    PVal::MaskedFacet(i) => script.hidden_vals[if self.vary_facets { variant } else { 0 }][*i].clone(),
                    PVal::MaskedStance(i) => script.hidden_vals[if self.vary_stance { variant } else { 0 }][*i].clone(),
                    PVal::MaskedConfidence(i) => script.hidden_vals[if self.vary_confidence { variant } else { 0 }][*i].clone(),
                    PVal::MaskedMode(i) => script.hidden_vals[if self.vary_mode { variant } else { 0 }][*i].clone(),
                    PVal::MaskedName(i) => script.hidden_vals[if self.vary_name { variant } else { 0 }][*i].clone(),
                    PVal::MaskedKey(i) => script.hidden_vals[if self.vary_key { variant } else { 0 }][*i].clone(),
                    PVal::MaskedRef { tag, s1, s2 } => json!({"id": self.id(if variant == 1 && self.vary_links.contains(tag) { s2 } else { s1 })}),
                },
            );
        }
        Value::Object(m)
    }
}

fn element_id(id: &str) -> Result<ElementId, String> {
    id.parse::<ElementId>().map_err(|e| format!("bad element id {id}: {e:?}"))
}

/// Parses and executes one command whose request envelope carries more than the command and its
/// parameters: the top-level members of `envelope` (`execution`, `read`, ..) are merged into the
/// request, the members of `envelope.op` into the operation.
async fn exec_env<E: anda_kip::Executor + Sync>(ex: &E, command: &str, params: &Value, envelope: &Value) -> Result<anda_kip::Response, String> {
    let mut op = json!({"command": command});
    if params.as_object().is_some_and(|m| !m.is_empty()) {
        op["parameters"] = params.clone();
    }
    let mut req = json!({"kip": "2.0"});
    for (k, v) in envelope.as_object().into_iter().flatten() {
        if k == "op" {
            for (ok, ov) in v.as_object().into_iter().flatten() {
                op[ok.as_str()] = ov.clone();
            }
        } else {
            req[k.as_str()] = v.clone();
        }
    }
    req["operations"] = json!([op]);
    let request = serde_json::from_value::<anda_kip::Request>(req).map_err(|e| format!("request envelope: {e}"))?;
    let parsed = request.operations[0].parse().map_err(|e| format!("parse error: {} {}", e.name(), e.message))?;
    Ok(ex.execute(parsed, &request, &request.operations[0]).await)
}

/// The envelope of a mutation committed under an idempotency key.
fn keyed_envelope(key: &str, at_operation: bool) -> Value {
    if at_operation {
        json!({"op": {"idempotency_key": key}})
    } else {
        json!({"execution": {"mode": "independent", "idempotency_key": key}})
    }
}

/// The snapshot token of a coordinate (what `SNAPSHOT AS OF SEQ n` answers; a request carrying it
/// in `read.snapshot_token` reads at that coordinate).
fn snapshot_token(seq: u64) -> String {
    format!("kip:snapshot:{DEFAULT_SPACE}:{seq}").bytes().map(|b| format!("{b:02x}")).collect()
}

async fn run_steps(w: &mut World, script: &Script, steps: &[Step], variant: usize) -> Result<(), String> {
    let owner = w.nx.system_session();
    for st in steps {
        match st {
            Step::Keyed { key, at_operation, cmd, params, binds } => {
                let p = w.params(script, variant, params);
                let r = exec_env(&owner, cmd, &p, &keyed_envelope(key, *at_operation)).await?;
                if r.status != anda_kip::TopLevelStatus::Succeeded {
                    return Err(format!("keyed command failed: {cmd} params={p} key={key} -> {}", serde_json::to_string(&r).unwrap_or_default()));
                }
                let r = r.first_result().cloned().unwrap_or(Value::Null);
                for (h, s) in binds {
                    let id = r["handles"][h].as_str().ok_or_else(|| format!("no handle {h} in {r}"))?;
                    w.sym.insert(s.clone(), id.to_string());
                }
            }
            Step::Kml { cmd, params, binds } => {
                let p = w.params(script, variant, params);
                let r = exec_ok(&owner, cmd, &p).await?;
                for (h, s) in binds {
                    let id = r["handles"][h].as_str().ok_or_else(|| format!("no handle {h} in {r}"))?;
                    w.sym.insert(s.clone(), id.to_string());
                }
            }
            Step::Classify { sym, label } => {
                let label: &str = if *label == HIDDEN_LABEL {
                    match w.hidden_as.of(sym) {
                        HiddenAs::Label(l) => l.as_str(),
                        HiddenAs::PerKind(..) => return Err("nested per-kind hiding".into()),
                        HiddenAs::Unlabeled => {
                            // no label at all; a padding commit keeps "one step = one commit"
                            let n = space_seq(&w.nx).await?;
                            exec_ok(&owner, "UPDATE :t SET ATTRIBUTES {rank: :rank}", &json!({"t": w.id(PAD), "rank": n})).await?;
                            continue;
                        }
                    }
                } else {
                    label
                };
                owner
                    .classify(DEFAULT_SPACE, element_id(&w.id(sym))?, label)
                    .await
                    .map_err(|e| format!("classify {sym} {label}: {} {}", e.name(), e.message))?;
            }
        }
    }
    Ok(())
}

/// Placeholder label of the classify steps that hide an element: resolved per instance to
/// `World::hidden_label` (a label p's authority certainly does not reach).
const HIDDEN_LABEL: &str = "<hidden>";

/// How an instance hides its hidden elements.
#[derive(Clone, Debug, PartialEq)]
enum HiddenAs {
    /// classified with this label
    Label(String),
    /// left unlabeled: the Space default (`internal`) applies, which a `public` ceiling does not reach
    Unlabeled,
    /// per element kind (with a default): an element is hidden by what the sources that reach ITS
    /// kind allow - a label within the ceiling of a source over other kinds, or any label at all
    /// for a kind that no source of p reaches
    PerKind(BTreeMap<String, HiddenAs>, Box<HiddenAs>),
}

/// The element kind a script symbol names.
fn kind_of_sym(sym: &str) -> &'static str {
    if sym.starts_with("evidence") {
        "evidence"
    } else if sym.starts_with("prop") || sym.starts_with("tail_prop") {
        "proposition"
    } else if sym.starts_with("assertion") || sym.starts_with("tail_assertion") {
        "assertion"
    } else {
        "concept"
    }
}

impl HiddenAs {
    fn of(&self, sym: &str) -> &HiddenAs {
        match self {
            HiddenAs::PerKind(per, default) => per.get(kind_of_sym(sym)).unwrap_or(default),
            other => other,
        }
    }
}

/// Symbol of the always-present hidden element used for commit-count padding.
const PAD: &str = "pad";

const WORDS: [&str; 8] = ["alpha", "bravo", "carbon", "delta", "ember", "fjord", "gamma", "harbor"];
const LABELS_VISIBLE: [&str; 3] = ["public", "", "internal"]; // "" = unlabeled (Space default)

/// Generates the population script. Elements are visible (classified at or below "internal")
/// or hidden (explicitly classified "secret"); every p in the generated configurations has a
/// ceiling of at most "sensitive".
fn gen_script(rng: &mut Rng, size: usize) -> Script {
    let mut s = Script::default();
    let hid = |s: &mut Script, a: Value, b: Value| -> PVal {
        s.hidden_vals[0].push(a);
        s.hidden_vals[1].push(b);
        PVal::Hidden(s.hidden_vals[0].len() - 1)
    };
    let two_words = |rng: &mut Rng| format!("{} {}", rng.pick(&WORDS), rng.pick(&WORDS));
    let n_persons = 4 + rng.usize(size);
    // a hidden element that exists in every instance: the smaller instance pads its commit count
    // with updates of it (see `pad_to`), so that Space sequence numbers coincide in S1 and S2
    s.steps.push(Step::Kml {
        cmd: r#"CREATE CONCEPT ?c { TYPE "Person" NAME "padding element" SET ATTRIBUTES {rank: 0, nickname: "pad"} }"#.into(),
        params: vec![],
        binds: vec![("c".into(), PAD.into())],
    });
    s.steps.push(Step::Classify { sym: PAD.into(), label: "secret" });
    s.hidden.insert(PAD.into());
    // persons
    for i in 0..n_persons {
        let sym = format!("person{i}");
        let hidden = i >= 2 && rng.chance(2, 5);
        let (name, key, rank, nick, strength) = if hidden {
            (
                hid(&mut s, json!(two_words(rng)), json!(two_words(rng))),
                hid(&mut s, json!(format!("pk{i}-{}", rng.below(50))), json!(format!("pk{i}-{}", rng.below(50)))),
                hid(&mut s, json!(rng.below(100)), json!(rng.below(100))),
                hid(&mut s, json!(format!("nick{}", rng.below(50))), json!(format!("nick{}", rng.below(50)))),
                hid(&mut s, json!(rng.below(100) as f64 / 100.0), json!(rng.below(100) as f64 / 100.0)),
            )
        } else {
            let as_attr = |v: PVal| if let PVal::Hidden(i) = v { PVal::MaskedAttr(i) } else { v };
            let nick = as_attr(hid(&mut s, json!(format!("nick{}", rng.below(50))), json!(format!("nick{}", 50 + rng.below(50)))));
            if let PVal::MaskedAttr(i) = &nick {
                s.masked_nicks.push((*i, sym.clone()));
            }
            let visible_name = two_words(rng);
            s.visible_names.push(visible_name.clone());
            // name and key of a visible person differ between S1 and S2 only under a mask that
            // hides them from p (they are indexed: an element pattern can constrain them)
            let name = match hid(&mut s, json!(visible_name), json!(two_words(rng))) {
                PVal::Hidden(i) => {
                    s.masked_names.push(i);
                    PVal::MaskedName(i)
                }
                v => v,
            };
            let key = match hid(&mut s, json!(format!("pk{i}-{}", rng.below(50))), json!(format!("pk{i}-{}", 50 + rng.below(50)))) {
                PVal::Hidden(i) => {
                    s.masked_keys.push(i);
                    PVal::MaskedKey(i)
                }
                v => v,
            };
            (
                name,
                key,
                as_attr(hid(&mut s, json!(rng.below(100)), json!(rng.below(100)))),
                nick,
                match hid(&mut s, json!(rng.below(100) as f64 / 100.0), json!(rng.below(100) as f64 / 100.0)) {
                    PVal::Hidden(i) => PVal::MaskedFacet(i),
                    v => v,
                },
            )
        };
        s.steps.push(Step::Kml {
            cmd: r#"CREATE CONCEPT ?c { TYPE "Person" NAME :name SET FIELDS {key: :key} SET ATTRIBUTES {rank: :rank, nickname: :nick} SET FACET "MnemonicState" {memory_strength: :strength} }"#.into(),
            params: vec![("name".into(), name), ("key".into(), key), ("rank".into(), rank), ("nick".into(), nick), ("strength".into(), strength)],
            binds: vec![("c".into(), sym.clone())],
        });
        if hidden {
            s.hidden_creations.push((s.steps.len() - 1, "concept"));
            s.steps.push(Step::Classify { sym: sym.clone(), label: HIDDEN_LABEL });
            s.hidden.insert(sym.clone());
        } else {
            let l = *rng.pick(&LABELS_VISIBLE);
            if !l.is_empty() {
                s.steps.push(Step::Classify { sym: sym.clone(), label: l });
            }
            s.visible.push(sym.clone());
        }
        s.persons.push(sym);
    }
    // evidence
    let n_ev = 2 + rng.usize(3);
    for i in 0..n_ev {
        let sym = format!("evidence{i}");
        let hidden = rng.chance(1, 3);
        let payload = if hidden {
            hid(&mut s, json!(format!("observed {}", two_words(rng))), json!(format!("observed {}", two_words(rng))))
        } else {
            PVal::Lit(json!(format!("observed {}", two_words(rng))))
        };
        s.steps.push(Step::Kml {
            cmd: r#"CREATE EVIDENCE ?e { SET FIELDS { evidence_class: "tool_result", payload: :payload } }"#.into(),
            params: vec![("payload".into(), payload)],
            binds: vec![("e".into(), sym.clone())],
        });
        if hidden {
            s.hidden_creations.push((s.steps.len() - 1, "evidence"));
            s.steps.push(Step::Classify { sym: sym.clone(), label: HIDDEN_LABEL });
            s.hidden.insert(sym.clone());
        } else {
            s.visible.push(sym.clone());
        }
        s.evidence.push(sym);
    }
    // propositions + assertions
    let n_props = 3 + rng.usize(size);
    let mut used_tuples: BTreeSet<(String, &str, String)> = BTreeSet::new();
    for i in 0..n_props {
        let psym = format!("prop{i}");
        let (mut subj, mut obj, mut pred);
        loop {
            subj = rng.pick(&s.persons).clone();
            obj = rng.pick(&s.persons).clone();
            pred = *rng.pick(&["prefers", "mentions", "status"]);
            // one proposition per tuple, so that a symbol names one element
            if used_tuples.insert((subj.clone(), pred, obj.clone())) {
                break;
            }
        }
        let n_as = rng.usize(3);
        let mut cmd = format!("MUTATE {{ ENSURE PROPOSITION ?p (:s, \"{pred}\", :o)\n");
        let mut params = vec![("s".to_string(), PVal::Ref(subj.clone())), ("o".to_string(), PVal::Ref(obj.clone()))];
        let mut binds = vec![("p".to_string(), psym.clone())];
        let mut new_as = vec![];
        for k in 0..n_as {
            let asym = format!("assertion{i}_{k}");
            let actor = rng.pick(&s.persons).clone();
            let ev = rng.pick(&s.evidence).clone();
            let cite = rng.bool();
            let hidden_as = rng.chance(1, 3);
            let conf = match hid(&mut s, json!((10 + rng.below(90)) as f64 / 100.0), json!((10 + rng.below(90)) as f64 / 100.0)) {
                PVal::Hidden(i) if !hidden_as => PVal::MaskedConfidence(i),
                v => v,
            };
            let stance = *rng.pick(&["support", "support", "reject"]);
            // a visible assertion's stance differs between S1 and S2 only where p's mask hides it
            let other_stance = if stance == "support" { "reject" } else { "support" };
            let stance_val = match hid(&mut s, json!(stance), json!(if hidden_as || rng.bool() { other_stance } else { stance })) {
                PVal::Hidden(i) if !hidden_as => PVal::MaskedStance(i),
                v => v,
            };
            // likewise the mode (indexed, maskable)
            let mode_val = match hid(&mut s, json!("observed"), json!(if hidden_as || rng.bool() { "stated" } else { "observed" })) {
                PVal::Hidden(i) if !hidden_as => PVal::MaskedMode(i),
                v => v,
            };
            params.push((format!("actor{k}"), PVal::Ref(actor)));
            params.push((format!("conf{k}"), conf));
            params.push((format!("stance{k}"), stance_val));
            params.push((format!("mode{k}"), mode_val));
            let st = if cite {
                params.push((format!("ev{k}"), PVal::Ref(ev)));
                format!(" SET STRUCTURAL {{ (\"evidence\", :ev{k}) {{role: \"support\"}} }}")
            } else {
                String::new()
            };
            cmd.push_str(&format!(
                "CREATE ASSERTION ?a{k} {{ SET FIELDS {{ proposition: ?p, asserted_by: :actor{k}, stance: :stance{k}, mode: :mode{k}, confidence: :conf{k} }}{st} }}\n"
            ));
            binds.push((format!("a{k}"), asym.clone()));
            new_as.push((asym, hidden_as));
        }
        cmd.push('}');
        s.steps.push(Step::Kml { cmd, params, binds });
        s.prop_tuples.push((s.steps.len() - 1, psym.clone(), subj.clone(), pred.to_string(), obj.clone()));
        // a proposition is hidden when explicitly classified; endpoints may be hidden independently
        if rng.chance(1, 4) {
            s.steps.push(Step::Classify { sym: psym.clone(), label: HIDDEN_LABEL });
            s.hidden.insert(psym.clone());
        } else {
            s.visible.push(psym.clone());
        }
        s.props.push(psym);
        for (asym, h) in new_as {
            if h {
                s.steps.push(Step::Classify { sym: asym.clone(), label: HIDDEN_LABEL });
                s.hidden.insert(asym.clone());
            }
            // an assertion that is not explicitly hidden may still inherit a classification from
            // hidden evidence: it is neither "certainly hidden" nor "certainly visible"
            s.assertions.push(asym);
        }
    }
    // an update of a hidden person (its history is hidden too)
    let hidden_persons: Vec<String> = s.persons.iter().filter(|p| s.hidden.contains(*p)).cloned().collect();
    if let Some(hp) = hidden_persons.first() {
        let v = hid(&mut s, json!(rng.below(100)), json!(rng.below(100)));
        s.steps.push(Step::Kml {
            cmd: "UPDATE :t SET ATTRIBUTES {rank: :rank}".into(),
            params: vec![("t".into(), PVal::Id(hp.clone())), ("rank".into(), v)],
            binds: vec![],
        });
    }
    // the tail: additional hidden elements with propositions and assertions among themselves
    // and towards visible elements; each is classified right after its creation
    s.first_tail_concept = format!("C-{}", n_persons + 2); // persons + the padding element
    let n_tail = 1 + rng.usize(4);
    let crowd = rng.chance(1, 3);
    for i in 0..n_tail {
        let sym = format!("tail_person{i}");
        s.tail.push(Step::Kml {
            cmd: r#"CREATE CONCEPT ?c { TYPE "Person" NAME :name SET ATTRIBUTES {rank: :rank, nickname: "tail"} }"#.into(),
            params: vec![("name".into(), PVal::Lit(json!(two_words(rng)))), ("rank".into(), PVal::Lit(json!(rng.below(100))))],
            binds: vec![("c".into(), sym.clone())],
        });
        s.tail.push(Step::Classify { sym: sym.clone(), label: HIDDEN_LABEL });
        let other = if rng.bool() { rng.pick(&s.persons).clone() } else { sym.clone() };
        let (subj, obj) = if rng.bool() { (sym.clone(), other) } else { (other, sym.clone()) };
        let pred = *rng.pick(&["prefers", "mentions"]);
        if !subj.starts_with("tail_") {
            s.tail_slots.push((subj.clone(), pred.to_string()));
        }
        s.tail.push(Step::Kml {
            cmd: format!("ENSURE PROPOSITION ?p (:s, \"{pred}\", :o)"),
            params: vec![("s".into(), PVal::Ref(subj)), ("o".into(), PVal::Ref(obj))],
            binds: vec![("p".into(), format!("tail_prop{i}"))],
        });
        s.tail.push(Step::Classify { sym: format!("tail_prop{i}"), label: HIDDEN_LABEL });
        // a hidden assertion about a VISIBLE proposition (must not move p's belief) or the new one
        let about = if rng.bool() && !s.props.is_empty() { rng.pick(&s.props).clone() } else { format!("tail_prop{i}") };
        s.tail.push(Step::Kml {
            cmd: r#"CREATE ASSERTION ?a { SET FIELDS { proposition: :p, asserted_by: :actor, stance: "reject", mode: "observed", confidence: 0.95 } }"#.into(),
            params: vec![("p".into(), PVal::Ref(about)), ("actor".into(), PVal::Ref(sym.clone()))],
            binds: vec![("a".into(), format!("tail_assertion{i}"))],
        });
        s.tail.push(Step::Classify { sym: format!("tail_assertion{i}"), label: HIDDEN_LABEL });
        // and a lifecycle event on something hidden
        let victim = *rng.pick(&["tail_person", "tail_assertion"]);
        match rng.below(5) {
            0 => s.tail.push(Step::Kml { cmd: "ARCHIVE :t".into(), params: vec![("t".into(), PVal::Id(format!("{victim}{i}")))], binds: vec![] }),
            1 => s.tail.push(Step::Kml { cmd: "TOMBSTONE :t".into(), params: vec![("t".into(), PVal::Id(format!("{victim}{i}")))], binds: vec![] }),
            2 => s.tail.push(Step::Kml {
                cmd: r#"PURGE :t REFERENCE POLICY "tombstone_reference" CONFIRM "PURGE""#.into(),
                params: vec![("t".into(), PVal::Id(format!("{victim}{i}")))],
                binds: vec![],
            }),
            _ => {}
        }
    }
    if crowd {
        // a crowd of hidden elements that match a visible person's name better than it does
        if let Some(word) = s.visible_names.first().and_then(|n| n.split(' ').next()).map(str::to_string) {
            for j in 0..6 {
                let sym = format!("tail_crowd{j}");
                s.tail.push(Step::Kml {
                    cmd: r#"CREATE CONCEPT ?c { TYPE "Person" NAME :name SET ATTRIBUTES {nickname: "tail"} }"#.into(),
                    params: vec![("name".into(), PVal::Lit(json!(format!("{word} {word}"))))],
                    binds: vec![("c".into(), sym.clone())],
                });
                s.tail.push(Step::Classify { sym, label: HIDDEN_LABEL });
            }
            s.crowd_word = Some(word);
        }
    }
    // reference members that a mask can hide; drawn from a stream of their own so that everything
    // above is the script the seed always gave
    let mut r2 = Rng::new(rng.clone().next_u64() ^ 0xC19C_0DE5);
    vary_structure(&mut s, &mut r2);
    // a hidden crowd outranks SEVERAL visible hits: a paged search has later pages to lose
    if let Some(word) = s.crowd_word.clone() {
        let others: Vec<&str> = WORDS.iter().copied().filter(|w| *w != word).collect();
        for j in 0..3usize {
            let mut name = word.clone();
            for _ in 0..=j {
                name.push(' ');
                name.push_str(*r2.pick(&others[..]));
            }
            let sym = format!("echo{j}");
            s.steps.push(Step::Kml {
                cmd: r#"CREATE CONCEPT ?c { TYPE "Person" NAME :name SET ATTRIBUTES {nickname: "echo"} }"#.into(),
                params: vec![("name".into(), PVal::Lit(json!(name)))],
                binds: vec![("c".into(), sym.clone())],
            });
            s.visible.push(sym);
        }
        // (the tail's concepts come after them)
        s.first_tail_concept = format!("C-{}", s.persons.len() + 2 + 3);
    }
    // the journal block: the last steps of the base script, again from a stream of its own
    let mut r3 = Rng::new(rng.clone().next_u64() ^ 0x10C_B10C);
    journal_block(&mut s, &mut r3);
    s
}

/// Appends the journal block to the base script: transactions whose changes are all visible, mixed
/// and all hidden, committed under an idempotency key (stated for the request or for the operation)
/// and without one, single- and multi-change, a CREATE that is classified afterwards, the
/// classification itself, and two transactions under ONE key (the engine records a key, it does not
/// replay: the first one - all hidden - is what a lookup by key finds). Every hidden target is
/// ANOTHER hidden element in S2 (mode hidden_elements): the owner sees two different journal rows
/// under the same transaction id / key, p must see the same thing. The updates write an attribute
/// of their own (`jr`), so that nothing the rest of the battery reads changes.
fn journal_block(s: &mut Script, r: &mut Rng) {
    let vis: Vec<String> = s.persons.iter().filter(|p| !s.hidden.contains(*p)).cloned().collect();
    if vis.len() < 2 {
        return; // (persons 0 and 1 are always visible)
    }
    let (vis0, vis1) = (vis[0].clone(), vis[1].clone());
    let vault = "vault".to_string();
    // a second hidden element beside the padding element: a hidden person of the script where
    // there is one, the vault otherwise
    let other_hidden = s.persons.iter().find(|p| s.hidden.contains(*p)).cloned().unwrap_or_else(|| vault.clone());
    s.journal_visible = vis0.clone();
    s.vault = vault.clone();
    let mut jr = 0u64;
    let mut next = || {
        jr += 1;
        PVal::Lit(json!(jr))
    };
    let id = |s: &str| PVal::Id(s.to_string());
    let hid = |s1: &str, s2: &str| PVal::HiddenId { s1: s1.to_string(), s2: s2.to_string() };
    let one = "UPDATE :a SET ATTRIBUTES {jr: :r1}".to_string();
    let two = "MUTATE { UPDATE :a SET ATTRIBUTES {jr: :r1}\nUPDATE :b SET ATTRIBUTES {jr: :r2} }".to_string();
    let words = |r: &mut Rng| format!("{} {}", r.pick(&WORDS), r.pick(&WORDS));
    // --- a hidden Concept created under a key, classified by the next commit
    s.hidden_vals[0].push(json!(words(r)));
    s.hidden_vals[1].push(json!(words(r)));
    let name = PVal::Hidden(s.hidden_vals[0].len() - 1);
    s.steps.push(Step::Keyed {
        key: "job:vault".into(),
        at_operation: false,
        cmd: r#"CREATE CONCEPT ?c { TYPE "Person" NAME :name SET ATTRIBUTES {nickname: "vault", jr: 0} }"#.into(),
        params: vec![("name".into(), name)],
        binds: vec![("c".into(), vault.clone())],
    });
    s.journal.push(JournalTx { step: s.steps.len() - 1, key: Some("job:vault".into()), class: "hidden", tag: "hidden_create" });
    s.steps.push(Step::Classify { sym: vault.clone(), label: HIDDEN_LABEL });
    s.journal.push(JournalTx { step: s.steps.len() - 1, key: None, class: "hidden", tag: "hidden_classify" });
    s.hidden.insert(vault.clone());
    // (the tail's first Concept comes one later)
    if let Some(n) = s.first_tail_concept.strip_prefix("C-").and_then(|n| n.parse::<u64>().ok()) {
        s.first_tail_concept = format!("C-{}", n + 1);
    }
    // --- (tag, class, key, stated for the operation, command, a, b)
    let rows: Vec<(&'static str, &'static str, Option<&str>, bool, &String, PVal, Option<PVal>)> = vec![
        ("visible", "visible", Some("job:visible"), true, &one, id(&vis0), None),
        ("mixed", "mixed", Some("job:mixed"), false, &two, id(&vis0), Some(hid(PAD, &vault))),
        ("hidden", "hidden", Some("job:hidden"), false, &one, hid(PAD, &other_hidden), None),
        ("hidden_multi", "hidden", Some("job:hidden2"), true, &two, id(PAD), Some(hid(&vault, &other_hidden))),
        ("mixed_unkeyed", "mixed", None, false, &two, hid(PAD, &vault), Some(id(&vis1))),
        ("visible_multi", "visible", Some("job:visible2"), false, &two, id(&vis1), Some(id(&vis0))),
        ("resent_first", "hidden", Some("job:resent"), false, &one, hid(PAD, &vault), None),
        ("resent_second", "visible", Some("job:resent"), false, &one, id(&vis0), None),
        ("hidden_unkeyed", "hidden", None, false, &one, hid(&vault, PAD), None),
    ];
    for (tag, class, key, at_operation, cmd, a, b) in rows {
        let mut params = vec![("a".to_string(), a), ("r1".to_string(), next())];
        if let Some(b) = b {
            params.push(("b".to_string(), b));
            params.push(("r2".to_string(), next()));
        }
        s.steps.push(match key {
            Some(k) => Step::Keyed { key: k.to_string(), at_operation, cmd: cmd.clone(), params, binds: vec![] },
            None => Step::Kml { cmd: cmd.clone(), params, binds: vec![] },
        });
        s.journal.push(JournalTx { step: s.steps.len() - 1, key: key.map(str::to_string), class, tag });
    }
}

const PREDICATES: [&str; 3] = ["prefers", "mentions", "status"];

/// Gives reference members of visible elements a second value for S2 (taken only where p's mask
/// hides the member, see `PVal::MaskedRef`): subject / object of about two thirds of the
/// propositions (ids stay the same: within every instance, whichever of the two members varies
/// there, no two propositions share a tuple; the predicate never varies - it is the Schema symbol
/// the proposition is typed by, `Element::schema_ref`, what a Grant's scope is written in, and
/// like a Concept's `type` it stays selectable under a mask), and - appended to the base script -
/// assertions whose proposition / actor / cited evidence and an evidence record whose source
/// have another target. Alternatives are elements that are not explicitly hidden, with the same
/// (absent) label where classification joins along the link (cited evidence, sources).
fn vary_structure(s: &mut Script, r: &mut Rng) {
    let visible = |pool: &[String], hidden: &BTreeSet<String>| pool.iter().filter(|x| !hidden.contains(*x)).cloned().collect::<Vec<String>>();
    let persons = visible(&s.persons, &s.hidden);
    let props = visible(&s.props, &s.hidden);
    let evidence = visible(&s.evidence, &s.hidden);
    let other = |r: &mut Rng, pool: &[String], not: &str| -> Option<String> {
        let c: Vec<&String> = pool.iter().filter(|x| x.as_str() != not).collect();
        if c.is_empty() { None } else { Some((*r.pick(&c)).clone()) }
    };
    // --- tuples: alts[i][c] = the tuple of proposition i in an instance where the members in bit
    // set c (1 subject, 2 object) follow S2
    let base: Vec<(String, String, String)> = s.prop_tuples.iter().map(|(_, _, a, b, c)| (a.clone(), b.clone(), c.clone())).collect();
    let mut alts: Vec<Vec<(String, String, String)>> = base.iter().map(|t| vec![t.clone(); 4]).collect();
    for i in 0..base.len() {
        if !r.chance(2, 3) {
            continue;
        }
        for _try in 0..20 {
            let (mut s2, pred, mut o2) = base[i].clone();
            let which = 1 + r.below(3);
            if which & 1 != 0 {
                s2 = other(r, &persons, &base[i].0).unwrap_or(s2);
            }
            if which & 2 != 0 {
                o2 = other(r, &persons, &base[i].2).unwrap_or(o2);
            }
            let cand: Vec<(String, String, String)> = (0..4usize)
                .map(|c| (if c & 1 != 0 { s2.clone() } else { base[i].0.clone() }, pred.clone(), if c & 2 != 0 { o2.clone() } else { base[i].2.clone() }))
                .collect();
            let clash = (0..4).any(|c| (0..base.len()).any(|j| j != i && alts[j][c] == cand[c]));
            if clash || cand[3] == base[i] {
                continue;
            }
            alts[i] = cand;
            break;
        }
    }
    for (i, (step, sym, subj, _, obj)) in s.prop_tuples.clone().into_iter().enumerate() {
        let (s2, p2, o2) = alts[i][3].clone();
        if (s2.clone(), p2.clone(), o2.clone()) == base[i] {
            continue;
        }
        if let Step::Kml { params, .. } = &mut s.steps[step] {
            for (k, v) in params.iter_mut() {
                match k.as_str() {
                    "s" => *v = PVal::MaskedRef { tag: "subject", s1: subj.clone(), s2: s2.clone() },
                    "o" => *v = PVal::MaskedRef { tag: "object", s1: obj.clone(), s2: o2.clone() },
                    _ => {}
                }
            }
        }
        s.masked_tuples.push(MaskedTuple { sym, s1: base[i].clone(), s2: (s2, p2, o2) });
    }
    // --- assertions about / by / citing something else in S2
    if !props.is_empty() && !persons.is_empty() {
        for k in 0..2 + r.usize(2) {
            let sym = format!("assertion_late{k}");
            let prop = r.pick(&props).clone();
            let actor = r.pick(&persons).clone();
            let prop2 = if r.chance(2, 3) { other(r, &props, &prop) } else { None }.unwrap_or_else(|| prop.clone());
            let actor2 = if r.chance(2, 3) { other(r, &persons, &actor) } else { None }.unwrap_or_else(|| actor.clone());
            let mut params = vec![
                ("p".to_string(), PVal::MaskedRef { tag: "proposition_id", s1: prop.clone(), s2: prop2 }),
                ("actor".to_string(), PVal::MaskedRef { tag: "asserted_by", s1: actor.clone(), s2: actor2 }),
            ];
            let mut cited = None;
            let st = if !evidence.is_empty() && r.chance(2, 3) {
                let ev = r.pick(&evidence).clone();
                let ev2 = if r.chance(2, 3) { other(r, &evidence, &ev) } else { None }.unwrap_or_else(|| ev.clone());
                params.push(("ev".to_string(), PVal::MaskedRef { tag: "evidence_refs", s1: ev.clone(), s2: ev2 }));
                cited = Some(ev);
                r#" SET STRUCTURAL { ("evidence", :ev) {role: "support"} }"#
            } else {
                ""
            };
            s.steps.push(Step::Kml {
                cmd: format!(r#"CREATE ASSERTION ?a {{ SET FIELDS {{ proposition: :p, asserted_by: :actor, stance: "support", mode: "observed", confidence: 0.6 }}{st} }}"#),
                params,
                binds: vec![("a".into(), sym.clone())],
            });
            s.late.push(Late { sym, prop: Some(prop), actor: Some(actor), evidence: cited });
        }
    }
    // --- an evidence record derived from another one
    if let Some(src) = evidence.first().cloned() {
        let src2 = other(r, &evidence, &src).unwrap_or_else(|| src.clone());
        let sym = "evidence_late0".to_string();
        s.steps.push(Step::Kml {
            cmd: r#"CREATE EVIDENCE ?e { SET FIELDS { evidence_class: "tool_result", payload: "a derived note" } SET STRUCTURAL { ("source", :src) } }"#.into(),
            params: vec![("src".into(), PVal::MaskedRef { tag: "source_refs", s1: src.clone(), s2: src2 })],
            binds: vec![("e".into(), sym.clone())],
        });
        s.late.push(Late { sym, prop: None, actor: None, evidence: Some(src) });
    }
}

// ---------------------------------------------------------------------------------------------
// governance configurations (control-plane calls, identical in every instance)

const P: &str = "kip:principal:p";
const LEAD: &str = "kip:principal:lead";
const MID: &str = "kip:principal:mid";
const STRANGER: &str = "kip:principal:stranger";
const MID2: &str = "kip:principal:mid2";
const GROUP: &str = "kip:group:readers";
const DENIED_GROUP: &str = "kip:group:denied";
const POLICY: &str = "kip:policy:space";

const READ_ACTIONS: [&str; 6] = ["read", "search", "discover", "project", "read_history", "export"];
const LADDER: [&str; 5] = ["public", "internal", "private", "sensitive", "secret"];
const INFLUENCE: [&str; 4] = ["descriptive", "advisory", "behavioral", "executable"];
const KINDS: [&str; 4] = ["concept", "proposition", "assertion", "evidence"];
/// View members a field mask can name, per kind (`id`, `kind`, `space_id` survive every mask).
const CONCEPT_FIELDS: [&str; 7] = ["name", "key", "attributes", "facets", "_system", "schema_ref", "aliases"];
const PROPOSITION_FIELDS: [&str; 6] = ["subject", "predicate_ref", "object", "attributes", "facets", "_system"];
const ASSERTION_FIELDS: [&str; 7] = ["proposition_id", "asserted_by", "stance", "mode", "confidence", "lifecycle", "_system"];
/// An instant that has certainly passed, in the engine's canonical form.
const LONG_AGO: &str = "2020-01-01T00:00:00.000Z";

fn rank_of(label: &str) -> usize {
    LADDER.iter().position(|l| *l == label).unwrap_or(LADDER.len())
}

/// One more, independent source of authority for the same principal ("authority combined from
/// several sources": the decision for one element is taken from the least restrictive source
/// that reaches THAT element, never from what some other source says about something else).
#[derive(Clone, Debug)]
struct Extra {
    /// "grant" | "group" | "policy" | "delegation"
    via: &'static str,
    kinds: Vec<String>,
    fields: Vec<String>,
    /// "" = no classification ceiling at all (only for sources that do not confer `read`, or
    /// that lapsed long ago)
    ceiling: &'static str,
    ceiling_as_scope: bool,
    max_results: Option<u64>,
    actions: Vec<String>,
    /// valid_until lies in the past: the source confers nothing
    expired: bool,
}

impl Extra {
    fn scope(&self) -> AuthorityScope {
        AuthorityScope {
            kinds: self.kinds.clone(),
            classifications: if self.ceiling_as_scope && !self.ceiling.is_empty() { labels_up_to(self.ceiling) } else { vec![] },
            ..Default::default()
        }
    }
    fn constraints(&self) -> AuthorityConstraints {
        AuthorityConstraints {
            fields: self.fields.clone(),
            max_results: self.max_results,
            max_classification: if self.ceiling_as_scope { String::new() } else { self.ceiling.to_string() },
            export: true,
            ..Default::default()
        }
    }
    fn conditions(&self) -> AuthorityConditions {
        AuthorityConditions { valid_until: if self.expired { LONG_AGO.to_string() } else { String::new() }, ..Default::default() }
    }
    /// Whether this source lets p read elements at all.
    fn reads(&self) -> bool {
        !self.expired && self.actions.iter().any(|a| a == "read")
    }
}

/// One Delegation record of a chain, stated explicitly (the delegation monitor draws it
/// independently of what the delegator holds).
#[derive(Clone, Debug)]
struct LinkSpec {
    actions: Vec<String>,
    scope: AuthorityScope,
    constraints: AuthorityConstraints,
}

#[derive(Clone, Debug)]
struct GovCfg {
    /// how p comes to hold read authority
    path: &'static str,
    ceiling: &'static str,
    /// express the ceiling as scope.classifications (a list) instead of max_classification
    ceiling_as_scope: bool,
    kinds: Vec<String>,
    fields: Vec<String>,
    max_results: Option<u64>,
    actions: Vec<String>,
    /// an explicit deny statement for this classification (in the Space policy)
    deny_label: Option<&'static str>,
    /// the deny statement names a group p belongs to (which confers nothing) instead of p itself
    deny_via_group: bool,
    /// a second, narrower grant held by p (least-restrictive-allow selection)
    second_grant: bool,
    /// further independent sources of authority of p
    extras: Vec<Extra>,
    /// the combination of sources this configuration was built to exercise (a counter key)
    shape: &'static str,
    /// constraints.max_influence_authority of the primary source ("" = not stated)
    influence: &'static str,
    /// delegation paths: the Delegation records, delegator-first; empty = one ("delegation") or
    /// two ("chain") links that restate the grant
    links: Vec<LinkSpec>,
}

fn labels_up_to(ceiling: &str) -> Vec<String> {
    let n = LADDER.iter().position(|l| *l == ceiling).unwrap_or(1);
    LADDER[..=n].iter().map(|s| s.to_string()).collect()
}

fn gen_cfg(rng: &mut Rng) -> GovCfg {
    let path = *rng.pick(&["grant", "grant", "group", "delegation", "chain", "policy_scope", "policy_ceiling"]);
    let mut actions: Vec<String> = READ_ACTIONS.iter().filter(|a| **a == "read" || rng.chance(4, 5)).map(|a| a.to_string()).collect();
    if !actions.contains(&"read".to_string()) {
        actions.push("read".into());
    }
    let kinds = if rng.chance(1, 4) {
        let mut k: Vec<String> = KINDS.iter().filter(|_| rng.chance(2, 3)).map(|k| k.to_string()).collect();
        if k.is_empty() {
            k.push("concept".into());
        }
        k
    } else {
        vec![]
    };
    let fields = if rng.chance(1, 4) {
        // most masks show the name; one in four does not (then `{name: ..}` is a probe too)
        let mut f = if rng.chance(3, 4) { vec!["name".to_string()] } else { vec!["schema_ref".to_string()] };
        for extra in ["attributes", "facets", "_system", "subject", "object", "predicate_ref", "stance", "confidence", "mode", "key", "proposition_id", "asserted_by"] {
            if rng.chance(1, 3) {
                f.push(extra.to_string());
            }
        }
        f
    } else {
        vec![]
    };
    GovCfg {
        path,
        ceiling: *rng.pick(&["public", "internal", "internal", "private", "sensitive"]),
        ceiling_as_scope: rng.chance(1, 3),
        kinds,
        fields,
        max_results: if rng.chance(1, 6) { Some(1 + rng.below(4)) } else { None },
        actions,
        deny_label: if rng.chance(1, 5) { Some(*rng.pick(&["private", "internal", "secret"])) } else { None },
        deny_via_group: rng.chance(1, 3),
        second_grant: rng.chance(1, 4),
        extras: vec![],
        shape: "single_source",
        influence: "",
        links: vec![],
    }
}

/// A random non-empty subset of `pool` that leaves out everything in `hide`.
fn mask_without(rng: &mut Rng, pool: &[&str], hide: &[&str]) -> Vec<String> {
    let mut f: Vec<String> = pool.iter().filter(|x| !hide.contains(x) && rng.chance(1, 2)).map(|x| x.to_string()).collect();
    if f.is_empty() {
        f.push(pool.iter().find(|x| !hide.contains(x)).unwrap_or(&"_system").to_string());
    }
    f
}

fn read_actions(rng: &mut Rng) -> Vec<String> {
    READ_ACTIONS.iter().filter(|a| **a == "read" || rng.chance(3, 4)).map(|a| a.to_string()).collect()
}

const VIAS: [&str; 4] = ["grant", "group", "policy", "delegation"];

/// Turns a single-source configuration into one whose authority comes from several sources.
/// `n` selects the combination (round robin over the cases, so that a quick run has them all).
fn combine_sources(rng: &mut Rng, cfg: &mut GovCfg, mode: Mode, n: u64) {
    let via = *rng.pick(&VIAS);
    let strs = |xs: &[&str]| xs.iter().map(|x| x.to_string()).collect::<Vec<String>>();
    let same_ceiling = Extra { via, kinds: vec![], fields: vec![], ceiling: cfg.ceiling, ceiling_as_scope: rng.chance(1, 3), max_results: None, actions: read_actions(rng), expired: false };
    if mode == Mode::MaskedFields && n % 5 != 0 {
        // (the narrow second grant shows `name` of concepts: it would undo a mask built to hide it)
        cfg.second_grant = false;
    }
    match mode {
        Mode::MaskedFields => match n % 5 {
            0 => {} // a single (masked) source, as generated
            1 => {
                // Assertions under a mask, Concepts and Propositions in full: what the least
                // restrictive source shows of a Concept says nothing about an Assertion
                cfg.shape = "masked_assertions_beside_unmasked_concepts";
                // (every other one also hides which proposition an assertion is about; which evidence
                // it cites is never in the mask)
                let hide: &[&str] = [&["stance", "mode"][..], &["mode", "confidence", "proposition_id"], &["stance", "confidence"], &["stance", "mode", "confidence", "proposition_id", "asserted_by"]][((n / 5) % 4) as usize];
                cfg.kinds = if rng.bool() { strs(&["assertion"]) } else { strs(&["assertion", "evidence"]) };
                cfg.fields = mask_without(rng, &ASSERTION_FIELDS, hide);
                if !hide.contains(&"proposition_id") && rng.chance(2, 3) && !cfg.fields.iter().any(|f| f == "proposition_id") {
                    cfg.fields.push("proposition_id".into());
                }
                // every other one: the masked source also carries a result cap, the other none
                // (the cap then applies to a read only through the elements it loads)
                cfg.max_results = if (n / 5) % 2 == 0 { Some(1 + rng.below(2)) } else { None };
                let kinds = if cfg.kinds.len() == 1 && rng.bool() { strs(&["concept", "proposition", "evidence"]) } else { strs(&["concept", "proposition"]) };
                cfg.extras.push(Extra { kinds, ..same_ceiling });
            }
            2 => {
                // the other way round
                cfg.shape = "masked_concepts_beside_unmasked_assertions";
                let hide: &[&str] = [&["name"][..], &["key"], &["attributes", "facets"], &["name", "key"]][((n / 5) % 4) as usize];
                cfg.kinds = if rng.bool() { strs(&["concept"]) } else { strs(&["concept", "proposition"]) };
                cfg.fields = mask_without(rng, &CONCEPT_FIELDS, hide);
                cfg.max_results = if (n / 5) % 2 == 1 { Some(1 + rng.below(2)) } else { None };
                let kinds = if cfg.kinds.len() == 1 { strs(&["assertion", "evidence", "proposition"]) } else { strs(&["assertion", "evidence"]) };
                cfg.extras.push(Extra { kinds, ..same_ceiling });
            }
            3 => {
                // two sources over the same kinds whose masks differ (e.g. a mask by policy, another
                // by grant): only what BOTH hide is certainly hidden
                cfg.shape = "two_masks_over_the_same_kinds";
                let hide: &[&str] = [&["attributes", "stance", "subject"][..], &["facets", "confidence", "object", "proposition_id"], &["key", "mode", "predicate_ref", "evidence_refs"], &["name", "stance", "mode", "subject", "object", "asserted_by"]][((n / 5) % 4) as usize];
                let pool: Vec<&str> = CONCEPT_FIELDS.iter().chain(ASSERTION_FIELDS.iter()).chain(["subject", "object", "predicate_ref", "payload", "evidence_refs", "source_refs"].iter()).copied().collect();
                cfg.kinds = vec![];
                cfg.fields = mask_without(rng, &pool, hide);
                let fields = mask_without(rng, &pool, hide);
                cfg.extras.push(Extra { fields, ..same_ceiling });
            }
            _ => {
                // Propositions under a mask that hides members of the tuple, everything else in
                // full: p reads both endpoints, only not that this proposition connects them
                cfg.shape = "masked_propositions_beside_unmasked_concepts";
                let hide: &[&str] = [&["subject"][..], &["object"], &["subject", "object"], &["subject", "predicate_ref", "object"]][((n / 5) % 4) as usize];
                cfg.kinds = strs(&["proposition"]);
                cfg.fields = mask_without(rng, &PROPOSITION_FIELDS, hide);
                cfg.max_results = if (n / 5) % 2 == 0 { Some(1 + rng.below(2)) } else { None };
                cfg.extras.push(Extra { kinds: strs(&["concept", "assertion", "evidence"]), ..same_ceiling });
            }
        },
        Mode::HiddenElements => match n % 6 {
            0 => {
                // a single source; every other one is scoped to some kinds (the others are then
                // out of p's reach whatever their label)
                if n % 12 == 0 && cfg.kinds.is_empty() {
                    let mut k = strs(&KINDS);
                    rng.shuffle(&mut k);
                    cfg.kinds = k[..1 + rng.usize(3)].to_vec();
                }
            }
            2 => {
                // e.g. a ceiling on a group grant and another one on a direct grant: p reads up to
                // the higher of the two, and nothing above it
                cfg.shape = "two_sources_with_different_ceilings";
                let ceiling = *rng.pick(&["public", "internal", "private", "sensitive"]);
                let kinds = if rng.bool() { vec![] } else { cfg.kinds.clone() };
                let fields = if rng.bool() { vec![] } else { cfg.fields.clone() };
                cfg.extras.push(Extra { ceiling, kinds, fields, ..same_ceiling });
            }
            3 => {
                // a second source without any ceiling that lapsed long ago confers nothing
                cfg.shape = "unbounded_source_that_expired";
                cfg.extras.push(Extra { ceiling: "", ceiling_as_scope: false, expired: true, actions: strs(&READ_ACTIONS), ..same_ceiling });
            }
            4 => {
                // a source without any ceiling that confers search / history / export but not
                // `read`: those commands still show only what the read authority reaches
                cfg.shape = "unbounded_source_without_read";
                let mut actions: Vec<String> = READ_ACTIONS.iter().filter(|a| **a != "read" && rng.chance(2, 3)).map(|a| a.to_string()).collect();
                if actions.is_empty() {
                    actions.push("search".into());
                }
                cfg.extras.push(Extra { ceiling: "", ceiling_as_scope: false, actions, ..same_ceiling });
            }
            _ => {
                // different kinds by different sources, each with its own ceiling
                cfg.shape = "kinds_split_over_two_ceilings";
                let mut k = strs(&KINDS);
                rng.shuffle(&mut k);
                let cut = 1 + rng.usize(3);
                cfg.kinds = k[..cut].to_vec();
                let others: Vec<&'static str> = ["public", "internal", "private", "sensitive"].into_iter().filter(|c| *c != cfg.ceiling).collect();
                let ceiling = *rng.pick(&others);
                cfg.extras.push(Extra { ceiling, kinds: k[cut..].to_vec(), ..same_ceiling });
            }
        },
    }
    if cfg.shape != "single_source" && cfg.shape != "unbounded_source_that_expired" && rng.chance(1, 4) {
        // and, on top, a lapsed source that would show everything
        let via = *rng.pick(&VIAS);
        cfg.extras.push(Extra { via, kinds: vec![], fields: vec![], ceiling: "", ceiling_as_scope: false, max_results: None, actions: strs(&READ_ACTIONS), expired: true });
    }
}

impl GovCfg {
    fn scope(&self) -> AuthorityScope {
        AuthorityScope {
            kinds: self.kinds.clone(),
            classifications: if self.ceiling_as_scope { labels_up_to(self.ceiling) } else { vec![] },
            ..Default::default()
        }
    }
    fn constraints(&self) -> AuthorityConstraints {
        AuthorityConstraints {
            fields: self.fields.clone(),
            max_results: self.max_results,
            max_classification: if self.ceiling_as_scope { String::new() } else { self.ceiling.to_string() },
            max_influence_authority: self.influence.to_string(),
            export: true,
        }
    }
    /// (kinds, fields) of every source that lets p read elements.
    fn read_sources(&self) -> Vec<(Vec<String>, Vec<String>)> {
        let mut v = vec![(self.kinds.clone(), self.fields.clone())];
        if self.second_grant {
            v.push((vec!["concept".into()], vec!["name".into()]));
        }
        v.extend(self.extras.iter().filter(|x| x.reads()).map(|x| (x.kinds.clone(), x.fields.clone())));
        v
    }
    /// The highest classification any reading source of p reaches.
    fn top_ceiling(&self) -> &'static str {
        let mut top = self.ceiling;
        for x in self.extras.iter().filter(|x| x.reads()) {
            if rank_of(x.ceiling) > rank_of(top) {
                top = x.ceiling;
            }
        }
        top
    }
    /// The highest classification p reads of elements of `kind`; None = no source reaches the kind.
    fn top_ceiling_for(&self, kind: &str) -> Option<&'static str> {
        let mut top: Option<&'static str> = None;
        let mut see = |kinds: &[String], c: &'static str| {
            if (kinds.is_empty() || kinds.iter().any(|k| k == kind)) && top.is_none_or(|t| rank_of(c) > rank_of(t)) {
                top = Some(c);
            }
        };
        see(&self.kinds, self.ceiling);
        if self.second_grant {
            see(&["concept".to_string()], "public");
        }
        for x in self.extras.iter().filter(|x| x.reads()) {
            see(&x.kinds, x.ceiling);
        }
        top
    }
    fn any_result_cap(&self) -> bool {
        self.max_results.is_some() || self.extras.iter().any(|x| x.max_results.is_some())
    }
    /// Whether p holds the permission at Space scope (where no scope narrows).
    fn holds(&self, action: &str) -> bool {
        self.actions.iter().any(|x| x == action)
            || (self.second_grant && matches!(action, "read" | "search"))
            || self.extras.iter().any(|x| !x.expired && x.actions.iter().any(|a| a == action))
    }
}

async fn principal(nx: &CognitiveNexus, id: &str) -> Result<(), String> {
    nx.governance()
        .ensure_principal(PrincipalDraft {
            principal_id: id.to_string(),
            principal_class: principal_class::AGENT.to_string(),
            display_name: "an agent".to_string(),
            auth_provider: "verif".to_string(),
            auth_subject: id.to_string(),
        })
        .await
        .map(|_| ())
        .map_err(|e| format!("ensure_principal {id}: {} {}", e.name(), e.message))
}

fn gerr(what: &str) -> impl Fn(anda_kip::KipError) -> String + '_ {
    move |e| format!("{what}: {} {}", e.name(), e.message)
}

/// What was installed for `who`, so that the timeline monitor can take it away again.
#[derive(Default, Debug, Clone)]
struct Installed {
    /// grants held directly by the principal (or, for delegations, by the delegator)
    grants: Vec<u64>,
    delegations: Vec<u64>,
    group: bool,
    policy: bool,
}

async fn set_policy(nx: &CognitiveNexus, statements: Vec<PolicyStatement>) -> Result<(), String> {
    nx.governance()
        .publish_policy(
            PolicyDraft { policy_id: POLICY.into(), space_id: DEFAULT_SPACE.into(), description: "verif".into(), statements },
            SYSTEM_PRINCIPAL,
        )
        .await
        .map_err(gerr("publish_policy"))?;
    let mut space = nx.store.get_space(DEFAULT_SPACE).await.map_err(gerr("get_space"))?;
    if space.default_policy_id != POLICY {
        space.default_policy_id = POLICY.into();
        nx.store.put_space(&space).await.map_err(gerr("put_space"))?;
    }
    Ok(())
}

/// Gives `who` the authority described by `cfg`. `tag` keeps helper principals of two installs
/// in one Nexus apart.
async fn install(nx: &CognitiveNexus, cfg: &GovCfg, who: &str, tag: &str, policy: &mut Vec<PolicyStatement>) -> Result<Installed, String> {
    let gov = nx.governance();
    let mut inst = Installed::default();
    principal(nx, who).await?;
    let grant = |grantee: &str, group: &str, delegable: bool| GrantDraft {
        space_id: DEFAULT_SPACE.into(),
        grantee_principal: grantee.to_string(),
        grantee_group: group.to_string(),
        actions: cfg.actions.clone(),
        scope: cfg.scope(),
        constraints: cfg.constraints(),
        delegation_allowed: delegable,
        ..Default::default()
    };
    match cfg.path {
        "grant" => {
            inst.grants.push(gov.create_grant(grant(who, "", false), SYSTEM_PRINCIPAL).await.map_err(gerr("create_grant"))?._id);
        }
        "group" => {
            let gid = format!("{GROUP}{tag}");
            gov.put_group(GroupDraft { group_id: gid.clone(), name: "readers".into(), description: "verif".into(), members: vec![who.to_string()] }, SYSTEM_PRINCIPAL)
                .await
                .map_err(gerr("put_group"))?;
            inst.grants.push(gov.create_grant(grant("", &gid, false), SYSTEM_PRINCIPAL).await.map_err(gerr("create_grant"))?._id);
            inst.group = true;
        }
        "delegation" | "chain" => {
            let lead = format!("{LEAD}{tag}");
            principal(nx, &lead).await?;
            inst.grants.push(gov.create_grant(grant(&lead, "", true), SYSTEM_PRINCIPAL).await.map_err(gerr("create_grant"))?._id);
            let deleg = |from: &str, to: &str, parent: String, redelegate: bool| DelegationDraft {
                space_id: DEFAULT_SPACE.into(),
                delegator_principal: from.to_string(),
                delegate_principal: to.to_string(),
                actions: cfg.actions.clone(),
                scope: cfg.scope(),
                constraints: cfg.constraints(),
                parent_delegation: parent,
                may_redelegate: redelegate,
                ..Default::default()
            };
            if !cfg.links.is_empty() {
                // explicit records: lead -> mid -> mid2 -> who, each link stating its own bounds
                let n = cfg.links.len();
                let mut nodes = vec![lead.clone()];
                for m in [MID, MID2].iter().take(n - 1) {
                    let id = format!("{m}{tag}");
                    principal(nx, &id).await?;
                    nodes.push(id);
                }
                nodes.push(who.to_string());
                let mut parent = String::new();
                for (i, link) in cfg.links.iter().enumerate() {
                    let row = gov
                        .create_delegation(
                            DelegationDraft {
                                space_id: DEFAULT_SPACE.into(),
                                delegator_principal: nodes[i].clone(),
                                delegate_principal: nodes[i + 1].clone(),
                                actions: link.actions.clone(),
                                scope: link.scope.clone(),
                                constraints: link.constraints.clone(),
                                parent_delegation: parent.clone(),
                                may_redelegate: i + 1 < n,
                                ..Default::default()
                            },
                            &nodes[i],
                        )
                        .await
                        .map_err(gerr("create_delegation (explicit link)"))?;
                    inst.delegations.push(row._id);
                    parent = anda_cognitive_nexus::governance::store::delegation_id(row._id);
                }
            } else if cfg.path == "delegation" {
                inst.delegations.push(gov.create_delegation(deleg(&lead, who, String::new(), false), &lead).await.map_err(gerr("create_delegation"))?._id);
            } else {
                let mid = format!("{MID}{tag}");
                principal(nx, &mid).await?;
                let first = gov.create_delegation(deleg(&lead, &mid, String::new(), true), &lead).await.map_err(gerr("create_delegation"))?;
                inst.delegations.push(first._id);
                let parent = anda_cognitive_nexus::governance::store::delegation_id(first._id);
                inst.delegations.push(gov.create_delegation(deleg(&mid, who, parent, false), &mid).await.map_err(gerr("create_delegation 2"))?._id);
            }
        }
        _ => {
            // a policy allow statement naming the principal; "policy_scope" bounds it by a
            // classification list, "policy_ceiling" by constraints.max_classification
            let mut scope = cfg.scope();
            let mut constraints = cfg.constraints();
            if cfg.path == "policy_scope" {
                scope.classifications = labels_up_to(cfg.ceiling);
                constraints.max_classification = String::new();
            } else {
                scope.classifications = vec![];
                constraints.max_classification = cfg.ceiling.to_string();
            }
            policy.push(PolicyStatement {
                effect: "allow".into(),
                principals: vec![who.to_string()],
                actions: cfg.actions.clone(),
                resource: scope,
                constraints,
                ..Default::default()
            });
            inst.policy = true;
        }
    }
    if cfg.second_grant {
        // narrower than the first in every respect: concepts only, public only, name only
        inst.grants.push(
            gov.create_grant(
                GrantDraft {
                    space_id: DEFAULT_SPACE.into(),
                    grantee_principal: who.to_string(),
                    actions: vec!["read".into(), "search".into()],
                    scope: AuthorityScope { kinds: vec!["concept".into()], ..Default::default() },
                    constraints: AuthorityConstraints { fields: vec!["name".into()], max_classification: "public".into(), ..Default::default() },
                    ..Default::default()
                },
                SYSTEM_PRINCIPAL,
            )
            .await
            .map_err(gerr("create_grant 2"))?
            ._id,
        );
    }
    install_extras(nx, cfg, who, tag, policy).await?;
    Ok(inst)
}

/// The further sources of authority of a combined configuration, each through its own route.
async fn install_extras(nx: &CognitiveNexus, cfg: &GovCfg, who: &str, tag: &str, policy: &mut Vec<PolicyStatement>) -> Result<(), String> {
    let gov = nx.governance();
    for (i, x) in cfg.extras.iter().enumerate() {
        let grant = |grantee: &str, group: &str, delegable: bool| GrantDraft {
            space_id: DEFAULT_SPACE.into(),
            grantee_principal: grantee.to_string(),
            grantee_group: group.to_string(),
            actions: x.actions.clone(),
            scope: x.scope(),
            constraints: x.constraints(),
            conditions: x.conditions(),
            delegation_allowed: delegable,
            ..Default::default()
        };
        match x.via {
            "grant" => {
                gov.create_grant(grant(who, "", false), SYSTEM_PRINCIPAL).await.map_err(gerr("create_grant (extra)"))?;
            }
            "group" => {
                let gid = format!("kip:group:extra{i}{tag}");
                gov.put_group(GroupDraft { group_id: gid.clone(), name: "more readers".into(), description: "verif".into(), members: vec![who.to_string()] }, SYSTEM_PRINCIPAL)
                    .await
                    .map_err(gerr("put_group (extra)"))?;
                gov.create_grant(grant("", &gid, false), SYSTEM_PRINCIPAL).await.map_err(gerr("create_grant (extra, group)"))?;
            }
            "policy" => policy.push(PolicyStatement {
                effect: "allow".into(),
                principals: vec![who.to_string()],
                actions: x.actions.clone(),
                resource: x.scope(),
                conditions: x.conditions(),
                constraints: x.constraints(),
                ..Default::default()
            }),
            _ => {
                let lead = format!("kip:principal:lead-extra{i}{tag}");
                principal(nx, &lead).await?;
                gov.create_grant(grant(&lead, "", true), SYSTEM_PRINCIPAL).await.map_err(gerr("create_grant (extra, delegable)"))?;
                gov.create_delegation(
                    DelegationDraft {
                        space_id: DEFAULT_SPACE.into(),
                        delegator_principal: lead.clone(),
                        delegate_principal: who.to_string(),
                        actions: x.actions.clone(),
                        scope: x.scope(),
                        conditions: x.conditions(),
                        constraints: x.constraints(),
                        ..Default::default()
                    },
                    &lead,
                )
                .await
                .map_err(gerr("create_delegation (extra)"))?;
            }
        }
    }
    Ok(())
}

/// The whole control-plane part of a configuration: p, a stranger, optional deny statement.
async fn configure(nx: &CognitiveNexus, cfg: &GovCfg) -> Result<(Installed, Vec<PolicyStatement>), String> {
    let mut policy = vec![];
    if let Some(l) = cfg.deny_label {
        // the deny reaches p by name, or through a group p belongs to that confers nothing:
        // either way it wins over every allow, whatever source the allow comes from
        let (principals, groups) = if cfg.deny_via_group {
            principal(nx, P).await?;
            nx.governance()
                .put_group(GroupDraft { group_id: DENIED_GROUP.into(), name: "denied".into(), description: "verif".into(), members: vec![P.to_string()] }, SYSTEM_PRINCIPAL)
                .await
                .map_err(gerr("put_group (denied)"))?;
            (vec![], vec![DENIED_GROUP.to_string()])
        } else {
            (vec![P.to_string()], vec![])
        };
        policy.push(PolicyStatement {
            effect: "deny".into(),
            principals,
            groups,
            actions: vec!["read".into()],
            resource: AuthorityScope { classifications: vec![l.to_string()], ..Default::default() },
            ..Default::default()
        });
    }
    let inst = install(nx, cfg, P, "", &mut policy).await?;
    principal(nx, STRANGER).await?;
    if !policy.is_empty() {
        set_policy(nx, policy.clone()).await?;
    }
    Ok((inst, policy))
}

fn session(nx: &CognitiveNexus, who: &str) -> Session {
    nx.session(AuthContext::principal(who))
}

/// Whether `field` of elements of `kind` is certainly hidden from p: some source lets p read
/// the kind, and EVERY source that does carries a mask that leaves the field out (whichever of
/// them the engine selects for an element, and even if it showed the union of their masks).
fn masks(cfg: &GovCfg, kind: &str, field: &str) -> bool {
    let mut reached = false;
    for (kinds, fields) in cfg.read_sources() {
        if !kinds.is_empty() && !kinds.iter().any(|k| k == kind) {
            continue;
        }
        reached = true;
        if fields.is_empty() || fields.iter().any(|f| f == field) {
            return false;
        }
    }
    reached
}

/// Reference members that vary under a mask: (tag, element kind, view key of the member).
const LINK_MEMBERS: [(&str, &str, &str); 6] = [
    ("subject", "proposition", "subject"),
    ("object", "proposition", "object"),
    ("proposition_id", "assertion", "proposition_id"),
    ("asserted_by", "assertion", "asserted_by"),
    ("evidence_refs", "assertion", "evidence_refs"),
    ("source_refs", "evidence", "source_refs"),
];

async fn space_seq(nx: &CognitiveNexus) -> Result<u64, String> {
    Ok(nx.store.get_space(DEFAULT_SPACE).await.map_err(gerr("get_space"))?.seq)
}

/// Builds one instance: governance first (so that ids of governance rows coincide), then the
/// population. `variant` selects the column of the values that differ; `mode` says which values
/// those are; `tail` appends the extra hidden elements (mode HiddenElements only).
async fn build(name: &str, script: &Script, cfg: &GovCfg, variant: usize, tail: bool, mode: Mode, hidden_as: &HiddenAs) -> Result<(World, Installed, Vec<PolicyStatement>), String> {
    let nx = fresh_nexus(name).await?;
    let (inst, policy) = configure(&nx, cfg).await?;
    let masked_mode = mode == Mode::MaskedFields;
    let mut w = World {
        nx,
        sym: BTreeMap::new(),
        vary_hidden: !masked_mode,
        vary_attrs: masked_mode && masks(cfg, "concept", "attributes"),
        vary_facets: masked_mode && masks(cfg, "concept", "facets"),
        vary_stance: masked_mode && masks(cfg, "assertion", "stance"),
        vary_confidence: masked_mode && masks(cfg, "assertion", "confidence"),
        vary_mode: masked_mode && masks(cfg, "assertion", "mode"),
        vary_name: masked_mode && masks(cfg, "concept", "name"),
        vary_key: masked_mode && masks(cfg, "concept", "key"),
        vary_links: LINK_MEMBERS.iter().filter(|(_, kind, field)| masked_mode && masks(cfg, kind, field)).map(|(tag, _, _)| *tag).collect(),
        base_seq: 0,
        start_seq: 0,
        hidden_as: hidden_as.clone(),
    };
    w.start_seq = space_seq(&w.nx).await?;
    run_steps(&mut w, script, &script.steps, variant).await?;
    w.base_seq = space_seq(&w.nx).await?;
    if w.base_seq != w.start_seq + script.steps.len() as u64 {
        return Err(format!("the script's {} steps took {} commits", script.steps.len(), w.base_seq - w.start_seq));
    }
    if tail && !masked_mode {
        run_steps(&mut w, script, &script.tail, variant).await?;
    }
    Ok((w, inst, policy))
}

/// Pads the instance with commits that touch only a hidden element until its Space sequence is
/// `target`. The number of commits a Space has seen is not an element: every receipt, snapshot
/// and search answer discloses the sequence by design (Spec 5.4, 78), so S1 and S2 are built with
/// the SAME number of commits and every sequence-valued field is then compared exactly.
async fn pad_to(w: &World, target: u64) -> Result<u64, String> {
    let owner = w.nx.system_session();
    let mut n = 0;
    loop {
        let seq = space_seq(&w.nx).await?;
        if seq == target {
            return Ok(n);
        }
        if seq > target || n > 400 {
            return Err(format!("padding cannot reach sequence {target} (at {seq} after {n} commits)"));
        }
        n += 1;
        exec_ok(&owner, "UPDATE :t SET ATTRIBUTES {rank: :rank}", &json!({"t": w.id(PAD), "rank": n})).await?;
        if space_seq(&w.nx).await? != seq + 1 {
            return Err("a padding commit did not advance the Space sequence by one".into());
        }
    }
}

// ---------------------------------------------------------------------------------------------
// the query battery

#[derive(Clone, Debug)]
struct Q {
    family: &'static str,
    cmd: String,
    params: Vec<(String, PVal)>,
    /// page with LIMIT/CURSOR until exhaustion (the command contains `LIMIT :lim` and the cursor
    /// clause is appended)
    paged: Option<u64>,
    /// the paged walk follows a change feed: the command reads `CHANGES SINCE :cur LIMIT :lim` and
    /// every answer's `next_cursor` is the next `:cur` (the first one is the parameter `cur`)
    since: bool,
    /// the request carries `read.snapshot_token` for the coordinate right after this script step
    token_of_step: Option<usize>,
}

fn q(family: &'static str, cmd: &str) -> Q {
    Q { family, cmd: cmd.to_string(), params: vec![], paged: None, since: false, token_of_step: None }
}
fn qp(family: &'static str, cmd: &str, params: Vec<(&str, PVal)>) -> Q {
    Q { family, cmd: cmd.to_string(), params: params.into_iter().map(|(k, v)| (k.to_string(), v)).collect(), paged: None, since: false, token_of_step: None }
}

/// `links`: with the entries that select on reference members a mask can hide (the tuple of a
/// proposition, what an assertion is about / by / cites) - the non-interference monitor only.
fn battery(rng: &mut Rng, s: &Script, links: bool) -> Vec<Q> {
    let mut b = vec![];
    let lit = |v: Value| PVal::Lit(v);
    let word = |rng: &mut Rng| rng.pick(&WORDS).to_string();
    let hidden_persons: Vec<String> = s.persons.iter().filter(|p| s.hidden.contains(*p)).cloned().collect();
    let any_person = |rng: &mut Rng| rng.pick(&s.persons).clone();
    // --- element patterns
    b.push(q("element", r#"FIND(?c) WHERE { ?c CONCEPT {type: "Person"} }"#));
    b.push(q("element", r#"FIND(?c.id, ?c.name, ?c.attributes.rank) WHERE { ?c CONCEPT {} }"#));
    b.push(q("element", r#"FIND(?a) WHERE { ?a ASSERTION {} }"#));
    b.push(q("element", r#"FIND(?e.id, ?e.payload) WHERE { ?e EVIDENCE {} }"#));
    b.push(q("element", r#"FIND(?a.id, ?a.confidence) WHERE { ?a ASSERTION {stance: "support"} }"#));
    b.push(qp("element", r#"FIND(?c) WHERE { ?c CONCEPT {name: :n} }"#, vec![("n", lit(json!(format!("{} {}", word(rng), word(rng)))))]));
    for p in hidden_persons.iter().take(2) {
        b.push(qp("element_by_id", r#"FIND(?c) WHERE { ?c CONCEPT {id: :id} }"#, vec![("id", PVal::Id(p.clone()))]));
    }
    // ids that exist in the bigger instance only (hidden there), or nowhere
    for id in ["C-900", "P-900"] {
        b.push(qp("element_by_id", r#"FIND(?c) WHERE { ?c CONCEPT {id: :id} }"#, vec![("id", lit(json!(id)))]));
    }
    b.push(qp("element_by_id", r#"FIND(?c.name) WHERE { ?c CONCEPT {id: :id} }"#, vec![("id", PVal::Id(any_person(rng)))]));
    // --- tuple patterns
    for pred in ["prefers", "mentions", "status"] {
        b.push(q("tuple", &format!(r#"FIND(?p.id, ?s.name, ?o.name) WHERE {{ ?p PROPOSITION (?s, "{pred}", ?o) }}"#)));
    }
    b.push(q("tuple", r#"FIND(?p) WHERE { ?p PROPOSITION (?s, ?pred, ?o) }"#));
    b.push(qp("tuple", r#"FIND(?o.id, ?o.name) WHERE { (:s, "prefers", ?o) }"#, vec![("s", PVal::Ref(any_person(rng)))]));
    b.push(qp("tuple", r#"FIND(?s.id) WHERE { (?s, ?pred, :o) }"#, vec![("o", PVal::Ref(any_person(rng)))]));
    b.push(q("tuple", r#"FIND(?a.id, ?p.id, ?actor.name) WHERE { ?a ASSERTION {proposition: ?p, asserted_by: ?actor} }"#));
    // --- paths
    b.push(q("path", r#"FIND(?x.id, ?y.id) WHERE { (?x, "prefers"{1,3}, ?y) }"#));
    b.push(q("path", r#"FIND(?x.name, ?y.name) WHERE { (?x, "prefers" | "mentions", ?y) }"#));
    b.push(qp("path", r#"FIND(?y.id) WHERE { (:x, "mentions"{0,2}, ?y) }"#, vec![("x", PVal::Ref(any_person(rng)))]));
    // --- OPTIONAL / NOT / UNION
    b.push(q("optional_not", r#"FIND(?c.id, ?o.id) WHERE { ?c CONCEPT {type: "Person"} OPTIONAL { (?c, "prefers", ?o) } }"#));
    b.push(q("optional_not", r#"FIND(?c.id) WHERE { ?c CONCEPT {type: "Person"} NOT { (?c, "prefers", ?o) } }"#));
    b.push(q("optional_not", r#"FIND(?c.id) WHERE { ?c CONCEPT {type: "Person"} NOT { (?s, "mentions", ?c) } }"#));
    b.push(q("optional_not", r#"FIND(?c.id, ?a.id) WHERE { ?c CONCEPT {type: "Person"} OPTIONAL { ?a ASSERTION {asserted_by: ?c} } }"#));
    b.push(q("optional_not", r#"FIND(?p.id) WHERE { ?p PROPOSITION (?s, ?pred, ?o) NOT { ?a ASSERTION {proposition: ?p} } }"#));
    b.push(q("optional_not", r#"FIND(?x.id) WHERE { ?x CONCEPT {type: "Person"} UNION { ?x ASSERTION {stance: "reject"} } }"#));
    // --- FILTER
    let k = rng.below(100);
    b.push(qp("filter", r#"FIND(?c.id) WHERE { ?c CONCEPT {type: "Person"} FILTER(?c.attributes.rank > :k) }"#, vec![("k", lit(json!(k)))]));
    b.push(qp("filter", r#"FIND(?c.id) WHERE { ?c CONCEPT {} FILTER(CONTAINS(?c.name, :w)) }"#, vec![("w", lit(json!(word(rng))))]));
    b.push(q("filter", r#"FIND(?a.id) WHERE { ?a ASSERTION {} FILTER(?a.confidence >= 0.5) }"#));
    b.push(q("filter", r#"FIND(?c.id) WHERE { ?c CONCEPT {} FILTER(?c.facets["MnemonicState"].memory_strength < 0.5) }"#));
    b.push(qp("filter", r#"FIND(?c.id) WHERE { ?c CONCEPT {} FILTER(?c.attributes.nickname == :n) }"#, vec![("n", lit(json!(format!("nick{}", rng.below(50)))))]));
    b.push(q("filter", r#"FIND(?s.id) WHERE { (?s, "prefers", ?o) FILTER(?o.attributes.rank >= 50) }"#));
    b.push(q("filter", r#"FIND(?s.id) WHERE { (?s, ?p, ?o) FILTER(IS_NULL(?o.name)) }"#));
    // --- aggregates
    b.push(q("aggregate", r#"FIND(COUNT(?c)) WHERE { ?c CONCEPT {type: "Person"} }"#));
    b.push(q("aggregate", r#"FIND(COUNT(?a)) WHERE { ?a ASSERTION {} }"#));
    b.push(q("aggregate", r#"FIND(COUNT(DISTINCT ?o)) WHERE { (?s, ?p, ?o) }"#));
    b.push(q("aggregate", r#"FIND(SUM(?c.attributes.rank), AVG(?c.attributes.rank), MIN(?c.attributes.rank), MAX(?c.attributes.rank)) WHERE { ?c CONCEPT {type: "Person"} }"#));
    b.push(q("aggregate", r#"FIND(MAX(?a.confidence), COUNT(?a)) WHERE { ?a ASSERTION {stance: "support"} }"#));
    b.push(q("aggregate", r#"FIND(COUNT(?p)) WHERE { ?p PROPOSITION (?s, ?pred, ?o) }"#));
    // --- ORDER BY (also on fields that may be masked for p)
    b.push(q("order_by", r#"FIND(?c.id) WHERE { ?c CONCEPT {type: "Person"} } ORDER BY ?c.attributes.rank DESC"#));
    b.push(q("order_by", r#"FIND(?c.id) WHERE { ?c CONCEPT {} } ORDER BY ?c.name ASC, ?c.id DESC LIMIT 3"#));
    b.push(q("order_by", r#"FIND(?a.id) WHERE { ?a ASSERTION {} } ORDER BY ?a.confidence DESC LIMIT 2"#));
    b.push(q("order_by", r#"FIND(?c.id) WHERE { ?c CONCEPT {} } ORDER BY ?c.facets["MnemonicState"].memory_strength ASC"#));
    b.push(q("order_by", r#"FIND(?s.id, ?o.id) WHERE { (?s, ?p, ?o) } ORDER BY ?o.attributes.rank DESC, ?s.id ASC"#));
    b.push(q("order_by", r#"FIND(?c.id) WHERE { ?c CONCEPT {} } ORDER BY ?c._system.version DESC, ?c.id ASC"#));
    // --- paging to exhaustion
    let lim = 1 + rng.below(3);
    b.push(Q { paged: Some(lim), ..q("paging", r#"FIND(?c.id, ?c.name) WHERE { ?c CONCEPT {} } ORDER BY ?c.attributes.rank DESC LIMIT :lim"#) });
    b.push(Q { paged: Some(lim), ..q("paging", r#"FIND(?p.id) WHERE { ?p PROPOSITION (?s, ?pred, ?o) } LIMIT :lim"#) });
    b.push(Q { paged: Some(2), ..q("paging", r#"FIND(?a.id) WHERE { ?a ASSERTION {} } ORDER BY ?a.confidence ASC LIMIT :lim"#) });
    // --- SEARCH
    for kind in ["CONCEPT", "COGNITION", "EVIDENCE", "ASSERTION", "PROPOSITION"] {
        b.push(qp("search", &format!("SEARCH {kind} :term"), vec![("term", lit(json!(word(rng))))]));
    }
    b.push(qp("search", "SEARCH CONCEPT :term LIMIT 1", vec![("term", lit(json!(word(rng))))]));
    b.push(qp("search", r#"SEARCH CONCEPT :term WITH TYPE "Person" MODE "keyword" LIMIT 3"#, vec![("term", lit(json!(format!("{} {}", word(rng), word(rng)))))]));
    b.push(q("search", r#"SEARCH CONCEPT "tail""#));
    b.push(Q { paged: Some(1), ..qp("search", "SEARCH CONCEPT :term LIMIT :lim", vec![("term", lit(json!(word(rng))))]) });
    // --- probes of a field that may be masked for p: the nickname a visible person has in S1
    for (i, _) in s.masked_nicks.iter().take(2) {
        let nick = s.hidden_vals[0][*i].clone();
        b.push(qp("masked_probe", "SEARCH CONCEPT :term", vec![("term", lit(nick.clone()))]));
        b.push(qp("masked_probe", r#"FIND(?c.id) WHERE { ?c CONCEPT {} FILTER(?c.attributes.nickname == :n) }"#, vec![("n", lit(nick.clone()))]));
        b.push(qp("masked_probe", r#"FIND(COUNT(?c)) WHERE { ?c CONCEPT {} FILTER(STARTS_WITH(?c.attributes.nickname, :n)) }"#, vec![("n", lit(nick))]));
    }
    // --- element patterns that constrain an INDEXED member a mask can hide (the index answers from
    // the stored row): name / key of a visible person as they are in S1, stance / mode / status of
    // assertions; bare, counted, negated, optional, in a union, paged, exported
    for i in s.masked_names.iter().take(2) {
        let n = s.hidden_vals[0][*i].clone();
        b.push(qp("masked_pattern", r#"FIND(?c.id) WHERE { ?c CONCEPT {name: :n} }"#, vec![("n", lit(n.clone()))]));
        b.push(qp("masked_pattern", r#"FIND(COUNT(?c)) WHERE { ?c CONCEPT {type: "Person", name: :n} }"#, vec![("n", lit(n))]));
    }
    for i in s.masked_keys.iter().take(2) {
        let k = s.hidden_vals[0][*i].clone();
        b.push(qp("masked_pattern", r#"FIND(?c.id) WHERE { ?c CONCEPT {type: "Person", key: :k} }"#, vec![("k", lit(k.clone()))]));
        b.push(qp("masked_pattern", r#"FIND(?c.id) WHERE { ?c CONCEPT {type: "Person"} NOT { ?c CONCEPT {key: :k} } }"#, vec![("k", lit(k.clone()))]));
        b.push(qp("masked_pattern", r#"FIND(?p.id, ?c.id) WHERE { ?p PROPOSITION (?s, "prefers", ?o) OPTIONAL { ?c CONCEPT {key: :k} } }"#, vec![("k", lit(k))]));
    }
    b.push(q("masked_pattern", r#"FIND(?a.id) WHERE { ?a ASSERTION {stance: "reject"} }"#));
    b.push(q("masked_pattern", r#"FIND(COUNT(?a)) WHERE { ?a ASSERTION {stance: "support", mode: "observed"} }"#));
    b.push(q("masked_pattern", r#"FIND(?a.id) WHERE { ?a ASSERTION {mode: "stated"} }"#));
    b.push(q("masked_pattern", r#"FIND(COUNT(?a)) WHERE { ?a ASSERTION {mode: "observed"} }"#));
    b.push(q("masked_pattern", r#"FIND(?a.id) WHERE { ?a ASSERTION {status: "active", stance: "support"} }"#));
    b.push(q("masked_pattern", r#"FIND(?a.id) WHERE { ?a ASSERTION {} NOT { ?a ASSERTION {stance: "reject"} } }"#));
    b.push(q("masked_pattern", r#"FIND(?c.id) WHERE { ?c CONCEPT {type: "Person"} NOT { ?a ASSERTION {asserted_by: ?c, mode: "stated"} } }"#));
    b.push(q("masked_pattern", r#"FIND(?p.id, ?a.id) WHERE { ?p PROPOSITION (?s, ?pred, ?o) OPTIONAL { ?a ASSERTION {proposition: ?p, stance: "support"} } }"#));
    b.push(q("masked_pattern", r#"FIND(?x.id) WHERE { ?x ASSERTION {mode: "stated"} UNION { ?x ASSERTION {stance: "reject", mode: "observed"} } }"#));
    b.push(Q { paged: Some(1), ..q("masked_pattern", r#"FIND(?a.id) WHERE { ?a ASSERTION {stance: "support"} } ORDER BY ?a.id ASC LIMIT :lim"#) });
    b.push(q("masked_pattern", r#"EXPORT CAPSULE ?a WHERE { ?a ASSERTION {stance: "reject"} }"#));
    if let Some(p) = s.props.first() {
        b.push(qp("masked_pattern", r#"FIND(?a.id) WHERE { ?a ASSERTION {proposition: :p, stance: "support"} }"#, vec![("p", PVal::Id(p.clone()))]));
    }
    if links {
        link_battery(&mut b, s);
        // paged walks (CURSOR > 0) over a term that a hidden crowd of the bigger instance outranks
        if let Some(w) = &s.crowd_word {
            for lim in [1, 2] {
                b.push(Q { paged: Some(lim), ..qp("search", "SEARCH CONCEPT :term LIMIT :lim", vec![("term", lit(json!(w)))]) });
            }
            b.push(Q { paged: Some(1), ..qp("search", "SEARCH COGNITION :term LIMIT :lim", vec![("term", lit(json!(w)))]) });
        }
    }
    // --- the first element only the bigger instance has (hidden there)
    let ghost = s.first_tail_concept.clone();
    b.push(qp("tail_element", r#"FIND(?c) WHERE { ?c CONCEPT {id: :id} }"#, vec![("id", lit(json!(ghost)))]));
    b.push(qp("tail_element", "HISTORY ELEMENT :id", vec![("id", lit(json!(ghost)))]));
    b.push(qp("tail_element", r#"EXPORT CAPSULE ?c WHERE { ?c CONCEPT {id: :id} }"#, vec![("id", lit(json!(ghost)))]));
    b.push(qp("tail_element", r#"FIND(?p.id) WHERE { ?p PROPOSITION (:s, ?pred, ?o) }"#, vec![("s", lit(json!({"id": ghost})))]));
    // --- transactions after the common part: hidden-only commits in both instances
    for k in 1..=3 {
        b.push(qp("tail_tx", "DESCRIBE TRANSACTION :tx", vec![("tx", PVal::TailTx(k))]));
    }
    b.push(qp("tail_tx", r#"FIND(?c.id, ?c.name) WHERE { ?c CONCEPT {} } AS OF TX :tx"#, vec![("tx", PVal::TailTx(1))]));
    // --- HISTORY / CHANGES / SNAPSHOT
    b.push(q("history", "HISTORY SPACE"));
    b.push(Q { paged: Some(2), ..q("history", "HISTORY SPACE LIMIT :lim") });
    b.push(q("history", "HISTORY SPACE FROM SEQ 3 TO SEQ 12"));
    for p in hidden_persons.iter().take(1) {
        b.push(qp("history", "HISTORY ELEMENT :id", vec![("id", PVal::Id(p.clone()))]));
    }
    b.push(qp("history", "HISTORY ELEMENT :id", vec![("id", PVal::Id(any_person(rng)))]));
    b.push(qp("history", "HISTORY ELEMENT :id", vec![("id", lit(json!("C-900")))]));
    b.push(q("changes", "CHANGES AFTER SEQ 0"));
    b.push(q("changes", "CHANGES AFTER SEQ 0 LIMIT 3"));
    b.push(qp("changes", "CHANGES AFTER SEQ :s LIMIT 50", vec![("s", lit(json!(2 + rng.below(10))))]));
    b.push(q("as_of", r#"FIND(?c.id, ?c.attributes.rank) WHERE { ?c CONCEPT {} } AS OF SEQ 6"#));
    b.push(q("as_of", r#"FIND(COUNT(?c)) WHERE { ?c CONCEPT {} } AS OF SEQ 4"#));
    // the coordinate at which a hidden element had just been written and not yet been classified
    for (step, kind) in s.hidden_creations.iter().filter(|(_, k)| *k == "concept").take(2).chain(s.hidden_creations.iter().filter(|(_, k)| *k == "evidence").take(1)) {
        let cmd = if *kind == "concept" {
            r#"FIND(?c.id, ?c.name, ?c.attributes.rank) WHERE { ?c CONCEPT {} } AS OF SEQ :s"#
        } else {
            r#"FIND(?e.id, ?e.payload) WHERE { ?e EVIDENCE {} } AS OF SEQ :s"#
        };
        b.push(qp("as_of_before_classification", cmd, vec![("s", PVal::SeqOfStep(*step))]));
    }
    if let Some((step, _)) = s.hidden_creations.iter().find(|(_, k)| *k == "concept") {
        b.push(qp("as_of_before_classification", r#"FIND(COUNT(?c), MAX(?c.attributes.rank)) WHERE { ?c CONCEPT {type: "Person"} } AS OF SEQ :s"#, vec![("s", PVal::SeqOfStep(*step))]));
        b.push(qp("as_of_before_classification", r#"EXPORT CAPSULE ?c WHERE { ?c CONCEPT {} } AS OF SEQ :s"#, vec![("s", PVal::SeqOfStep(*step))]));
    }
    b.push(q("sequence", "SNAPSHOT"));
    b.push(q("sequence", "DESCRIBE SPACE"));
    b.push(q("sequence", "DESCRIBE SNAPSHOT"));
    // --- every entry point that answers from the journal, the version log or the change feed
    journal_battery(&mut b, s, links);
    // --- EXPORT
    b.push(q("export", r#"EXPORT CAPSULE ?c WHERE { ?c CONCEPT {type: "Person"} }"#));
    b.push(q("export", r#"EXPORT CAPSULE ?a WHERE { ?a ASSERTION {} } WITH {closure: "referential", provenance_depth: 2}"#));
    b.push(qp("export", r#"EXPORT CAPSULE ?c WHERE { ?c CONCEPT {id: :id} } WITH {closure: "referential"}"#, vec![("id", PVal::Id(any_person(rng)))]));
    b.push(q("export", r#"EXPORT CAPSULE ?c WHERE { ?c CONCEPT {} } AS OF SEQ 6"#));
    // --- DESCRIBE / LIST
    for c in ["DESCRIBE PRIMER", r#"DESCRIBE PRIMER MODE "full""#, "DESCRIBE ACCESS", "DESCRIBE EXECUTION CONTEXT", "DESCRIBE SCHEMA ENVIRONMENT",
        "LIST TYPES", "LIST SPACES", "LIST SCHEMA PACKAGES", r#"DESCRIBE ACCESS WITH {operation: "read", kind: "concept"}"#] {
        b.push(q("describe_list", c));
    }
    b.push(qp("describe_list", "DESCRIBE TRANSACTION :tx", vec![("tx", lit(json!(format!("{DEFAULT_SPACE}#{}", 2 + rng.below(12)))))]));
    // --- BELIEF (hidden assertions must contribute nothing)
    b.push(q("belief", r#"FIND(?p.id, ?b.status, ?b.support, ?b.opposition, ?b.explanation) WHERE { ?p PROPOSITION (?s, ?pred, ?o) ?b BELIEF (?p) }"#));
    for p in s.props.iter().take(2) {
        b.push(qp("belief", r#"FIND(?b) WHERE { ?b BELIEF (id: :p) }"#, vec![("p", PVal::Id(p.clone()))]));
    }
    b.push(qp("belief", r#"FIND(?slot) WHERE { ?slot BELIEF SLOT (:s, "status") }"#, vec![("s", PVal::Id(any_person(rng)))]));
    // --- PREVIEW computes an effect over real state
    b.push(qp("preview", "PREVIEW KML :cmd", vec![("cmd", lit(json!(r#"ARCHIVE ?c WHERE { ?c CONCEPT {type: "Person"} } LIMIT 50"#)))]));
    b
}

/// Family `journal`: the transactions of the journal block (all-visible, mixed, all-hidden; keyed
/// and unkeyed) asked about through EVERY entry point that answers from the transaction journal,
/// the version log or the change feed (Spec 68 and meta/history.rs, describe.rs, kql bind_read):
///  * one journal row: `DESCRIBE TRANSACTION <id>`, `DESCRIBE TRANSACTION BY IDEMPOTENCY KEY <key>`
///    (every transaction / every key of the block, a key two transactions share, a key never used);
///  * chronology: `HISTORY SPACE` / `HISTORY ELEMENT <id>` (a visible element, the hidden ones) over
///    an exact sequence, a range, open-ended, with LIMIT, with a CURSOR of its own, paged to the end;
///  * the change feed: `CHANGES AFTER SEQ` (unlimited, LIMIT 1 right before one transaction, LIMIT
///    2 / 3) and `CHANGES SINCE <cursor>` walked by `next_cursor` to the end;
///  * coordinates: `SNAPSHOT` / `DESCRIBE SNAPSHOT` / `DESCRIBE SCHEMA ENVIRONMENT` AS OF TX (of a
///    hidden-only transaction) / SEQ / TIME (long ago, far ahead);
///  * the version log: `FIND .. AS OF TX | SEQ | TIME`, `EXPORT CAPSULE .. AS OF TX`, and a plain
///    FIND in a request that carries `read.snapshot_token` - at the coordinate where the hidden
///    Concept of the block had just been created and was not yet classified, and at a hidden-only one.
fn journal_battery(b: &mut Vec<Q>, s: &Script, full: bool) {
    journal_battery_full(b, s);
    if !full {
        // the timeline / delegation monitors (one instance, many sessions and phases)
        thin_journal(b, 5);
    }
}

/// Keeps every k-th entry of the journal family: lookups by id and by key, chronology, feed and
/// version log still mix, over all-visible, mixed and all-hidden transactions.
fn thin_journal(b: &mut Vec<Q>, k: usize) {
    let mut n = 0;
    b.retain(|q| {
        if q.family != "journal" {
            return true;
        }
        n += 1;
        n % k == 1
    });
}

fn journal_battery_full(b: &mut Vec<Q>, s: &Script) {
    let (Some(first), Some(last)) = (s.journal.first().map(|j| j.step), s.journal.last().map(|j| j.step)) else { return };
    let lit = |v: Value| PVal::Lit(v);
    let step_of = |tag: &str| s.journal.iter().find(|j| j.tag == tag).map(|j| j.step).unwrap_or(first);
    let mut keys_seen = BTreeSet::new();
    for j in &s.journal {
        b.push(qp("journal", "DESCRIBE TRANSACTION :tx", vec![("tx", PVal::TxOfStep(j.step))]));
        if let Some(k) = j.key.as_ref().filter(|k| keys_seen.insert((*k).clone())) {
            b.push(qp("journal", "DESCRIBE TRANSACTION BY IDEMPOTENCY KEY :key", vec![("key", lit(json!(k)))]));
        }
    }
    b.push(q("journal", r#"DESCRIBE TRANSACTION BY IDEMPOTENCY KEY "job:never-sent""#));
    // one transaction of each class: the exact range, and the first entry the feed delivers after the commit before it
    for tag in ["mixed", "hidden", "hidden_create"] {
        let i = step_of(tag);
        b.push(qp("journal", "HISTORY SPACE FROM SEQ :s TO SEQ :s", vec![("s", PVal::SeqOfStep(i))]));
        b.push(qp("journal", "CHANGES AFTER SEQ :s LIMIT 1", vec![("s", PVal::SeqBeforeStep(i))]));
    }
    let (a, z, a0) = (PVal::SeqOfStep(first), PVal::SeqOfStep(last), PVal::SeqBeforeStep(first));
    let (vis, pad, vault) = (PVal::Id(s.journal_visible.clone()), PVal::Id(PAD.to_string()), PVal::Id(s.vault.clone()));
    // --- chronology
    b.push(qp("journal", "HISTORY SPACE FROM SEQ :a TO SEQ :z", vec![("a", a.clone()), ("z", z.clone())]));
    b.push(qp("journal", "HISTORY SPACE FROM SEQ :a", vec![("a", a.clone())]));
    b.push(Q { paged: Some(3), ..qp("journal", "HISTORY SPACE FROM SEQ :a TO SEQ :z LIMIT :lim", vec![("a", a.clone()), ("z", z.clone())]) });
    b.push(qp("journal", "HISTORY SPACE FROM SEQ :a LIMIT 2 CURSOR 1", vec![("a", a.clone())]));
    b.push(qp("journal", "HISTORY SPACE FROM SEQ :a TO SEQ :z LIMIT 4 CURSOR :c", vec![("a", a.clone()), ("z", z.clone()), ("c", lit(json!("2")))]));
    b.push(qp("journal", "HISTORY ELEMENT :id FROM SEQ :a TO SEQ :z", vec![("id", vis.clone()), ("a", a.clone()), ("z", z.clone())]));
    b.push(Q { paged: Some(1), ..qp("journal", "HISTORY ELEMENT :id FROM SEQ :a LIMIT :lim", vec![("id", vis.clone()), ("a", a.clone())]) });
    b.push(qp("journal", "HISTORY ELEMENT :id", vec![("id", pad.clone())]));
    b.push(qp("journal", "HISTORY ELEMENT :id", vec![("id", vault.clone())]));
    b.push(Q { paged: Some(1), ..qp("journal", "HISTORY ELEMENT :id LIMIT :lim", vec![("id", vault.clone())]) });
    b.push(qp("journal", "HISTORY ELEMENT :id FROM SEQ :s TO SEQ :s", vec![("id", vault.clone()), ("s", PVal::SeqOfStep(step_of("hidden_create")))]));
    // --- the change feed
    b.push(qp("journal", "CHANGES AFTER SEQ :s", vec![("s", a0.clone())]));
    b.push(qp("journal", "CHANGES AFTER SEQ :s LIMIT 2", vec![("s", a0.clone())]));
    b.push(qp("journal", "CHANGES AFTER SEQ :s LIMIT 3", vec![("s", PVal::SeqOfStep(step_of("visible")))]));
    b.push(Q { paged: Some(2), since: true, ..qp("journal", "CHANGES SINCE :cur LIMIT :lim", vec![("cur", a0.clone())]) });
    b.push(q("journal", r#"CHANGES SINCE "0" LIMIT 500"#));
    // --- coordinates
    let (tx_hidden, tx_mixed, tx_create) = (PVal::TxOfStep(step_of("hidden")), PVal::TxOfStep(step_of("mixed")), PVal::TxOfStep(step_of("hidden_create")));
    b.push(qp("journal", "SNAPSHOT AS OF TX :tx", vec![("tx", tx_hidden.clone())]));
    b.push(qp("journal", "SNAPSHOT AS OF SEQ :s", vec![("s", PVal::SeqOfStep(step_of("hidden_multi")))]));
    b.push(qp("journal", "DESCRIBE SNAPSHOT AS OF TX :tx", vec![("tx", tx_mixed.clone())]));
    b.push(q("journal", r#"SNAPSHOT AS OF TIME "2999-01-01T00:00:00Z""#));
    b.push(qp("journal", "SNAPSHOT AS OF TIME :t", vec![("t", lit(json!(LONG_AGO)))]));
    b.push(qp("journal", "DESCRIBE SCHEMA ENVIRONMENT AS OF TX :tx", vec![("tx", tx_hidden.clone())]));
    // --- the version log
    b.push(qp("journal", r#"FIND(?c.id, ?c.attributes.jr) WHERE { ?c CONCEPT {type: "Person"} } AS OF TX :tx"#, vec![("tx", tx_mixed.clone())]));
    b.push(qp("journal", r#"FIND(?c.id, ?c.name) WHERE { ?c CONCEPT {type: "Person"} } AS OF TX :tx"#, vec![("tx", tx_create.clone())]));
    b.push(qp("journal", r#"FIND(?c) WHERE { ?c CONCEPT {id: :id} } AS OF SEQ :s"#, vec![("id", vault.clone()), ("s", PVal::SeqOfStep(step_of("hidden_create")))]));
    b.push(qp("journal", r#"FIND(COUNT(?c), MAX(?c.attributes.jr)) WHERE { ?c CONCEPT {} } AS OF TX :tx"#, vec![("tx", tx_hidden.clone())]));
    b.push(q("journal", r#"FIND(?c.id, ?c.attributes.jr) WHERE { ?c CONCEPT {} } AS OF TIME "2999-01-01T00:00:00Z""#));
    b.push(qp("journal", r#"EXPORT CAPSULE ?c WHERE { ?c CONCEPT {type: "Person"} } AS OF TX :tx"#, vec![("tx", tx_create.clone())]));
    b.push(Q { token_of_step: Some(step_of("hidden_create")), ..q("journal", r#"FIND(?c.id, ?c.name, ?c.attributes.jr) WHERE { ?c CONCEPT {type: "Person"} }"#) });
    b.push(Q { token_of_step: Some(step_of("hidden_create")), ..qp("journal", r#"FIND(?c) WHERE { ?c CONCEPT {id: :id} }"#, vec![("id", vault.clone())]) });
}

/// Battery entries that select on REFERENCE members a field mask can hide. Every entry names the
/// values the member has in S1 (the same command goes to both instances).
///  * family `masked_tuple`: tuple patterns over a proposition whose subject / object differs
///    in S2 - bound subject, bound object (as reference and as id string), both bound,
///    both variables by predicate, a variable predicate; joined with element patterns; hop-quantified
///    and alternated paths through it; NOT / OPTIONAL / UNION / COUNT; ORDER BY + LIMIT and paging;
///    at a past coordinate; EXPORT with a tuple selection and with a referential closure; the
///    members read through the view by id;
///  * family `belief_tuple`: BELIEF named by such a tuple, BELIEF of what a tuple pattern bound,
///    BELIEF SLOT of its subject; BELIEF SLOT of a slot that holds one more, hidden, proposition
///    in the bigger instance (mode hidden_elements);
///  * family `masked_link`: assertions selected by the proposition they are about / the actor they
///    are by (bound, as variables, negated, counted), the evidence they cite and the source of an
///    evidence record (read, filtered, exported with a provenance closure).
fn link_battery(b: &mut Vec<Q>, s: &Script) {
    let last_step = s.steps.len() - 1;
    for (n, t) in s.masked_tuples.iter().take(2).enumerate() {
        let (subj, pred, obj) = t.s1.clone();
        let pred2 = PREDICATES.iter().find(|p| **p != pred).unwrap_or(&"mentions");
        let sp = || ("s", PVal::Ref(subj.clone()));
        let op = || ("o", PVal::Ref(obj.clone()));
        let mut add = |family: &'static str, cmd: String, params: Vec<(&str, PVal)>| b.push(qp(family, &cmd, params));
        add("masked_tuple", format!(r#"FIND(?o.id) WHERE {{ (:s, "{pred}", ?o) }}"#), vec![sp()]);
        add("masked_tuple", format!(r#"FIND(?s.id, ?s.name) WHERE {{ (?s, "{pred}", :o) }}"#), vec![op()]);
        add("masked_tuple", r#"FIND(?p.id, ?pred) WHERE { ?p PROPOSITION (:s, ?pred, :o) }"#.into(), vec![sp(), op()]);
        add("masked_tuple", format!(r#"FIND(?c.id, ?c.name) WHERE {{ ?c CONCEPT {{type: "Person"}} (?c, "{pred}", :o) }}"#), vec![op()]);
        add("masked_tuple", format!(r#"FIND(?y.id) WHERE {{ (:s, "{pred}"{{1,2}}, ?y) }}"#), vec![sp()]);
        add("masked_tuple", format!(r#"FIND(?c.id) WHERE {{ ?c CONCEPT {{type: "Person"}} NOT {{ (?c, "{pred}", :o) }} }}"#), vec![op()]);
        add("masked_tuple", r#"FIND(COUNT(?o)) WHERE { (:s, ?pred, ?o) }"#.into(), vec![sp()]);
        add("masked_tuple", format!(r#"EXPORT CAPSULE ?p WHERE {{ ?p PROPOSITION (:s, "{pred}", ?o) }}"#), vec![sp()]);
        add("belief_tuple", format!(r#"FIND(?b.status) WHERE {{ ?b BELIEF (:s, "{pred}", :o) }}"#), vec![sp(), op()]);
        if n > 0 {
            continue;
        }
        // the first such proposition gets the long list
        add("masked_tuple", format!(r#"FIND(?s.id) WHERE {{ (?s, "{pred}", :oid) }}"#), vec![("oid", PVal::Id(obj.clone()))]);
        add("masked_tuple", format!(r#"FIND(?p.id) WHERE {{ ?p PROPOSITION (:s, "{pred}", :o) }}"#), vec![sp(), op()]);
        add("masked_tuple", format!(r#"FIND(?s.id, ?o.id) WHERE {{ (?s, "{pred}", ?o) }}"#), vec![]);
        add("masked_tuple", format!(r#"FIND(?c.name) WHERE {{ (:s, "{pred}", ?c) ?c CONCEPT {{type: "Person"}} }}"#), vec![sp()]);
        add("masked_tuple", format!(r#"FIND(?a.id) WHERE {{ ?p PROPOSITION (:s, "{pred}", ?o) ?a ASSERTION {{proposition: ?p}} }}"#), vec![sp()]);
        add("masked_tuple", format!(r#"FIND(?x.id) WHERE {{ (?x, "{pred}"{{1,3}}, :o) }}"#), vec![op()]);
        add("masked_tuple", format!(r#"FIND(?y.id) WHERE {{ (:s, "{pred}"{{0,2}}, ?y) }}"#), vec![sp()]);
        add("masked_tuple", format!(r#"FIND(?x.id, ?y.id) WHERE {{ (?x, "{pred}"{{2,3}}, ?y) }}"#), vec![]);
        add("masked_tuple", format!(r#"FIND(?c.id) WHERE {{ ?c CONCEPT {{type: "Person"}} (?c, "{pred}"{{1,2}}, :o) }}"#), vec![op()]);
        add("masked_tuple", format!(r#"FIND(?y.id) WHERE {{ (:s, "{pred}" | "{pred2}", ?y) }}"#), vec![sp()]);
        add("masked_tuple", r#"FIND(?c.id) WHERE { ?c CONCEPT {type: "Person"} NOT { (:s, ?pred, ?c) } }"#.into(), vec![sp()]);
        add("masked_tuple", format!(r#"FIND(?c.id, ?p.id) WHERE {{ ?c CONCEPT {{type: "Person"}} OPTIONAL {{ ?p PROPOSITION (?c, "{pred}", :o) }} }}"#), vec![op()]);
        add("masked_tuple", format!(r#"FIND(?x.id) WHERE {{ (:s, "{pred}", ?x) UNION {{ (?x, "{pred}", :o) }} }}"#), vec![sp(), op()]);
        add("masked_tuple", format!(r#"FIND(COUNT(?p), COUNT(DISTINCT ?s)) WHERE {{ ?p PROPOSITION (?s, "{pred}", ?o) }}"#), vec![]);
        add("masked_tuple", format!(r#"FIND(?p.id) WHERE {{ ?p PROPOSITION (?s, "{pred}", ?o) }} ORDER BY ?o.id DESC LIMIT 1"#), vec![]);
        add("masked_tuple", format!(r#"FIND(?s.id) WHERE {{ (?s, "{pred}", ?o) }} ORDER BY ?s.name ASC, ?s.id ASC LIMIT 2"#), vec![]);
        add("masked_tuple", format!(r#"FIND(?o.id) WHERE {{ (:s, "{pred}", ?o) }} AS OF SEQ :seq"#), vec![sp(), ("seq", PVal::SeqOfStep(last_step))]);
        add("masked_tuple", format!(r#"EXPORT CAPSULE ?o WHERE {{ (:s, "{pred}", ?o) }}"#), vec![sp()]);
        add("masked_tuple", r#"EXPORT CAPSULE ?p WHERE { ?p PROPOSITION (id: :pid) } WITH {closure: "referential"}"#.into(), vec![("pid", PVal::Id(t.sym.clone()))]);
        add("masked_tuple", r#"FIND(?p.subject, ?p.predicate_ref, ?p.object) WHERE { ?p PROPOSITION (id: :pid) }"#.into(), vec![("pid", PVal::Id(t.sym.clone()))]);
        add("masked_tuple", r#"FIND(?p.id) WHERE { ?a ASSERTION {proposition: ?p} FILTER(IS_NULL(?p.object)) }"#.into(), vec![]);
        add("masked_tuple", "HISTORY ELEMENT :pid".into(), vec![("pid", PVal::Id(t.sym.clone()))]);
        add("belief_tuple", r#"FIND(?p.id, ?b.status) WHERE { ?p PROPOSITION (:s, ?pred, ?o) ?b BELIEF (?p) }"#.into(), vec![sp()]);
        add("belief_tuple", format!(r#"FIND(?slot) WHERE {{ ?slot BELIEF SLOT (:s, "{pred}") }}"#), vec![sp()]);
        b.push(Q { paged: Some(1), ..qp("masked_tuple", r#"FIND(?o.id) WHERE { (:s, ?pred, ?o) } ORDER BY ?o.id ASC LIMIT :lim"#, vec![sp()]) });
    }
    // --- a slot that holds one more proposition in the bigger instance, hidden there
    for (subj, pred) in s.tail_slots.iter().take(2) {
        b.push(qp("belief_tuple", &format!(r#"FIND(?slot) WHERE {{ ?slot BELIEF SLOT (:s, "{pred}") }}"#), vec![("s", PVal::Ref(subj.clone()))]));
        b.push(qp("belief_tuple", &format!(r#"FIND(COUNT(?p)) WHERE {{ ?p PROPOSITION (:s, "{pred}", ?o) }}"#), vec![("s", PVal::Ref(subj.clone()))]));
    }
    // --- what an assertion is about / by / cites, what an evidence record derives from
    for l in s.late.iter().filter(|l| l.prop.is_some()).take(2) {
        let (prop, actor) = (l.prop.clone().unwrap_or_default(), l.actor.clone().unwrap_or_default());
        b.push(qp("masked_link", r#"FIND(?a.id) WHERE { ?a ASSERTION {proposition: :p} }"#, vec![("p", PVal::Id(prop.clone()))]));
        b.push(qp("masked_link", r#"FIND(COUNT(?a)) WHERE { ?a ASSERTION {asserted_by: :c} }"#, vec![("c", PVal::Id(actor.clone()))]));
        b.push(qp("masked_link", r#"FIND(?a.id, ?a.proposition_id, ?a.asserted_by, ?a.evidence_refs) WHERE { ?a ASSERTION {id: :a} }"#, vec![("a", PVal::Id(l.sym.clone()))]));
        b.push(qp("masked_link", r#"EXPORT CAPSULE ?a WHERE { ?a ASSERTION {id: :a} } WITH {closure: "referential", provenance_depth: 2}"#, vec![("a", PVal::Id(l.sym.clone()))]));
        b.push(qp("masked_link", r#"FIND(?c.id) WHERE { ?c CONCEPT {type: "Person"} NOT { ?a ASSERTION {asserted_by: ?c, proposition: :p} } }"#, vec![("p", PVal::Id(prop.clone()))]));
        b.push(qp("masked_link", r#"FIND(?a.id) WHERE { ?p PROPOSITION (id: :p) ?a ASSERTION {proposition: ?p} }"#, vec![("p", PVal::Id(prop))]));
        if l.evidence.is_some() {
            b.push(q("masked_link", r#"FIND(?a.id, ?a.evidence_refs) WHERE { ?a ASSERTION {} FILTER(IS_NOT_NULL(?a.evidence_refs)) } ORDER BY ?a.evidence_refs ASC, ?a.id ASC"#));
        }
    }
    if !s.late.is_empty() {
        b.push(q("masked_link", r#"FIND(COUNT(DISTINCT ?p), COUNT(?a)) WHERE { ?a ASSERTION {proposition: ?p} }"#));
        b.push(q("masked_link", r#"FIND(?a.id, ?c.id) WHERE { ?a ASSERTION {asserted_by: ?c} } ORDER BY ?c.id ASC, ?a.id ASC LIMIT 3"#));
        b.push(q("masked_link", r#"FIND(?p.id) WHERE { ?p PROPOSITION (?s, ?pred, ?o) NOT { ?a ASSERTION {proposition: ?p, status: "active"} } }"#));
        b.push(q("belief_tuple", r#"FIND(?p.id, ?b.status) WHERE { ?a ASSERTION {proposition: ?p} ?b BELIEF (?p) }"#));
    }
    for l in s.late.iter().filter(|l| l.prop.is_none()) {
        b.push(qp("masked_link", r#"FIND(?e.id, ?e.source_refs) WHERE { ?e EVIDENCE {id: :e} }"#, vec![("e", PVal::Id(l.sym.clone()))]));
        b.push(qp("masked_link", r#"EXPORT CAPSULE ?e WHERE { ?e EVIDENCE {id: :e} } WITH {closure: "referential", provenance_depth: 2}"#, vec![("e", PVal::Id(l.sym.clone()))]));
        b.push(q("masked_link", r#"FIND(?e.id) WHERE { ?e EVIDENCE {} FILTER(IS_NOT_NULL(?e.source_refs)) }"#));
    }
}

/// Runs one battery entry as `sess`; the observable is the list of response envelopes (one per
/// page).
async fn observe(sess: &Session, w: &World, script: &Script, variant: usize, q: &Q) -> Value {
    let mut params = w.params(script, variant, &q.params);
    let envelope = match q.token_of_step {
        Some(i) => json!({"read": {"snapshot_token": snapshot_token(w.start_seq + i as u64 + 1)}}),
        None => Value::Null,
    };
    match q.paged {
        None => match exec_env(sess, &q.cmd, &params, &envelope).await {
            Ok(r) => response_json(&r),
            Err(e) => json!({"harness_parse_error": e}),
        },
        Some(lim) => {
            params["lim"] = json!(lim);
            let mut pages = vec![];
            let mut cursor: Option<String> = None;
            for _ in 0..60 {
                let mut cmd = q.cmd.clone();
                if let Some(c) = &cursor {
                    params["cur"] = json!(c);
                    if !q.since {
                        cmd.push_str(" CURSOR :cur");
                    }
                }
                let r = match exec_env(sess, &cmd, &params, &envelope).await {
                    Ok(r) => r,
                    Err(e) => {
                        pages.push(json!({"harness_parse_error": e}));
                        break;
                    }
                };
                let next = r.next_cursor.clone().or_else(|| r.results.first().and_then(|x| x.next_cursor.clone()));
                pages.push(response_json(&r));
                match next {
                    Some(n) if Some(&n) != cursor.as_ref() => cursor = Some(n),
                    _ => break,
                }
            }
            Value::Array(pages)
        }
    }
}

/// Replaces what legitimately differs between two runs of the same script: wall-clock instants.
/// (Established by building S1 twice; anything else that differs there is reported as unmasked
/// noise and the entry is not judged.)
fn mask(v: &Value) -> Value {
    match v {
        Value::String(s) => {
            let b = s.as_bytes();
            let ts = b.len() >= 20 && b[4] == b'-' && b[7] == b'-' && b[10] == b'T' && b[13] == b':' && b[0].is_ascii_digit() && (s.ends_with('Z') || s.contains('+'));
            if ts {
                json!("<instant>")
            } else if s.starts_with("sha3-256:") {
                // digests over content that embeds instants (capsule integrity block)
                json!("<digest>")
            } else {
                v.clone()
            }
        }
        Value::Array(a) => Value::Array(a.iter().map(mask).collect()),
        Value::Object(m) => Value::Object(m.iter().map(|(k, x)| (k.clone(), mask(x))).collect()),
        _ => v.clone(),
    }
}

/// Replaces the values under the given keys (at any depth).
fn mask_keys(v: &Value, keys: &[&str]) -> Value {
    match v {
        Value::Array(a) => Value::Array(a.iter().map(|x| mask_keys(x, keys)).collect()),
        Value::Object(m) => Value::Object(
            m.iter().map(|(k, x)| (k.clone(), if keys.contains(&k.as_str()) { json!("<masked>") } else { mask_keys(x, keys) })).collect(),
        ),
        _ => v.clone(),
    }
}

/// Space-level coordinates: they count commits, including commits that only touched elements the
/// caller may not read.
const SEQ_KEYS: [&str; 9] = ["snapshot_seq", "snapshot_token", "seq", "space_seq", "current_space_seq", "target_seq", "tx_id", "index_seq", "as_of_seq"];

/// The ids of a SEARCH answer's hits, sorted.
fn hit_ids(v: &Value) -> Vec<String> {
    let mut ids: Vec<String> = v["results"][0]["result"]["hits"]
        .as_array()
        .map(|h| h.iter().filter_map(|x| x["id"].as_str().map(str::to_string)).collect())
        .unwrap_or_default();
    ids.sort();
    ids
}

fn replace_str(v: &Value, from: &str, to: &str) -> Value {
    match v {
        Value::String(s) => json!(s.replace(from, to)),
        Value::Array(a) => Value::Array(a.iter().map(|x| replace_str(x, from, to)).collect()),
        Value::Object(m) => Value::Object(m.iter().map(|(k, x)| (k.replace(from, to), replace_str(x, from, to))).collect()),
        _ => v.clone(),
    }
}

fn is_denied(v: &Value) -> bool {
    let one = |r: &Value| r["status"] == "failed" && (r["error"]["category"] == "governance" || r["results"][0]["error"]["category"] == "governance");
    match v {
        Value::Array(a) => a.first().map(one).unwrap_or(false),
        r => one(r),
    }
}
/// The error code of a failed answer (first page), or "harness_parse_error".
fn error_code(v: &Value) -> String {
    let r = match v {
        Value::Array(a) => a.first().unwrap_or(&Value::Null),
        r => r,
    };
    if r.get("harness_parse_error").is_some() {
        return format!("harness_parse_error: {}", short(&r["harness_parse_error"], 60));
    }
    r["error"]["code"].as_str().or(r["results"][0]["error"]["code"].as_str()).unwrap_or("?").to_string()
}

/// The JSON path of a `first_diff` line without array indexes (a stable counter key).
fn path_key(diff: &Option<String>) -> String {
    let d = diff.clone().unwrap_or_default();
    let path = d.split(": ").next().unwrap_or("");
    let mut out = String::new();
    let mut skip = false;
    for c in path.chars() {
        match c {
            '[' => skip = true,
            ']' => skip = false,
            c if !skip => out.push(c),
            _ => {}
        }
    }
    out
}

fn succeeded(v: &Value) -> bool {
    match v {
        Value::Array(a) => a.first().map(|r| r["status"] == "succeeded").unwrap_or(false),
        r => r["status"] == "succeeded",
    }
}

fn short(v: &Value, n: usize) -> String {
    let s = v.to_string();
    if s.len() > n { format!("{}...[{} bytes]", &s[..n], s.len()) } else { s }
}

/// First place where two JSON values differ, as "path: a | b".
fn first_diff(a: &Value, b: &Value, path: &str) -> Option<String> {
    match (a, b) {
        (Value::Object(x), Value::Object(y)) => {
            let keys: BTreeSet<&String> = x.keys().chain(y.keys()).collect();
            for k in keys {
                match (x.get(k), y.get(k)) {
                    (Some(p), Some(q)) => {
                        if let Some(d) = first_diff(p, q, &format!("{path}.{k}")) {
                            return Some(d);
                        }
                    }
                    (p, q) => return Some(format!("{path}.{k}: {} | {}", p.map(|v| short(v, 200)).unwrap_or("<absent>".into()), q.map(|v| short(v, 200)).unwrap_or("<absent>".into()))),
                }
            }
            None
        }
        (Value::Array(x), Value::Array(y)) => {
            for i in 0..x.len().max(y.len()) {
                match (x.get(i), y.get(i)) {
                    (Some(p), Some(q)) => {
                        if let Some(d) = first_diff(p, q, &format!("{path}[{i}]")) {
                            return Some(d);
                        }
                    }
                    (p, q) => return Some(format!("{path}[{i}]: {} | {}", p.map(|v| short(v, 200)).unwrap_or("<absent>".into()), q.map(|v| short(v, 200)).unwrap_or("<absent>".into()))),
                }
            }
            None
        }
        (p, q) if p == q => None,
        (p, q) => Some(format!("{path}: {} | {}", short(p, 200), short(q, 200))),
    }
}

/// Reports a violation, at most twice per signature and process, and only after all sections
/// have run: a root cause that shows in every configuration must not stop the exploration of
/// everything else (vcore stops a section after a handful of violations). Further occurrences
/// are counted under `violations_seen[..]`.
static PENDING: std::sync::Mutex<Vec<(String, Value)>> = std::sync::Mutex::new(Vec::new());

/// Genuine defects of the unchanged tree found by the journal family and the standing monitor that
/// wait for their repair (proposals with probes: /tmp/patches/C19-history-element-of-unreadable-id,
/// C19-snapshot-token-needs-read-history, C19-suspended-intermediate-delegator; all three with the
/// probes as one test file: C19-b19r3-all-three-with-probes.diff). While this is `false` their four
/// signatures are COUNTED under `pending_repair[..]` and not reported, so that the check is silent on
/// the unchanged tree; set it to `true` once the repairs are in /repo (validated: with the three
/// repairs applied the check is silent with the flag on, quick seeds 1-6 and thorough seed 7).
const REPORT_DEFECTS_PENDING_REPAIR: bool = true;
const PENDING_REPAIR: [&str; 4] = [
    // HISTORY ELEMENT <id> of an unreadable element lists the transactions that wrote it beside a readable one
    HISTORY_OF_UNREADABLE,
    // a FIND bound to the past by `read.snapshot_token` is answered without `read_history`
    "C19/gate/read_history/read_bound_by_snapshot_token_answered_without_the_permission",
    // a suspended / revoked INTERMEDIATE delegate's re-delegations keep working
    "C19/standing/delegate_of_a_delegate/suspend/downstream_next_request_differs_from_a_principal_without_the_delegation",
    "C19/standing/delegate_of_a_delegate/revoke_principal/downstream_next_request_differs_from_a_principal_without_the_delegation",
];

fn report(st: &mut Stats, sig: String, mut detail: Value) {
    static SEEN: std::sync::Mutex<BTreeMap<String, u32>> = std::sync::Mutex::new(BTreeMap::new());
    if !REPORT_DEFECTS_PENDING_REPAIR && PENDING_REPAIR.contains(&sig.as_str()) {
        st.count(&format!("pending_repair[{sig}]"));
        return;
    }
    let n = {
        let mut g = SEEN.lock().unwrap();
        let e = g.entry(sig.clone()).or_insert(0);
        *e += 1;
        *e
    };
    st.count(&format!("violations_seen[{sig}]"));
    if let Some(q) = detail.get("query").and_then(Value::as_str) {
        // which battery entries show it (all occurrences, not only the two that are reported)
        st.count(&format!("violations_seen_by_query[{sig}][{}]", q.chars().take(72).collect::<String>()));
    }
    if n <= 2 {
        // replay coordinates (vcore tags only violations it sees inside the section)
        let section = sig.split('/').nth(1).unwrap_or("ni").to_string();
        if let Value::Object(m) = &mut detail {
            m.entry("section").or_insert(json!(section));
        }
        PENDING.lock().unwrap().push((sig, detail));
    }
}

// ---------------------------------------------------------------------------------------------
// monitor 1: two-run non-interference

/// The hits of a SEARCH answer as (id, score), in answer order.
fn hit_list(v: &Value) -> Vec<(String, f64)> {
    v["results"][0]["result"]["hits"]
        .as_array()
        .map(|h| h.iter().map(|x| (x["id"].as_str().unwrap_or("?").to_string(), x["score"].as_f64().unwrap_or(f64::NAN))).collect())
        .unwrap_or_default()
}

/// Whether a limited hit list is the beginning of the unlimited one (by score sequence and
/// membership: ties may be broken either way).
fn is_prefix(got: &[(String, f64)], full: &[(String, f64)]) -> bool {
    got.len() <= full.len() && got.iter().zip(full).all(|(g, w)| g.1 == w.1) && got.iter().all(|g| full.iter().any(|f| f.0 == g.0))
}

/// Whether one of two FIND answers is the other one cut short at a result cap: a strict prefix of
/// its rows, with a cursor, where the longer one has none.
fn capped_prefix(a1: &Value, a2: &Value) -> bool {
    let rows = |v: &Value| v["results"][0]["result"].as_array().cloned();
    let cursor = |v: &Value| v.get("next_cursor").is_some_and(|c| !c.is_null());
    match (rows(a1), rows(a2)) {
        (Some(x), Some(y)) => {
            let (short, long, short_has, long_has) = if x.len() < y.len() { (x, y, cursor(a1), cursor(a2)) } else { (y, x, cursor(a2), cursor(a1)) };
            short.len() < long.len() && short_has && !long_has && long[..short.len()] == short[..]
        }
        _ => false,
    }
}

/// Classifies a difference between p's SEARCH answers on S1 and S2 (mode HiddenElements).
/// `full` = p's answers to the same search with `LIMIT 100` on S1 and S2 (only asked when the
/// command carries a LIMIT).
fn search_signature(a1: &Value, a2: &Value, full: Option<(&Value, &Value, usize)>) -> &'static str {
    let ids = |v: &Value| hit_list(v).into_iter().map(|(id, _)| id).collect::<Vec<_>>();
    if mask_keys(a1, &["score"]) == mask_keys(a2, &["score"]) {
        // the same hits in the same order, every other byte equal: only relevance numbers differ
        return "C19/ni/search_score_value_depends_on_hidden_documents";
    }
    // everything but the hit list must be equal for the two "ranking" signatures
    let without_hits = |v: &Value| {
        let mut v = v.clone();
        if let Some(r) = v["results"][0]["result"].as_object_mut() {
            r.remove("hits");
        }
        mask_keys(&v, &["next_cursor"])
    };
    if without_hits(a1) != without_hits(a2) {
        return "C19/ni/hidden_elements/search";
    }
    if hit_ids(a1) == hit_ids(a2) && ids(a1).len() == hit_ids(a1).len() {
        return "C19/ni/search_order_of_visible_hits_depends_on_hidden_documents";
    }
    if let Some((f1, f2, k)) = full {
        // a top-k: different members are explained by the ranking when the unlimited answers
        // hold the same visible hits and each limited answer is a prefix of its unlimited one
        let whole = |a: &Value, f: &Value| hit_list(a).len() == k.min(hit_list(f).len()) && is_prefix(&hit_list(a), &hit_list(f));
        if !whole(a1, f1) || !whole(a2, f2) {
            return "C19/search_limit/visible_hits_dropped_behind_unreadable_ones";
        }
        if hit_ids(f1) == hit_ids(f2) && !hit_ids(f1).is_empty() {
            return "C19/ni/search_order_of_visible_hits_depends_on_hidden_documents";
        }
    }
    "C19/ni/hidden_elements/search"
}

/// "Not paged over": for one principal on one store, `SEARCH .. LIMIT k` is a prefix of
/// `SEARCH .. LIMIT 100` (compared by score sequence and membership, so that ties may be broken
/// either way). A limited search that loses visible hits because elements the caller may not
/// read filled its candidate window shows here.
async fn search_limit_checks(sess: &Session, st: &mut Stats, case: u64, cfg: &GovCfg, store: &str, terms: &[String]) {
    for term in terms {
        for kind in ["CONCEPT", "COGNITION"] {
            let full = match exec(sess, &format!("SEARCH {kind} :term LIMIT 100"), &json!({"term": term})).await {
                Ok(r) => response_json(&r),
                Err(_) => continue,
            };
            if !succeeded(&full) {
                continue;
            }
            let full_hits = hit_list(&full);
            for k in [1usize, 2, 3] {
                let lim = match exec(sess, &format!("SEARCH {kind} :term LIMIT {k}"), &json!({"term": term})).await {
                    Ok(r) => response_json(&r),
                    Err(_) => continue,
                };
                let got = hit_list(&lim);
                st.eval();
                st.count("search_limit_checks");
                if !full_hits.is_empty() {
                    st.count("search_limit_checks_with_hits");
                }
                let want = &full_hits[..k.min(full_hits.len())];
                let ok = succeeded(&lim) && got.len() == want.len() && is_prefix(&got, &full_hits);
                if !ok {
                    report(
                        st,
                        "C19/search_limit/visible_hits_dropped_behind_unreadable_ones".into(),
                        json!({"case": case, "section": "ni", "store": store, "config": format!("{cfg:?}"), "query": format!("SEARCH {kind} {term:?} LIMIT {k}"),
                            "limited": got, "first_k_of_LIMIT_100": want, "all_visible_hits": full_hits.len()}),
                    );
                }
            }
        }
    }
}

/// "Not paged over", for the pages after the first: for one principal on one store, walking
/// `SEARCH .. LIMIT k` by `next_cursor` to the end gives exactly the hits of `SEARCH .. LIMIT 100`
/// (same number, same score sequence, same members: ties may be broken either way). A later page
/// that comes back short or without a cursor because elements the caller may not read filled the
/// candidate window shows here.
async fn search_paging_checks(sess: &Session, st: &mut Stats, case: u64, cfg: &GovCfg, store: &str, terms: &[String]) {
    for term in terms {
        for kind in ["CONCEPT", "COGNITION"] {
            let full = match exec(sess, &format!("SEARCH {kind} :term LIMIT 100"), &json!({"term": term})).await {
                Ok(r) => response_json(&r),
                Err(_) => continue,
            };
            if !succeeded(&full) {
                continue;
            }
            let full_hits = hit_list(&full);
            for k in [1u64, 2, 3] {
                let q = Q { paged: Some(k), ..qp("search", &format!("SEARCH {kind} :term LIMIT :lim"), vec![("term", PVal::Lit(json!(term)))]) };
                // (no script values in the parameters: any World would do)
                let mut params = json!({"term": term, "lim": k});
                let mut walked: Vec<(String, f64)> = vec![];
                let mut cursor: Option<String> = None;
                let mut pages = 0u64;
                let mut failed = None;
                for _ in 0..80 {
                    let mut cmd = q.cmd.clone();
                    if let Some(c) = &cursor {
                        params["cur"] = json!(c);
                        cmd.push_str(" CURSOR :cur");
                    }
                    let page = match exec(sess, &cmd, &params).await {
                        Ok(r) => r,
                        Err(e) => {
                            failed = Some(e);
                            break;
                        }
                    };
                    let v = response_json(&page);
                    if !succeeded(&v) {
                        failed = Some(short(&v, 300));
                        break;
                    }
                    pages += 1;
                    walked.extend(hit_list(&v));
                    let next = page.next_cursor.clone().or_else(|| page.results.first().and_then(|x| x.next_cursor.clone()));
                    match next {
                        Some(n) if Some(&n) != cursor.as_ref() => cursor = Some(n),
                        _ => break,
                    }
                }
                st.eval();
                st.count("search_paging_checks");
                if pages > 1 {
                    st.count("search_paging_checks_with_later_pages");
                }
                if pages > 2 {
                    st.count("search_paging_checks_with_three_or_more_pages");
                }
                let ok = failed.is_none() && walked.len() == full_hits.len() && is_prefix(&walked, &full_hits);
                if !ok {
                    report(
                        st,
                        "C19/search_paging/paged_walk_differs_from_the_unpaged_search".into(),
                        json!({"case": case, "section": "ni", "store": store, "config": format!("{cfg:?}"), "query": format!("SEARCH {kind} {term:?} LIMIT {k} walked by CURSOR"),
                            "pages": pages, "walked": walked, "LIMIT_100": full_hits, "a_page_failed_with": failed}),
                    );
                }
            }
        }
    }
}

/// The permission a battery command needs and p does not hold under `cfg`, if any.
fn missing_permission(cfg: &GovCfg, q: &Q) -> Option<&'static str> {
    let cmd = q.cmd.as_str();
    let holds = |a: &str| cfg.holds(a);
    let needs: &[&'static str] = if cmd.starts_with("SEARCH") {
        &["search"]
    } else if cmd.starts_with("DESCRIBE SCHEMA ENVIRONMENT") && cmd.contains(" AS OF ") {
        &["discover", "read_history"]
    } else if cmd.starts_with("FIND") && q.token_of_step.is_some() {
        // a read bound to a past coordinate by the envelope is a historical read like `AS OF`
        // (gate.rs: "a historical read asks for `read_history` on top of `read`")
        &["read_history"]
    } else if cmd.starts_with("HISTORY") || cmd.starts_with("CHANGES") || cmd.starts_with("SNAPSHOT") || cmd.starts_with("DESCRIBE SNAPSHOT") || cmd.starts_with("DESCRIBE TRANSACTION") {
        &["read_history"]
    } else if cmd.starts_with("EXPORT") {
        &["export"]
    } else if cmd.starts_with("FIND") && cmd.contains(" AS OF ") {
        &["read_history"]
    } else if cmd.starts_with("FIND") && cmd.contains(" BELIEF ") {
        &["project"]
    } else {
        &[]
    };
    needs.iter().find(|n| !holds(n)).copied()
}

/// The ids of the elements p certainly may not read in this instance: the hidden ones of the
/// base script and everything the tail created.
fn hidden_ids(w: &World, script: &Script) -> BTreeSet<String> {
    script.hidden.iter().filter_map(|s| w.sym.get(s)).chain(w.sym.iter().filter(|(k, _)| k.starts_with("tail_")).map(|(_, v)| v)).cloned().collect()
}

/// (transaction id, element id, op, version) of every change record of every journal entry in an
/// answer (an object with `tx_id` and `changes`, at any depth: single entries, lists, pages), and
/// the number of entries that list no change at all.
fn journal_records(v: &Value, out: &mut BTreeSet<(String, String, String, String)>, without_changes: &mut u64) {
    match v {
        Value::Object(m) => {
            if let (Some(Value::String(tx)), Some(Value::Array(changes))) = (m.get("tx_id"), m.get("changes")) {
                if changes.is_empty() {
                    *without_changes += 1;
                }
                for c in changes {
                    out.insert((tx.clone(), c["id"].as_str().unwrap_or("").to_string(), c["op"].to_string(), c["version"].to_string()));
                }
            }
            m.values().for_each(|x| journal_records(x, out, without_changes));
        }
        Value::Array(a) => a.iter().for_each(|x| journal_records(x, out, without_changes)),
        _ => {}
    }
}

/// The journal entries of an answer (all pages) that list at least one change, in answer order.
fn entries_with_changes(v: &Value) -> Vec<Value> {
    fn walk(v: &Value, out: &mut Vec<Value>) {
        match v {
            Value::Object(m) => {
                if let (Some(Value::String(_)), Some(Value::Array(changes))) = (m.get("tx_id"), m.get("changes")) {
                    if !changes.is_empty() {
                        out.push(v.clone());
                    }
                    return;
                }
                m.values().for_each(|x| walk(x, out));
            }
            Value::Array(a) => a.iter().for_each(|x| walk(x, out)),
            _ => {}
        }
    }
    let mut out = vec![];
    walk(v, &mut out);
    out
}

/// `HISTORY ELEMENT <id>` of an element the caller may not read lists the transactions that
/// touched it beside a readable element (with an empty change list): the id exists, and when it
/// was written. Asking for such an id must answer like asking for one that was never written.
const HISTORY_OF_UNREADABLE: &str = "C19/journal/history_element/of_an_unreadable_element_lists_the_transactions_that_touched_it";

/// The entry point a journal command goes through (a stable signature / counter key).
fn entry_point(cmd: &str) -> &'static str {
    [
        ("DESCRIBE TRANSACTION BY IDEMPOTENCY KEY", "describe_transaction_by_idempotency_key"),
        ("DESCRIBE TRANSACTION", "describe_transaction"),
        ("HISTORY SPACE", "history_space"),
        ("HISTORY ELEMENT", "history_element"),
        ("CHANGES AFTER SEQ", "changes_after_seq"),
        ("CHANGES SINCE", "changes_since"),
    ]
    .iter()
    .find(|(prefix, _)| cmd.starts_with(prefix))
    .map(|(_, name)| *name)
    .unwrap_or("other")
}

/// The per-store journal oracle: on ONE instance, every change record p is shown through a journal
/// entry point (a) is one the owner is shown under the same transaction id (complete answers only:
/// unlimited, or walked to the end) and (b) is not a change of an element p may not read - whatever
/// the entry point, whether the transaction's changes are all visible, mixed or all hidden, whether
/// it was committed under a key. Entries that list no change at all are counted (a lookup by the
/// caller's own idempotency key answers that way by design).
#[allow(clippy::too_many_arguments)]
fn journal_store_checks(st: &mut Stats, case: u64, cfg: &GovCfg, store: &str, hidden: &BTreeSet<String>, script: &Script, q: &Q, params: &Value, p_answer: &Value, owner_answer: &Value) {
    let ep = entry_point(&q.cmd);
    if ep == "other" || is_denied(p_answer) {
        return;
    }
    // which transaction of the journal block a single-row lookup names
    let class = match ep {
        "describe_transaction_by_idempotency_key" => script.journal.iter().find(|j| j.key.as_deref() == params["key"].as_str() && j.key.is_some()).map(|j| j.class),
        "describe_transaction" => q.params.iter().find_map(|(_, v)| if let PVal::TxOfStep(i) = v { script.journal.iter().find(|j| j.step == *i).map(|j| j.class) } else { None }),
        _ => None,
    };
    if let Some(class) = class {
        st.count(&format!("journal_lookups_{}_{class}", if ep == "describe_transaction" { "by_id" } else { "by_key" }));
    }
    if !succeeded(p_answer) {
        return;
    }
    let (mut shown, mut owners) = (BTreeSet::new(), BTreeSet::new());
    let (mut bare, mut owners_bare) = (0, 0);
    journal_records(p_answer, &mut shown, &mut bare);
    journal_records(owner_answer, &mut owners, &mut owners_bare);
    st.eval();
    st.count("journal_store_checks");
    st.count(&format!("journal_store_checks_{ep}"));
    st.add("journal_change_records_shown_to_p", shown.len() as u64);
    if bare > 0 {
        st.add(&format!("journal_entries_without_a_change_shown_to_p_{ep}"), bare);
    }
    if class == Some("mixed") && !shown.is_empty() && shown.len() < owners.len() {
        st.count("journal_mixed_transaction_partly_shown_to_p");
    }
    if class == Some("visible") && !shown.is_empty() {
        st.count("journal_visible_transaction_shown_to_p");
    }
    let ctx = |what: &str, records: Vec<&(String, String, String, String)>| {
        json!({"case": case, "section": "ni", "store": store, "what": what, "entry_point": ep, "config": format!("{cfg:?}"), "query": q.cmd, "params": params, "records(tx, element, op, version)": records,
            "transaction_of_the_journal_block": class, "elements_p_may_not_read": hidden, "p": short(p_answer, 1500), "owner": short(owner_answer, 1500)})
    };
    if ep == "history_element" && params["id"].as_str().is_some_and(|id| hidden.contains(id)) {
        // "asking for it by id answers the same as asking for one that was never written"
        st.count("journal_history_of_an_unreadable_element_checks");
        if bare > 0 || !shown.is_empty() {
            report(st, HISTORY_OF_UNREADABLE.into(), ctx("the chronology of an element p may not read is not empty", shown.iter().collect()));
        }
    }
    let leaked: Vec<_> = shown.iter().filter(|r| hidden.contains(&r.1)).collect();
    if !leaked.is_empty() {
        report(st, format!("C19/journal/{ep}/lists_a_change_of_an_element_the_caller_may_not_read"), ctx("a journal entry shown to p names an element p may not read", leaked));
    }
    // (the owner's answer is complete: not cut at a LIMIT - the feed has a default one - with more to come)
    let last = match owner_answer {
        Value::Array(pages) => pages.last().unwrap_or(&Value::Null),
        one => one,
    };
    let more_to_come = !last["next_cursor"].is_null() || !last["results"][0]["next_cursor"].is_null();
    let complete = (q.paged.is_some() || !q.cmd.contains("LIMIT")) && !more_to_come;
    if complete && succeeded(owner_answer) {
        st.count("journal_subset_checks");
        let extra: Vec<_> = shown.difference(&owners).collect();
        if !extra.is_empty() {
            report(st, format!("C19/journal/{ep}/shows_a_change_the_owner_is_not_shown"), ctx("a change record shown to p is not in the owner's answer to the same command", extra));
        }
    }
}

fn ni_case(case: u64, rng: &mut Rng, st: &mut Stats, thorough: bool) {
    let script = gen_script(rng, if thorough { 8 } else { 5 });
    let mut cfg = gen_cfg(rng);
    // every third configuration carries a field mask that hides attributes and/or facets, and
    // S1 / S2 then differ ONLY in those masked fields of visible elements
    let mode = if case % 3 == 2 {
        let keep: Vec<String> = cfg.fields.iter().filter(|f| *f != "attributes" && *f != "facets").cloned().collect();
        cfg.fields = if keep.is_empty() { vec!["name".into()] } else { keep };
        match rng.below(3) {
            0 => cfg.fields.push("attributes".into()), // facets masked
            1 => cfg.fields.push("facets".into()),     // attributes masked
            _ => {}                                    // both masked
        }
        Mode::MaskedFields
    } else {
        Mode::HiddenElements
    };
    // authority combined from several sources (round robin within each mode)
    let nth = if mode == Mode::MaskedFields { case / 3 } else { (case / 3) * 2 + case % 3 };
    combine_sources(rng, &mut cfg, mode, nth);
    // how the hidden elements are hidden: at the top of the ladder, exactly one step above p's
    // ceiling, under a label the engine does not know (ranks above every known one), or - under a
    // `public` ceiling - not labelled at all (the Space default `internal` applies, never `public`)
    if case % 8 == 7 {
        cfg.ceiling = "public";
        for x in cfg.extras.iter_mut().filter(|x| !x.ceiling.is_empty()) {
            x.ceiling = "public";
        }
    }
    // a label that only an explicit deny statement takes away: within every ceiling of p
    let denied_within = mode == Mode::HiddenElements && case % 8 == 1;
    if denied_within {
        cfg.ceiling = *rng.pick(&["private", "sensitive"]);
        cfg.deny_label = Some("private");
        cfg.deny_via_group = (case / 8) % 2 == 0;
    }
    let top = cfg.top_ceiling();
    let above = LADDER[LADDER.iter().position(|l| *l == top).unwrap_or(3) + 1];
    let hidden_as = match case % 4 {
        _ if denied_within => HiddenAs::Label("private".into()),
        0 => HiddenAs::Label("secret".into()),
        1 => HiddenAs::Label(above.into()),
        2 => HiddenAs::Label("compartment-x".into()),
        _ if top == "public" => HiddenAs::Unlabeled,
        _ => HiddenAs::Label(above.into()),
    };
    // per kind: a kind that no source of p reaches is hidden whatever its label (also `public`,
    // also none); where different kinds come from sources with different ceilings, an element
    // sits one step above the ceiling of the source that reaches ITS kind - within the other's
    let mut per_kind: BTreeMap<String, HiddenAs> = BTreeMap::new();
    let (mut hidden_by_kind_scope_only, mut hidden_below_another_sources_ceiling) = (false, false);
    for k in KINDS {
        let low = [HiddenAs::Label("public".into()), HiddenAs::Label("internal".into()), HiddenAs::Unlabeled][rng.usize(3)].clone();
        let use_low = rng.chance(2, 3);
        if mode != Mode::HiddenElements || denied_within {
            continue;
        }
        match cfg.top_ceiling_for(k) {
            None if use_low => {
                hidden_by_kind_scope_only = true;
                per_kind.insert(k.to_string(), low);
            }
            Some(c) if cfg.shape == "kinds_split_over_two_ceilings" && rank_of(c) < rank_of(top) => {
                hidden_below_another_sources_ceiling = true;
                per_kind.insert(k.to_string(), HiddenAs::Label(LADDER[rank_of(c) + 1].into()));
            }
            _ => {}
        }
    }
    let hidden_as = if per_kind.is_empty() { hidden_as } else { HiddenAs::PerKind(per_kind, Box::new(hidden_as)) };
    let mut bat = battery(rng, &script, true);
    if case % 2 == 1 {
        // (every other configuration asks a third of the journal family: its cost is the version log)
        thin_journal(&mut bat, 3);
    }
    let mut search_terms: Vec<String> = (0..2).map(|_| rng.pick(&WORDS).to_string()).collect();
    if let Some(w) = &script.crowd_word {
        search_terms.push(w.clone());
    }
    let res: Result<(), String> = vcore::run::block_on(async {
        let (w1, _, _) = build(&format!("c19_{case}"), &script, &cfg, 0, false, mode, &hidden_as).await?;
        let (w2, _, _) = build(&format!("c19_{case}"), &script, &cfg, 1, true, mode, &hidden_as).await?;
        // the same number of commits in both
        let target = space_seq(&w2.nx).await?;
        let padded = pad_to(&w1, target).await?;
        st.add("ni_padding_commits", padded);
        if w1.base_seq != w2.base_seq {
            return Err(format!("common part ended at different sequences: {} | {}", w1.base_seq, w2.base_seq));
        }
        let mut w1b: Option<World> = None;
        let (p1, p2) = (session(&w1.nx, P), session(&w2.nx, P));
        let (o1, o2) = (w1.nx.system_session(), w2.nx.system_session());
        st.count("configurations");
        st.count(&format!("configurations_{}", mode.tag()));
        if denied_within && cfg.deny_via_group {
            st.count("deny_statement_reaches_p_through_a_group");
        }
        if hidden_by_kind_scope_only {
            st.count("hidden_by_kind_scope_under_a_label_within_the_ceiling");
        }
        if hidden_below_another_sources_ceiling {
            st.count("hidden_by_the_ceiling_of_the_source_over_its_kind_within_another_sources_ceiling");
        }
        st.count(&format!("hidden_as_{}", match if let HiddenAs::PerKind(_, default) = &hidden_as { default.as_ref() } else { &hidden_as } {
            HiddenAs::PerKind(..) => "per_kind",
            HiddenAs::Label(_) if denied_within => "a_label_only_a_deny_statement_takes_away",
            HiddenAs::Label(l) if l == "secret" => "secret",
            HiddenAs::Label(l) if l == "compartment-x" => "unknown_label",
            HiddenAs::Label(_) => "one_step_above_the_ceiling",
            HiddenAs::Unlabeled => "unlabeled_under_a_public_ceiling",
        }));
        st.count(&format!("config_path_{}", cfg.path));
        st.count(&format!("config_shape_{}_{}", mode.tag(), cfg.shape));
        for x in &cfg.extras {
            st.count(&format!("config_extra_source_via_{}", x.via));
            st.count(&format!("config_sources_{}_plus_{}", cfg.path, x.via));
            if x.expired {
                st.count("config_extra_source_expired");
            }
        }
        if mode == Mode::MaskedFields {
            for (on, what) in [(w2.vary_attrs, "concept_attributes"), (w2.vary_facets, "concept_facets"), (w2.vary_name, "concept_name"), (w2.vary_key, "concept_key"),
                (w2.vary_stance, "assertion_stance"), (w2.vary_confidence, "assertion_confidence"), (w2.vary_mode, "assertion_mode")] {
                if on {
                    st.count(&format!("masked_configurations_varying_{what}"));
                }
            }
            for (tag, kind, _) in LINK_MEMBERS {
                if w2.vary_links.contains(tag) {
                    st.count(&format!("masked_configurations_varying_{kind}_{tag}"));
                }
            }
            if ["subject", "object"].iter().any(|t| w2.vary_links.contains(t)) && !script.masked_tuples.is_empty() {
                st.count("masked_configurations_with_a_proposition_whose_tuple_differs");
            }
        }
        let mut nontrivial = false;
        let mut allowed_some = false;
        let (hidden1, hidden2) = (hidden_ids(&w1, &script), hidden_ids(&w2, &script));
        for q in &bat {
            let a1 = mask(&observe(&p1, &w1, &script, 0, q).await);
            let a2 = mask(&observe(&p2, &w2, &script, 1, q).await);
            st.eval();
            st.count(&format!("ni_pairs_{}", q.family));
            st.count(&format!("ni_pairs_mode_{}", mode.tag()));
            if is_denied(&a1) {
                st.count("p_answers_denied");
            } else if succeeded(&a1) {
                st.count("p_answers_allowed");
                st.count(&format!("p_answers_allowed_{}", q.family));
                allowed_some = true;
            } else {
                st.count("p_answers_other_error");
                let code = error_code(&a1);
                if code.starts_with("harness_parse_error") {
                    // a battery entry the parser refuses observes nothing: a harness fault
                    st.inconclusive(format!("battery entry does not parse: {} ({code})", q.cmd));
                }
                st.count(&format!("p_answers_other_error[{code}][{}]", q.cmd.chars().take(48).collect::<String>()));
            }
            // the command gate: a family whose permission p does not hold is refused (Spec 29:
            // search, read_history, export and project are permissions of their own)
            if let Some(missing) = missing_permission(&cfg, q) {
                st.count("gate_checks_permission_not_held");
                st.count(&format!("gate_checks_permission_not_held_{missing}"));
                for (store, ans) in [("S1", &a1), ("S2", &a2)] {
                    if !is_denied(ans) {
                        report(
                            st,
                            // (a read bound to the past by `read.snapshot_token` has a signature of its own)
                            if q.token_of_step.is_some() { format!("C19/gate/{missing}/read_bound_by_snapshot_token_answered_without_the_permission") } else { format!("C19/gate/{missing}/answered_without_the_permission") },
                            json!({"case": case, "section": "ni", "store": store, "config": format!("{cfg:?}"), "query": q.cmd, "params": w1.params(&script, 0, &q.params), "bound_by_snapshot_token_of_sequence": q.token_of_step.map(|i| w1.start_seq + i as u64 + 1), "answer": short(ans, 1200)}),
                        );
                    }
                }
            }
            // an Epistemic Projection may be computed from assertions whose raw stance / confidence
            // the caller's mask hides (Spec 29.4: `project` is a permission of its own and "MAY allow
            // a projected result without revealing raw Evidence"): not judged, counted
            // (likewise which proposition an assertion is about, whom it is by and what it cites:
            // the projection counts and groups assertions by exactly these)
            let assertion_members_vary = w2.vary_stance || w2.vary_confidence || w2.vary_mode || ["proposition_id", "asserted_by", "evidence_refs"].iter().any(|t| w2.vary_links.contains(t));
            let judged = !(q.family.starts_with("belief") && assertion_members_vary);
            if !judged {
                st.count("belief_pairs_not_judged_projection_may_use_masked_fields");
            }
            if judged && a1 != a2 {
                // is it noise? build S1 once more and look at the same query
                if w1b.is_none() {
                    let wb = build(&format!("c19_{case}"), &script, &cfg, 0, false, mode, &hidden_as).await?.0;
                    pad_to(&wb, target).await?;
                    w1b = Some(wb);
                }
                let wb = w1b.as_ref().unwrap();
                let a1b = mask(&observe(&session(&wb.nx, P), wb, &script, 0, q).await);
                if a1b != a1 {
                    st.count("unmasked_noise_entries_skipped");
                    st.count(&format!("unmasked_noise_entries_skipped[{}]", path_key(&first_diff(&a1, &a1b, "$"))));
                    st.sample(|| json!({"monitor": "ni", "unmasked_noise": first_diff(&a1, &a1b, "$"), "query": q.cmd}));
                    continue;
                }
                let is_search = q.cmd.starts_with("SEARCH");
                let sig = match mode {
                    Mode::HiddenElements if is_search && q.paged.is_none() => {
                        let full = if q.cmd.contains("LIMIT") {
                            let cmd = format!("{} LIMIT 100", q.cmd.split(" LIMIT").next().unwrap_or(&q.cmd));
                            let f1 = mask(&observe(&p1, &w1, &script, 0, &Q { cmd: cmd.clone(), ..q.clone() }).await);
                            let f2 = mask(&observe(&p2, &w2, &script, 1, &Q { cmd, ..q.clone() }).await);
                            let k = q.cmd.rsplit("LIMIT ").next().and_then(|n| n.trim().parse::<usize>().ok()).unwrap_or(usize::MAX);
                            Some((f1, f2, k))
                        } else {
                            None
                        };
                        search_signature(&a1, &a2, full.as_ref().map(|(a, b, k)| (a, b, *k))).to_string()
                    }
                    Mode::HiddenElements if is_search => {
                        // paged to exhaustion with LIMIT 1: the pages together are the ranking
                        let flat = |v: &Value| v.as_array().map(|p| p.iter().flat_map(hit_list).map(|h| h.0).collect::<Vec<_>>()).unwrap_or_default();
                        let (mut x, mut y) = (flat(&a1), flat(&a2));
                        let same_order = x == y;
                        x.sort();
                        y.sort();
                        if same_order && mask_keys(&a1, &["score"]) == mask_keys(&a2, &["score"]) {
                            "C19/ni/search_score_value_depends_on_hidden_documents".to_string()
                        } else if x == y && !same_order {
                            "C19/ni/search_order_of_visible_hits_depends_on_hidden_documents".to_string()
                        } else {
                            "C19/ni/hidden_elements/search_paged".to_string()
                        }
                    }
                    // hits that match only through a masked field, or whose score it moves
                    Mode::MaskedFields if is_search => "C19/ni/search_matches_or_scores_on_masked_fields".to_string(),
                    // the same rows, but one answer stops at a result cap (and offers a cursor) where
                    // the other does not: whether a source's max_results applied depended on masked members
                    Mode::MaskedFields if cfg.any_result_cap() && capped_prefix(&a1, &a2) => "C19/ni/masked_fields/result_cap_applied_depends_on_masked_members".to_string(),
                    // the chronology of an element p may not read lists transactions (with an empty change
                    // list) on one instance only; everything else the two walks show is the same
                    _ if entry_point(&q.cmd) == "history_element" && entries_with_changes(&a1) == entries_with_changes(&a2) => HISTORY_OF_UNREADABLE.to_string(),
                    _ => format!("C19/ni/{}/{}", mode.tag(), q.family),
                };
                report(
                    st,
                    sig,
                    json!({"case": case, "mode": mode.tag(), "config": format!("{cfg:?}"), "query": q.cmd, "params_s1": w1.params(&script, 0, &q.params), "params_s2": w2.params(&script, 1, &q.params),
                        "first_difference(S1|S2)": first_diff(&a1, &a2, "$"),
                        "first_difference_ignoring_scores": first_diff(&mask_keys(&a1, &["score"]), &mask_keys(&a2, &["score"]), "$"),
                        "hidden_ids": script.hidden.iter().map(|s| w1.id(s)).collect::<Vec<_>>(),
                        "hidden_as": format!("{hidden_as:?}"),
                        "space_seq(S1|S2)": [space_seq(&w1.nx).await.unwrap_or(0), space_seq(&w2.nx).await.unwrap_or(0)],
                        "base_seq": w1.base_seq,
                        "masked_reference_members_that_differ": w2.vary_links.iter().collect::<Vec<_>>(),
                        "propositions_whose_tuple_may_differ(id, S1, S2 if subject and object are both masked)": if mode == Mode::MaskedFields { script.masked_tuples.iter().map(|t| json!([w1.id(&t.sym),
                            [w1.id(&t.s1.0), t.s1.1, w1.id(&t.s1.2)], [w1.id(&t.s2.0), t.s2.1, w1.id(&t.s2.2)]])).collect::<Vec<_>>() } else { vec![] },
                        "s2_only_tail": if mode == Mode::HiddenElements { script.tail.iter().map(|t| match t {
                            Step::Kml { cmd, params, .. } => format!("{cmd}  {}", w2.params(&script, 1, params)),
                            Step::Keyed { key, cmd, params, .. } => format!("[key {key}] {cmd}  {}", w2.params(&script, 1, params)),
                            Step::Classify { sym, label } => format!("classify({}, {label})", w2.id(sym)),
                        }).collect::<Vec<_>>() } else { vec![] },
                        "journal_block": script.journal.iter().map(|j| json!({"tx": format!("{DEFAULT_SPACE}#{}", w1.start_seq + j.step as u64 + 1), "key": j.key, "changes": j.class, "tag": j.tag})).collect::<Vec<_>>(),
                        "p_on_s1": short(&a1, 1500), "p_on_s2": short(&a2, 1500)}),
                );
            }
            // sanity: the difference between S1 and S2 is observable to the owner
            let b1 = mask(&observe(&o1, &w1, &script, 0, q).await);
            let b2 = mask(&observe(&o2, &w2, &script, 1, q).await);
            // per store: what p is shown of the journal is part of what the owner is shown, and
            // names no element p may not read
            if matches!(q.family, "journal" | "history" | "changes" | "tail_tx" | "describe_list") {
                for (store, w, hidden, variant, ap, ao) in [("S1", &w1, &hidden1, 0, &a1, &b1), ("S2", &w2, &hidden2, 1, &a2, &b2)] {
                    journal_store_checks(st, case, &cfg, store, hidden, &script, q, &w.params(&script, variant, &q.params), ap, ao);
                }
            }
            if b1 != b2 {
                nontrivial = true;
                st.count(&format!("owner_sees_difference_{}", q.family));
                if succeeded(&a1) {
                    // the pairs that carry the weight: p is answered, the owner sees the difference
                    st.count("ni_pairs_p_answered_and_owner_sees_difference");
                    st.count(&format!("ni_decisive_pairs_{}", q.family));
                    st.count(&format!("ni_decisive_pairs_mode_{}", mode.tag()));
                    if judged {
                        st.count(&format!("ni_decisive_judged_pairs_{}_{}", mode.tag(), q.family));
                    }
                    if cfg.shape != "single_source" {
                        st.count(&format!("ni_decisive_pairs_shape_{}", cfg.shape));
                        if q.family == "masked_pattern" {
                            st.count(&format!("ni_decisive_masked_pattern_pairs_shape_{}", cfg.shape));
                        }
                        if q.family == "masked_tuple" {
                            st.count(&format!("ni_decisive_masked_tuple_pairs_shape_{}", cfg.shape));
                        }
                    }
                }
            }
        }
        if mode == Mode::HiddenElements {
            if script.crowd_word.is_some() {
                st.count("configurations_with_a_hidden_crowd_outranking_a_visible_hit");
            }
            search_limit_checks(&p1, st, case, &cfg, "S1", &search_terms).await;
            search_limit_checks(&p2, st, case, &cfg, "S2", &search_terms).await;
            if cfg.holds("search") {
                // the crowd word (where there is one) and one more term, in both instances
                let terms: Vec<String> = search_terms.iter().rev().take(2).cloned().collect();
                search_paging_checks(&p1, st, case, &cfg, "S1", &terms).await;
                search_paging_checks(&p2, st, case, &cfg, "S2", &terms).await;
                if script.crowd_word.is_some() {
                    st.count("search_paging_configurations_with_a_hidden_crowd");
                }
            }
        }
        if nontrivial {
            st.count("nontrivial_configurations");
            if allowed_some {
                st.distinct(vcore::hash_debug(&(format!("{cfg:?}"), mode.tag(), script.steps.len(), script.hidden.len())));
            }
        }
        if w1b.is_none() && case % 4 == 0 {
            // establish the mask on a share of the configurations even when nothing differed
            let wb = build(&format!("c19_{case}"), &script, &cfg, 0, false, mode, &hidden_as).await?.0;
            pad_to(&wb, target).await?;
            let sb = session(&wb.nx, P);
            let ob = wb.nx.system_session();
            for q in &bat {
                for (s_a, s_b) in [(&p1, &sb), (&o1, &ob)] {
                    let x = mask(&observe(s_a, &w1, &script, 0, q).await);
                    let y = mask(&observe(s_b, &wb, &script, 0, q).await);
                    st.count("mask_checks");
                    if x != y {
                        st.count("mask_checks_noise_left");
                        st.count(&format!("mask_checks_noise_left[{}]", path_key(&first_diff(&x, &y, "$"))));
                        st.sample(|| json!({"monitor": "mask", "noise_left": first_diff(&x, &y, "$"), "query": q.cmd}));
                    }
                }
            }
        }
        st.sample(|| json!({"monitor": "ni", "case": case, "mode": mode.tag(), "config": format!("{cfg:?}"), "steps": script.steps.len(), "tail_steps": script.tail.len(), "hidden": script.hidden.len(), "battery": bat.len()}));
        Ok(())
    });
    if let Err(e) = res {
        st.inconclusive(format!("C19 ni case {case}: {e}"));
    }
}

// ---------------------------------------------------------------------------------------------
// monitor 2: authority timeline and delegation

/// The part of the battery whose answers do not name the caller's own authorities.
fn neutral(bat: &[Q]) -> Vec<&Q> {
    bat.iter().filter(|q| !q.cmd.starts_with("DESCRIBE ACCESS") && !q.cmd.starts_with("DESCRIBE EXECUTION")).collect()
}

const FRESH: &str = "kip:principal:fresh";
const FRESH_NOTHING: &str = "kip:principal:fresh-nothing";

fn timeline_case(case: u64, rng: &mut Rng, st: &mut Stats) {
    let script = gen_script(rng, 4);
    let mut cfg = gen_cfg(rng);
    let bat = battery(rng, &script, false);
    // every kind of event in turn, so that each is exercised whatever the seed
    const EVENTS: [&str; 9] = ["revoke", "suspend", "revoke_principal", "deny", "expiry", "leave_group", "policy_withdrawn", "revoke_delegation", "revoke_ancestor_link"];
    let event = EVENTS[(case % EVENTS.len() as u64) as usize];
    let round = case / EVENTS.len() as u64;
    // make the event applicable
    match event {
        "leave_group" => cfg.path = "group",
        "policy_withdrawn" => cfg.path = *rng.pick(&["policy_scope", "policy_ceiling"]),
        // the last link of a one-link and of a two-link chain in turn
        "revoke_delegation" => cfg.path = if round % 2 == 0 { "delegation" } else { "chain" },
        // the first link of a two-link chain
        "revoke_ancestor_link" => cfg.path = "chain",
        // every other one: the grant of the delegator a (one- / two-link) chain starts from
        "revoke" if round % 2 == 0 => cfg.path = if (round / 2) % 2 == 0 { "delegation" } else { "chain" },
        "revoke" | "expiry" => {
            if cfg.path.starts_with("policy") {
                cfg.path = *rng.pick(&["grant", "group", "delegation", "chain"]);
            }
        }
        _ => {}
    }
    // one of two sources goes away: p keeps an independent second source (own route, own bounds),
    // and its next request equals that of a fresh principal holding only that source
    if rng.chance(2, 5) {
        let mut kinds: Vec<String> = if rng.bool() { vec![] } else { KINDS.iter().filter(|_| rng.bool()).map(|k| k.to_string()).collect() };
        if kinds.len() == KINDS.len() {
            kinds.clear();
        }
        let fields = if rng.chance(1, 3) { mask_without(rng, &["name", "key", "attributes", "_system", "stance", "confidence", "subject", "object", "predicate_ref", "payload"], &[]) } else { vec![] };
        cfg.extras.push(Extra {
            via: *rng.pick(&["grant", "group", "delegation"]),
            kinds,
            fields,
            ceiling: *rng.pick(&["public", "internal", "private", "sensitive"]),
            ceiling_as_scope: rng.chance(1, 3),
            max_results: None,
            actions: read_actions(rng),
            expired: rng.chance(1, 5),
        });
        cfg.shape = "a_second_source_is_kept";
    }
    let res: Result<(), String> = vcore::run::block_on(async {
        let nx = fresh_nexus(&format!("c19_tl_{case}")).await?;
        let gov = nx.governance();
        let mut policy = vec![];
        let mut w = World::plain(nx.clone());
        // (script coordinates - `SeqOfStep`, `TxOfStep` - count from here: every step is one commit)
        w.start_seq = space_seq(&w.nx).await?;
        run_steps(&mut w, &script, &script.steps, 0).await?;
        // p's authority; for "expiry" the root grant lapses a few milliseconds from now
        let inst = if event == "expiry" {
            principal(&nx, P).await?;
            let until = (chrono_now_plus_ms(60)).to_string();
            let mut g = GrantDraft {
                space_id: DEFAULT_SPACE.into(),
                grantee_principal: P.into(),
                actions: cfg.actions.clone(),
                scope: cfg.scope(),
                constraints: cfg.constraints(),
                ..Default::default()
            };
            g.conditions = AuthorityConditions { valid_until: until, ..Default::default() };
            let id = gov.create_grant(g, SYSTEM_PRINCIPAL).await.map_err(gerr("create_grant"))?._id;
            install_extras(&nx, &cfg, P, "", &mut policy).await?;
            Installed { grants: vec![id], ..Default::default() }
        } else {
            install(&nx, &cfg, P, "", &mut policy).await?
        };
        if !policy.is_empty() {
            set_policy(&nx, policy.clone()).await?;
        }
        let p = session(&nx, P);
        // the same principal through a session that NAMES the delegation chain it acts under
        // (delegator-first): it holds what that chain confers, and nothing once the chain is cut
        let named: Option<Session> = if matches!(cfg.path, "delegation" | "chain") && event != "expiry" && !inst.delegations.is_empty() {
            let chain: Vec<String> = inst.delegations.iter().map(|d| anda_cognitive_nexus::governance::store::delegation_id(*d)).collect();
            st.count("timeline_named_chain_sessions");
            st.count(&format!("timeline_named_chain_sessions_{}_links", chain.len()));
            Some(nx.session(AuthContext::principal(P).with_delegation_chain(chain)))
        } else {
            None
        };
        let before: Vec<Value> = {
            let mut v = vec![];
            for q in neutral(&bat) {
                v.push(mask(&observe(&p, &w, &script, 0, q).await));
            }
            v
        };
        let named_before: Vec<Value> = {
            let mut v = vec![];
            if let Some(named) = &named {
                for q in neutral(&bat) {
                    v.push(mask(&observe(named, &w, &script, 0, q).await));
                }
                if v.iter().any(|a| succeeded(a) && !is_denied(a)) && v.iter().zip(neutral(&bat)).any(|(a, q)| q.family == "element" && succeeded(a)) {
                    st.count("timeline_named_chain_sessions_reading_before_the_event");
                }
            }
            v
        };
        let allowed_before = before.iter().filter(|a| succeeded(a)).count();
        if event == "expiry" && allowed_before == 0 {
            // the machine was too slow to ask before the grant lapsed: nothing to compare
            st.count("timeline_expiry_lapsed_before_first_request");
        }
        // --- the event, through the control plane
        match event {
            "revoke" => gov.revoke_grant(inst.grants[0], SYSTEM_PRINCIPAL).await.map_err(gerr("revoke_grant"))?,
            "revoke_delegation" => gov.revoke_delegation(*inst.delegations.last().unwrap(), SYSTEM_PRINCIPAL).await.map_err(gerr("revoke_delegation"))?,
            "revoke_ancestor_link" => gov.revoke_delegation(inst.delegations[0], SYSTEM_PRINCIPAL).await.map_err(gerr("revoke_delegation (ancestor link)"))?,
            "suspend" => {
                gov.set_principal_status(P, status::SUSPENDED, SYSTEM_PRINCIPAL).await.map_err(gerr("suspend"))?;
            }
            "revoke_principal" => {
                gov.set_principal_status(P, status::REVOKED, SYSTEM_PRINCIPAL).await.map_err(gerr("revoke principal"))?;
            }
            "deny" => {
                let mut st2 = policy.clone();
                st2.push(PolicyStatement { effect: "deny".into(), principals: vec![P.into()], ..Default::default() });
                set_policy(&nx, st2).await?;
            }
            "leave_group" => {
                gov.put_group(GroupDraft { group_id: GROUP.into(), name: "readers".into(), description: "verif".into(), members: vec![] }, SYSTEM_PRINCIPAL)
                    .await
                    .map_err(gerr("put_group"))?;
            }
            "policy_withdrawn" => {
                let st2: Vec<PolicyStatement> = policy.iter().filter(|s| !(s.effect == "allow" && s.principals == vec![P.to_string()])).cloned().collect();
                set_policy(&nx, st2).await?;
            }
            _ => {
                // expiry: wait until the instant has certainly passed (millisecond resolution)
                tokio::time::sleep(std::time::Duration::from_millis(90)).await;
            }
        }
        st.count(&format!("timeline_event_{event}"));
        // --- what p still holds: only the narrow second grant (when there is one and p is alive)
        let alive = !matches!(event, "suspend" | "revoke_principal" | "deny");
        let keeps_second = cfg.second_grant && event != "expiry" && alive;
        let keeps_extras = alive && !cfg.extras.is_empty();
        principal(&nx, FRESH).await?;
        // the fresh principal receives what p still holds IN THE ORDER p received it (second grant, then
        // the further sources): where two allows with different masks reach one element the engine's
        // choice between them follows record order, which is not an authority difference
        if keeps_second {
            gov.create_grant(
                GrantDraft {
                    space_id: DEFAULT_SPACE.into(),
                    grantee_principal: FRESH.into(),
                    actions: vec!["read".into(), "search".into()],
                    scope: AuthorityScope { kinds: vec!["concept".into()], ..Default::default() },
                    constraints: AuthorityConstraints { fields: vec!["name".into()], max_classification: "public".into(), ..Default::default() },
                    ..Default::default()
                },
                SYSTEM_PRINCIPAL,
            )
            .await
            .map_err(gerr("create_grant fresh"))?;
            st.count("timeline_narrowed_rather_than_removed");
        }
        if keeps_extras {
            // the same further sources, through routes of their own (no policy route here)
            let mut unused = vec![];
            install_extras(&nx, &cfg, FRESH, ":fresh", &mut unused).await?;
            st.count("timeline_one_of_two_sources_removed");
            st.count(&format!("timeline_one_of_two_sources_removed_{event}"));
            st.count(&format!("timeline_kept_source_via_{}", cfg.extras[0].via));
        }
        let f = session(&nx, FRESH);
        // a principal that holds nothing at all (what a chain-naming session is left with)
        principal(&nx, FRESH_NOTHING).await?;
        let f0 = session(&nx, FRESH_NOTHING);
        // events after which the named chain confers nothing
        let chain_is_cut = matches!(event, "revoke" | "revoke_delegation" | "revoke_ancestor_link" | "suspend" | "revoke_principal" | "deny");
        if named.is_some() && chain_is_cut {
            st.count(&format!("timeline_named_chain_event_{event}_{}_links", inst.delegations.len()));
        }
        let mut still_allowed = 0;
        for (i, q) in neutral(&bat).into_iter().enumerate() {
            // p's NEXT request after the event
            let mut a = replace_str(&mask(&observe(&p, &w, &script, 0, q).await), P, "<caller>");
            let mut b = replace_str(&mask(&observe(&f, &w, &script, 0, q).await), FRESH, "<caller>");
            if q.family == "preview" {
                // PREVIEW KML itself advances the Space sequence (observed on the unchanged tree),
                // so two consecutive previews never report the same coordinate
                a = mask_keys(&a, &SEQ_KEYS);
                b = mask_keys(&b, &SEQ_KEYS);
            }
            st.eval();
            st.count("timeline_next_request_checks");
            if succeeded(&a) {
                still_allowed += 1;
                if keeps_extras {
                    st.count("timeline_answered_from_the_kept_source");
                }
            }
            if succeeded(&before[i]) && !succeeded(&a) {
                st.count("timeline_allowed_before_denied_after");
            }
            // "access is denied unless an active owner, grant, delegation or policy statement allows
            // it": a principal that holds nothing is refused every read of the Space's content
            let reads_content = ["FIND", "SEARCH", "HISTORY", "CHANGES", "EXPORT", "PREVIEW"].iter().any(|k| q.cmd.starts_with(k));
            if !keeps_second && !keeps_extras && reads_content {
                st.count("access_checks_principal_without_authority");
                for (who, ans) in [("fresh", &b), ("p_after_the_event", &a)] {
                    if !is_denied(ans) {
                        report(
                            st,
                            format!("C19/access/{who}/answered_without_any_authority"),
                            json!({"case": case, "event": event, "config": format!("{cfg:?}"), "query": q.cmd, "params": w.params(&script, 0, &q.params), "answer": short(ans, 1200)}),
                        );
                    }
                }
            }
            // the chain-naming session's NEXT request: refused, or answered exactly as a principal
            // that holds nothing (commands needing no permission) - or, should the engine let such a
            // session use what p holds besides the chain, as the fresh principal holding that
            if let (Some(named), true) = (&named, chain_is_cut) {
                let mut an = replace_str(&mask(&observe(named, &w, &script, 0, q).await), P, "<caller>");
                let mut b0 = replace_str(&mask(&observe(&f0, &w, &script, 0, q).await), FRESH_NOTHING, "<caller>");
                if q.family == "preview" {
                    an = mask_keys(&an, &SEQ_KEYS);
                    b0 = mask_keys(&b0, &SEQ_KEYS);
                }
                st.eval();
                st.count("timeline_named_chain_next_request_checks");
                if succeeded(&named_before[i]) && !succeeded(&an) {
                    st.count("timeline_named_chain_allowed_before_denied_after");
                }
                if !(is_denied(&an) || an == b0 || an == b) {
                    report(
                        st,
                        format!("C19/timeline/{event}/named_chain_session_next_request_is_not_refused"),
                        json!({"case": case, "event": event, "links": inst.delegations.len(), "config": format!("{cfg:?}"), "query": q.cmd, "params": w.params(&script, 0, &q.params),
                            "first_difference(named chain session|principal holding nothing)": first_diff(&an, &b0, "$"), "named_chain_session": short(&an, 1200), "principal_holding_nothing": short(&b0, 600)}),
                    );
                }
            }
            if a != b {
                report(
                    st,
                    format!("C19/timeline/{event}/next_request_differs_from_fresh_principal"),
                    json!({"case": case, "event": event, "config": format!("{cfg:?}"), "query": q.cmd, "params": w.params(&script, 0, &q.params),
                        "first_difference(p|fresh)": first_diff(&a, &b, "$"), "p": short(&a, 1200), "fresh": short(&b, 1200)}),
                );
            }
        }
        if !keeps_second && !keeps_extras && still_allowed > 0 {
            // p holds nothing any more: the only answers left are those that need no permission
            st.count("timeline_answers_needing_no_permission");
        }
        st.sample(|| json!({"monitor": "timeline", "case": case, "event": event, "path": cfg.path, "allowed_before": allowed_before, "allowed_after": still_allowed}));
        Ok(())
    });
    if let Err(e) = res {
        st.inconclusive(format!("C19 timeline case {case} ({event}): {e}"));
    }
}

/// RFC 3339 instant `ms` milliseconds from now, in the engine's canonical form.
fn chrono_now_plus_ms(ms: u64) -> String {
    let t = std::time::SystemTime::now() + std::time::Duration::from_millis(ms);
    let d = t.duration_since(std::time::UNIX_EPOCH).unwrap();
    let secs = d.as_secs() as i64;
    let millis = d.subsec_millis();
    // civil from days (Howard Hinnant)
    let days = secs.div_euclid(86400);
    let rem = secs.rem_euclid(86400);
    let z = days + 719468;
    let era = z.div_euclid(146097);
    let doe = z.rem_euclid(146097);
    let yoe = (doe - doe / 1460 + doe / 36524 - doe / 146096) / 365;
    let y = yoe + era * 400;
    let doy = doe - (365 * yoe + yoe / 4 - yoe / 100);
    let mp = (5 * doy + 2) / 153;
    let dd = doy - (153 * mp + 2) / 5 + 1;
    let m = if mp < 10 { mp + 3 } else { mp - 9 };
    let y = if m <= 2 { y + 1 } else { y };
    format!("{:04}-{:02}-{:02}T{:02}:{:02}:{:02}.{:03}Z", y, m, dd, rem / 3600, (rem % 3600) / 60, rem % 60, millis)
}

/// Element ids mentioned anywhere in an answer.
fn ids_in(v: &Value, out: &mut BTreeSet<String>) {
    match v {
        Value::String(s) => {
            if let Some((k, n)) = s.split_once('-') {
                if matches!(k, "C" | "P" | "A" | "E" | "X") && !n.is_empty() && n.bytes().all(|b| b.is_ascii_digit()) {
                    out.insert(s.clone());
                }
            }
        }
        Value::Array(a) => a.iter().for_each(|x| ids_in(x, out)),
        Value::Object(m) => m.values().for_each(|x| ids_in(x, out)),
        _ => {}
    }
}

/// Element views mentioned anywhere in an answer: id -> names of the members shown.
fn views_in(v: &Value, out: &mut BTreeMap<String, BTreeSet<String>>) {
    match v {
        Value::Object(m) => {
            if let (Some(Value::String(id)), Some(_)) = (m.get("id"), m.get("kind")) {
                out.entry(id.clone()).or_default().extend(m.keys().cloned());
            }
            m.values().for_each(|x| views_in(x, out));
        }
        Value::Array(a) => a.iter().for_each(|x| views_in(x, out)),
        _ => {}
    }
}

/// How one bound of a Delegation record relates to the same bound of what it descends from.
#[derive(Clone, Copy, Debug, PartialEq, Eq)]
enum Rel {
    /// restated as it is
    Equal,
    /// narrower
    Tighter,
    /// not stated at all (for a list / ceiling that means "everything")
    Empty,
    /// wider than the delegator's
    Looser,
}

/// The bounds a Delegation can (re)state.
const DIMS: [&str; 7] = ["max_classification", "classification_scope", "fields", "max_results", "kinds", "actions", "max_influence_authority"];

/// The (bound, relation) pairs that must confer nothing beyond the delegator's; `None` = every
/// bound of every link is contained. Taken round robin, so that a quick run has them all.
const BAD_SLOTS: [Option<(&str, Rel)>; 16] = [
    Some(("max_classification", Rel::Empty)),
    Some(("max_classification", Rel::Looser)),
    Some(("classification_scope", Rel::Empty)),
    Some(("classification_scope", Rel::Looser)),
    Some(("fields", Rel::Empty)),
    Some(("fields", Rel::Looser)),
    Some(("max_results", Rel::Empty)),
    Some(("max_results", Rel::Looser)),
    Some(("kinds", Rel::Empty)),
    Some(("kinds", Rel::Looser)),
    Some(("actions", Rel::Looser)),
    Some(("max_influence_authority", Rel::Empty)),
    Some(("max_influence_authority", Rel::Looser)),
    Some(("max_classification", Rel::Empty)),
    None,
    None,
];

fn step_on(ladder: &[&'static str], at: &str, up: bool) -> String {
    let i = ladder.iter().position(|l| *l == at).unwrap_or(0);
    let j = if up { (i + 1).min(ladder.len() - 1) } else { i.saturating_sub(1) };
    ladder[j].to_string()
}

/// A Delegation record derived from what it descends from, one relation per bound.
fn derive_link(rng: &mut Rng, parent: &LinkSpec, rel: &dyn Fn(&str) -> Rel) -> LinkSpec {
    let strs = |xs: &[&str]| xs.iter().map(|x| x.to_string()).collect::<Vec<String>>();
    let pc = &parent.constraints;
    let max_classification = match (pc.max_classification.is_empty(), rel("max_classification")) {
        (true, Rel::Tighter) => rng.pick(&["internal", "private", "sensitive"]).to_string(),
        (true, _) => String::new(),
        (false, Rel::Equal) => pc.max_classification.clone(),
        (false, Rel::Tighter) => step_on(&LADDER, &pc.max_classification, false),
        (false, Rel::Empty) => String::new(),
        (false, Rel::Looser) => step_on(&LADDER, &pc.max_classification, true),
    };
    let pl = &parent.scope.classifications;
    let classifications = match (pl.is_empty(), rel("classification_scope")) {
        (true, Rel::Tighter) => labels_up_to(*rng.pick(&["internal", "private", "sensitive"])),
        (true, _) => vec![],
        (false, Rel::Equal) => pl.clone(),
        (false, Rel::Tighter) => pl[..pl.len().max(2) - 1].to_vec(),
        (false, Rel::Empty) => vec![],
        (false, Rel::Looser) => {
            let mut l = pl.clone();
            l.push(LADDER[pl.len().min(LADDER.len() - 1)].to_string());
            l
        }
    };
    let pool: Vec<&str> = CONCEPT_FIELDS.iter().chain(ASSERTION_FIELDS.iter()).chain(["subject", "object", "predicate_ref", "payload", "evidence_class"].iter()).copied().collect();
    let fields = match (pc.fields.is_empty(), rel("fields")) {
        (true, Rel::Tighter) => mask_without(rng, &pool, &[]),
        (true, _) => vec![],
        (false, Rel::Equal) => pc.fields.clone(),
        (false, Rel::Tighter) => pc.fields[..1 + rng.usize(pc.fields.len())].to_vec(),
        (false, Rel::Empty) => vec![],
        (false, Rel::Looser) => {
            let mut f = pc.fields.clone();
            f.extend(pool.iter().filter(|x| !pc.fields.iter().any(|y| y == *x)).take(3).map(|x| x.to_string()));
            f
        }
    };
    let max_results = match (pc.max_results, rel("max_results")) {
        (None, Rel::Tighter) => Some(2 + rng.below(3)),
        (None, _) => None,
        (Some(n), Rel::Equal) => Some(n),
        (Some(n), Rel::Tighter) => Some(n.saturating_sub(1).max(1)),
        (Some(_), Rel::Empty) => None,
        (Some(n), Rel::Looser) => Some(n + 2 + rng.below(3)),
    };
    let pk = &parent.scope.kinds;
    let kinds = match (pk.is_empty(), rel("kinds")) {
        (true, Rel::Tighter) => {
            let mut k = strs(&KINDS);
            rng.shuffle(&mut k);
            k[..2 + rng.usize(2)].to_vec()
        }
        (true, _) => vec![],
        (false, Rel::Equal) => pk.clone(),
        (false, Rel::Tighter) => pk[..1 + rng.usize(pk.len())].to_vec(),
        (false, Rel::Empty) => vec![],
        (false, Rel::Looser) => {
            let mut k = pk.clone();
            k.extend(KINDS.iter().filter(|x| !pk.iter().any(|y| y == *x)).map(|x| x.to_string()));
            k
        }
    };
    let actions = match rel("actions") {
        Rel::Tighter => parent.actions.iter().filter(|a| *a == "read" || *a == "elevate_authority" || rng.chance(2, 3)).cloned().collect(),
        Rel::Looser => {
            let mut a = parent.actions.clone();
            a.extend(READ_ACTIONS.iter().chain(["update", "elevate_authority"].iter()).filter(|x| !parent.actions.iter().any(|y| y == *x)).map(|x| x.to_string()));
            a
        }
        _ => parent.actions.clone(),
    };
    let max_influence_authority = match (pc.max_influence_authority.is_empty(), rel("max_influence_authority")) {
        (true, Rel::Tighter) => "behavioral".to_string(),
        (true, _) => String::new(),
        (false, Rel::Equal) => pc.max_influence_authority.clone(),
        (false, Rel::Tighter) => step_on(&INFLUENCE, &pc.max_influence_authority, false),
        (false, Rel::Empty) => String::new(),
        (false, Rel::Looser) => step_on(&INFLUENCE, &pc.max_influence_authority, true),
    };
    LinkSpec {
        actions,
        scope: AuthorityScope { kinds, classifications, ..Default::default() },
        constraints: AuthorityConstraints { fields, max_results, max_influence_authority, max_classification, export: pc.export },
    }
}

/// "A delegation never confers more than its delegator currently holds."
///
/// Every Delegation record states its own bounds, drawn independently of the delegator's: not
/// stated / restated / narrower / WIDER, per bound (classification ceiling as constraint and as
/// scope list, field mask, max_results, kinds, actions, influence-authority ceiling), in chains of
/// one to three links. Whatever the engine makes of a record, the delegate (a) is denied wherever
/// a delegator up the chain is, (b) sees no element id, (c) no member of an element and (d) no
/// more rows than that delegator, and (e) raises no element's influence authority where that
/// delegator is refused - on a population that has elements above every ceiling.
fn delegation_case(case: u64, rng: &mut Rng, st: &mut Stats) {
    let script = gen_script(rng, 4);
    let mut cfg = gen_cfg(rng);
    cfg.second_grant = false;
    cfg.deny_label = None;
    // --- the delegator's grant states the bound under test; the links are drawn against it
    // every other case has a link that must confer nothing beyond the delegator's; the others are
    // contained in every bound (restated or narrower), so that the delegate does hold something
    let slot = if case % 2 == 0 { BAD_SLOTS[((case / 2) % BAD_SLOTS.len() as u64) as usize] } else { None };
    // (a link under test sits more often in a chain, and there more often behind the first link)
    cfg.path = if rng.chance(if slot.is_some() { 1 } else { 2 }, 4) { "delegation" } else { "chain" };
    let n_links = if cfg.path == "delegation" { 1 } else { 2 + rng.usize(2) };
    let bad_link = if n_links > 1 && rng.chance(2, 3) { 1 + rng.usize(n_links - 1) } else { 0 };
    // "only an earlier link has the ceiling": the grant does not state the bound under test at
    // all, the link before the one under test narrows it, the one under test drops or widens it
    let bound_from_link = slot.is_some_and(|s| s.0 != "actions") && bad_link >= 1 && rng.bool();
    match slot.map(|s| s.0) {
        Some("max_classification") if bound_from_link => cfg.ceiling_as_scope = true,
        Some("classification_scope") if bound_from_link => cfg.ceiling_as_scope = false,
        Some("fields") if bound_from_link => cfg.fields = vec![],
        Some("max_results") if bound_from_link => cfg.max_results = None,
        Some("kinds") if bound_from_link => cfg.kinds = vec![],
        Some("max_classification") => cfg.ceiling_as_scope = false,
        Some("classification_scope") => cfg.ceiling_as_scope = true,
        Some("fields") if cfg.fields.is_empty() => cfg.fields = vec!["name".into(), "_system".into(), "stance".into(), "subject".into(), "object".into()],
        Some("max_results") if cfg.max_results.is_none() => cfg.max_results = Some(1 + rng.below(3)),
        Some("kinds") if cfg.kinds.is_empty() || cfg.kinds.len() == KINDS.len() => {
            cfg.kinds = vec!["concept".into(), (*rng.pick(&["proposition", "assertion"])).to_string()];
        }
        Some("actions") => {
            let drop = *rng.pick(&["search", "read_history", "export"]);
            cfg.actions.retain(|a| a != drop);
        }
        _ => {}
    }
    if slot.map(|s| s.0) == Some("max_influence_authority") || rng.chance(1, 3) {
        cfg.influence = if slot.map(|s| s.0) == Some("max_influence_authority") && bound_from_link { "" } else { *rng.pick(&["advisory", "behavioral"]) };
        cfg.actions.push("elevate_authority".into());
    }
    let mut parent = LinkSpec { actions: cfg.actions.clone(), scope: cfg.scope(), constraints: cfg.constraints() };
    for i in 0..n_links {
        let loose_here = slot.filter(|_| i == bad_link);
        let contained: Vec<Rel> = DIMS.iter().map(|_| if rng.chance(1, 4) { Rel::Tighter } else { Rel::Equal }).collect();
        let narrowed_here = slot.filter(|_| bound_from_link && i + 1 == bad_link);
        let link = derive_link(rng, &parent, &|dim: &str| match (loose_here, narrowed_here) {
            (Some((d, r)), _) if d == dim => r,
            (_, Some((d, _))) if d == dim => Rel::Tighter,
            _ => contained[DIMS.iter().position(|x| *x == dim).unwrap_or(0)],
        });
        cfg.links.push(link.clone());
        parent = link;
    }
    let slot_key = match slot {
        Some((d, r)) => format!("{d}_{}", format!("{r:?}").to_lowercase()),
        None => "every_bound_contained".to_string(),
    };
    let bat = battery(rng, &script, false);
    let res: Result<(), String> = vcore::run::block_on(async {
        let nx = fresh_nexus(&format!("c19_dg_{case}")).await?;
        let gov = nx.governance();
        let mut w = World::plain(nx.clone());
        // (script coordinates - `SeqOfStep`, `TxOfStep` - count from here: every step is one commit)
        w.start_seq = space_seq(&w.nx).await?;
        run_steps(&mut w, &script, &script.steps, 0).await?;
        let mut none = vec![];
        let inst = install(&nx, &cfg, P, "", &mut none).await?;
        let delegate = session(&nx, P);
        // the delegate again, through a session that names the whole chain (delegator-first)
        let delegate_named = nx.session(AuthContext::principal(P).with_delegation_chain(inst.delegations.iter().map(|d| anda_cognitive_nexus::governance::store::delegation_id(*d)).collect()));
        // the root delegator and, in a chain, the delegate's own delegator
        // (name, session, whether a result cap makes the SET of rows it is shown arbitrary)
        // every principal up the chain: the delegate holds no more than any of them
        let mut delegators: Vec<(&str, Session, bool)> = vec![];
        for (j, node) in [LEAD, MID, MID2].iter().take(n_links).enumerate() {
            let capped = cfg.max_results.is_some() || cfg.links[..j].iter().any(|l| l.constraints.max_results.is_some());
            let name = if j == 0 { "root_delegator" } else if j + 1 == n_links { "immediate_delegator" } else { "intermediate_delegator" };
            delegators.push((name, session(&nx, node), capped));
        }
        st.count(&format!("delegation_links_{n_links}"));
        st.count(&format!("delegation_link_{slot_key}"));
        if bound_from_link {
            st.count("delegation_bound_stated_by_an_earlier_link_only");
        }
        if slot.is_some() {
            st.count(&format!("delegation_unbounded_or_wider_link_at_{}", if bad_link == 0 { "first" } else if bad_link + 1 == n_links { "last" } else { "middle" }));
        }
        // (cases whose links are all contained: the delegate holds something, and loses it when its
        // own - the last - Delegation is revoked, before the delegator loses anything)
        let mut phases = vec!["initial"];
        if slot.is_none() && (case / 4) % 2 == 0 {
            phases.push("last_link_revoked");
        } else {
            phases.push(["narrowed_ceiling", "narrowed_kinds", "narrowed_actions", "delegator_suspended"][(case % 4) as usize]);
        }
        phases.push("revoked");
        // which battery entries each delegate session was answered in the previous phase
        let mut answered_before: [Vec<bool>; 2] = [vec![false; bat.len()], vec![false; bat.len()]];
        for phase in phases {
            match phase {
                "initial" => {}
                "last_link_revoked" => {
                    gov.revoke_delegation(*inst.delegations.last().ok_or("no delegation installed")?, SYSTEM_PRINCIPAL).await.map_err(gerr("revoke_delegation (last link)"))?;
                }
                "revoked" => {
                    // whatever the delegator holds now goes away
                    for g in gov.grants_for(DEFAULT_SPACE, LEAD, &[]).await.map_err(gerr("grants_for"))? {
                        gov.revoke_grant(g._id, SYSTEM_PRINCIPAL).await.map_err(gerr("revoke_grant"))?;
                    }
                }
                "delegator_suspended" => {
                    gov.set_principal_status(LEAD, status::SUSPENDED, SYSTEM_PRINCIPAL).await.map_err(gerr("suspend"))?;
                }
                narrowed => {
                    gov.revoke_grant(inst.grants[0], SYSTEM_PRINCIPAL).await.map_err(gerr("revoke_grant"))?;
                    let mut c2 = cfg.clone();
                    match narrowed {
                        "narrowed_ceiling" => c2.ceiling = "public",
                        "narrowed_kinds" => c2.kinds = vec!["evidence".into()],
                        _ => c2.actions = vec!["discover".into()],
                    }
                    gov.create_grant(
                        GrantDraft {
                            space_id: DEFAULT_SPACE.into(),
                            grantee_principal: LEAD.into(),
                            actions: c2.actions.clone(),
                            scope: c2.scope(),
                            constraints: c2.constraints(),
                            delegation_allowed: true,
                            ..Default::default()
                        },
                        SYSTEM_PRINCIPAL,
                    )
                    .await
                    .map_err(gerr("create_grant narrowed"))?;
                }
            }
            st.count(&format!("delegation_phase_{phase}"));
            let mut delegate_allowed_some = false;
            for (qi, q) in bat.iter().enumerate() {
                let a_del = mask(&observe(&delegate, &w, &script, 0, q).await);
                if succeeded(&a_del) {
                    st.count("delegation_delegate_allowed");
                    // (commands like DESCRIBE PRIMER need no permission at all)
                    delegate_allowed_some |= q.family == "element";
                }
                let a_named = mask(&observe(&delegate_named, &w, &script, 0, q).await);
                if succeeded(&a_named) {
                    st.count("delegation_named_chain_delegate_allowed");
                }
                if phase == "last_link_revoked" {
                    // the delegate's own Delegation is gone and it holds nothing else: every read of
                    // the Space's content is refused on its next request, however the session was opened
                    let reads_content = ["FIND", "SEARCH", "HISTORY", "CHANGES", "EXPORT", "PREVIEW"].iter().any(|k| q.cmd.starts_with(k));
                    for (k, (how, ans)) in [("plain", &a_del), ("named_chain", &a_named)].into_iter().enumerate() {
                        if !reads_content {
                            continue;
                        }
                        st.eval();
                        st.count("delegation_last_link_revoked_checks");
                        if answered_before[k][qi] {
                            st.count(&format!("delegation_last_link_revoked_checks_{how}_session_answered_before"));
                        }
                        if !is_denied(ans) {
                            report(
                                st,
                                format!("C19/delegation/last_link_revoked/{how}_session_of_the_delegate_is_not_refused"),
                                json!({"case": case, "phase": phase, "session": how, "links": n_links, "config": format!("{cfg:?}"), "query": q.cmd, "params": w.params(&script, 0, &q.params),
                                    "answered_before_the_revocation": answered_before[k][qi], "delegate": short(ans, 1200)}),
                            );
                        }
                    }
                    continue;
                }
                answered_before[0][qi] = succeeded(&a_del);
                answered_before[1][qi] = succeeded(&a_named);
                for (who, delegator, capped) in &delegators {
                    let a_lead = mask(&observe(delegator, &w, &script, 0, q).await);
                    st.eval();
                    st.count("delegation_checks");
                    st.count(&format!("delegation_checks_against_the_{who}"));
                    let ctx = |what: &str| json!({"case": case, "phase": phase, "against": who, "what": what, "links": n_links, "link_under_test": slot_key, "at_link": bad_link, "bound_stated_by_an_earlier_link_only": bound_from_link, "config": format!("{cfg:?}"), "query": q.cmd,
                        "params": w.params(&script, 0, &q.params), "delegator": short(&a_lead, 1000), "delegate": short(&a_del, 1000)});
                    if is_denied(&a_lead) {
                        st.count("delegation_delegator_denied");
                        if !is_denied(&a_del) && succeeded(&a_del) {
                            report(st, format!("C19/delegation/{phase}/delegate_allowed_where_delegator_is_denied"), ctx("denied to the delegator, answered to the delegate"));
                        }
                    }
                    // the chain-naming session of the delegate: the same oracles (denied where the
                    // delegator is, no id beyond it, no more rows)
                    {
                        st.count("delegation_named_chain_checks");
                        let ctx_named = |what: &str| json!({"case": case, "phase": phase, "against": who, "what": what, "session": "names the delegation chain", "links": n_links, "link_under_test": slot_key, "at_link": bad_link, "config": format!("{cfg:?}"), "query": q.cmd,
                            "params": w.params(&script, 0, &q.params), "delegator": short(&a_lead, 1000), "delegate": short(&a_named, 1000)});
                        if is_denied(&a_lead) && succeeded(&a_named) {
                            report(st, format!("C19/delegation/{phase}/named_chain_delegate_allowed_where_delegator_is_denied"), ctx_named("denied to the delegator, answered to the delegate's chain-naming session"));
                        }
                        let monotone = matches!(q.family, "element" | "element_by_id" | "tuple" | "path" | "history" | "changes" | "journal") && !q.cmd.contains("LIMIT");
                        if monotone && !*capped && succeeded(&a_named) && succeeded(&a_lead) {
                            let (mut x, mut y) = (BTreeSet::new(), BTreeSet::new());
                            ids_in(&a_named["results"][0]["result"], &mut x);
                            ids_in(&a_lead["results"][0]["result"], &mut y);
                            st.count("delegation_named_chain_subset_checks");
                            let extra: Vec<&String> = x.difference(&y).collect();
                            if !extra.is_empty() {
                                report(st, format!("C19/delegation/{phase}/named_chain_delegate_sees_more_than_delegator"), json!({"case": case, "extra_ids": extra, "context": ctx_named("ids visible to the delegate's chain-naming session only")}));
                            }
                            let rows = |a: &Value| a["results"][0]["result"].as_array().map(|r| r.len());
                            if let (Some(rd), Some(rl), true) = (rows(&a_named), rows(&a_lead), matches!(q.family, "element" | "tuple" | "path")) {
                                if rd > rl {
                                    report(st, format!("C19/delegation/{phase}/named_chain_delegate_gets_more_rows_than_delegator"), json!({"case": case, "rows_delegate": rd, "rows_delegator": rl, "context": ctx_named("more rows for the delegate's chain-naming session")}));
                                }
                            }
                        }
                    }
                    if !(succeeded(&a_del) && succeeded(&a_lead)) {
                        continue;
                    }
                    // the delegate never sees an element the delegator cannot see (monotone queries only)
                    let monotone = matches!(q.family, "element" | "element_by_id" | "tuple" | "path" | "history" | "changes" | "journal") && !q.cmd.contains("LIMIT");
                    if monotone && !*capped {
                        let (mut x, mut y) = (BTreeSet::new(), BTreeSet::new());
                        ids_in(&a_del["results"][0]["result"], &mut x);
                        ids_in(&a_lead["results"][0]["result"], &mut y);
                        st.count("delegation_subset_checks");
                        if !y.is_empty() {
                            st.count("delegation_subset_checks_delegator_sees_something");
                        }
                        let extra: Vec<&String> = x.difference(&y).collect();
                        if !extra.is_empty() {
                            report(st, format!("C19/delegation/{phase}/delegate_sees_more_than_delegator"), json!({"case": case, "extra_ids": extra, "context": ctx("ids visible to the delegate only")}));
                        }
                    }
                    // ... nor more rows: its result cap is at most the delegator's and it matches
                    // within a subset of the delegator's elements
                    if monotone && matches!(q.family, "element" | "tuple" | "path") {
                        let rows = |a: &Value| a["results"][0]["result"].as_array().map(|r| r.len());
                        if let (Some(rd), Some(rl)) = (rows(&a_del), rows(&a_lead)) {
                            st.count("delegation_row_count_checks");
                            if *capped && rd == rl && rd > 0 {
                                st.count("delegation_row_count_checks_delegator_at_its_cap");
                            }
                            if rd > rl {
                                report(st, format!("C19/delegation/{phase}/delegate_gets_more_rows_than_delegator"), json!({"case": case, "rows_delegate": rd, "rows_delegator": rl, "context": ctx("more rows for the delegate")}));
                            }
                        }
                    }
                    // ... nor more of any element both of them are shown (field mask); FIND answers
                    // only: they carry the redacted views themselves, where a capsule or a history
                    // entry may describe an element it does not show by a record of another shape
                    if !q.cmd.starts_with("FIND") {
                        continue;
                    }
                    let (mut vd, mut vl) = (BTreeMap::new(), BTreeMap::new());
                    views_in(&a_del["results"][0]["result"], &mut vd);
                    views_in(&a_lead["results"][0]["result"], &mut vl);
                    for (id, members) in &vd {
                        let Some(shown) = vl.get(id) else { continue };
                        st.count("delegation_view_checks");
                        if !cfg.fields.is_empty() {
                            st.count("delegation_view_checks_delegator_is_masked");
                        }
                        let extra: Vec<&String> = members.difference(shown).collect();
                        if !extra.is_empty() {
                            report(st, format!("C19/delegation/{phase}/delegate_is_shown_members_the_delegator_is_not"), json!({"case": case, "element": id, "extra_members": extra, "context": ctx("members of an element shown to the delegate only")}));
                            break;
                        }
                    }
                }
            }
            if delegate_allowed_some {
                st.count(&format!("delegation_link_{slot_key}_conferred_something_{}", if phase == "initial" { "initially" } else { "later" }));
            }
            // the influence-authority ceiling: raising an element's ceiling is refused to the
            // delegate wherever it is refused to a delegator (same element, put back in between)
            if phase != "revoked" && cfg.actions.iter().any(|a| a == "elevate_authority") {
                let owner = nx.system_session();
                let target = element_id(&w.id("person0"))?;
                let reset = || async { owner.elevate_authority(DEFAULT_SPACE, target, "descriptive").await.map(|_| ()).map_err(gerr("reset influence authority")) };
                for class in ["advisory", "behavioral", "executable"] {
                    let by_delegate = delegate.elevate_authority(DEFAULT_SPACE, target, class).await;
                    reset().await?;
                    for (who, delegator, _) in &delegators {
                        let by_delegator = delegator.elevate_authority(DEFAULT_SPACE, target, class).await;
                        reset().await?;
                        st.eval();
                        st.count("delegation_influence_checks");
                        if by_delegator.is_err() {
                            st.count("delegation_influence_delegator_refused");
                        } else {
                            st.count("delegation_influence_delegator_allowed");
                        }
                        if by_delegate.is_ok() {
                            st.count("delegation_influence_delegate_allowed");
                        }
                        if let (Ok(_), Err(e)) = (&by_delegate, &by_delegator) {
                            report(
                                st,
                                format!("C19/delegation/{phase}/delegate_raises_influence_authority_where_delegator_is_refused"),
                                json!({"case": case, "phase": phase, "against": who, "class": class, "element": target.to_string(), "links": n_links, "link_under_test": slot_key, "at_link": bad_link,
                                    "config": format!("{cfg:?}"), "delegator_refused_with": format!("{} {}", e.name(), e.message)}),
                            );
                        }
                    }
                }
            }
        }
        st.sample(|| json!({"monitor": "delegation", "case": case, "links": n_links, "link_under_test": slot_key, "at_link": bad_link, "grant": {"actions": cfg.actions, "scope": format!("{:?}", cfg.scope()), "constraints": format!("{:?}", cfg.constraints())},
            "records": cfg.links.iter().map(|l| format!("{l:?}")).collect::<Vec<_>>()}));
        Ok(())
    });
    if let Err(e) = res {
        st.inconclusive(format!("C19 delegation case {case}: {e}"));
    }
}

// ---------------------------------------------------------------------------------------------
// monitor 2b: the standing of a delegator
//
// "An explicit deny, a revocation, suspension or expiry takes effect on the very next request; a
// delegation never confers more than its delegator currently holds." A delegator D holds what it
// delegates by ONE kind of standing - listed in the Space's `owners` (co-owner), the Space's
// `owner_principal`, a direct Grant, a Grant to a group it belongs to, a Policy allow statement, or a
// Delegation of its own (D is itself a delegate: its upstream is a co-owner or a grantee) - and
// delegates to P, which (every other case) re-delegates to SUB. P sometimes holds a narrow Grant of
// its own beside the Delegation. Then D's standing changes through the control plane, one event
// after the other: suspended, reactivated, revoked, reactivated, the standing itself taken away
// (removed from `owners`, `owner_principal` reassigned, Grant revoked, group left, statement
// withdrawn, D's own Delegation revoked) and given back, D's upstream suspended / reactivated, or
// the Grant's `valid_until` passing (a real instant a fraction of a second ahead, waited for).
// After EVERY event, before anybody else asks anything, the principals downstream of D send their
// next request (plain sessions and sessions that name their chain), then D, then two fresh
// principals. Oracles, whenever D holds nothing by construction:
//  * D's answers equal, byte for byte modulo the principal id, those of a principal that never
//    held anything;
//  * P's / SUB's answers equal those of a fresh principal that holds only what P / SUB holds
//    BESIDE the Delegation (nothing, or the narrow Grant); their chain-naming sessions are
//    refused, or answered like a principal holding nothing;
// and after every event: whatever is refused to D now is not answered to P / SUB now (unless
// their own Grant answers it). What a reactivated / restored D and its delegates get back is
// counted, not asserted.

const DELEGATOR: &str = "kip:principal:delegator";
const UPSTREAM: &str = "kip:principal:upstream";
const SUB: &str = "kip:principal:sub";
const DELEGATORS_GROUP: &str = "kip:group:delegators";
const STANDINGS: [&str; 6] = ["co_owner", "owner_principal", "grantee", "group_member", "policy_allowed", "delegate_of_a_delegate"];

/// A short battery over every command family (the non-interference battery is the wide one):
/// reads, search, chronology, change feed, journal lookups by id and by key, the version log
/// (AS OF and a snapshot token), export, projection, preview, discovery - and one write.
fn standing_battery(s: &Script) -> Vec<Q> {
    let lit = |v: Value| PVal::Lit(v);
    let word = s.visible_names.first().and_then(|n| n.split(' ').next()).unwrap_or("alpha").to_string();
    let step = |tag: &str| s.journal.iter().find(|j| j.tag == tag).map(|j| j.step).unwrap_or(0);
    vec![
        q("element", r#"FIND(?c.id, ?c.name) WHERE { ?c CONCEPT {type: "Person"} }"#),
        q("element", r#"FIND(?a.id, ?a.stance) WHERE { ?a ASSERTION {} }"#),
        q("tuple", r#"FIND(?p.id, ?s.id, ?o.id) WHERE { ?p PROPOSITION (?s, ?pred, ?o) }"#),
        q("aggregate", r#"FIND(COUNT(?c)) WHERE { ?c CONCEPT {} }"#),
        qp("search", "SEARCH CONCEPT :term", vec![("term", lit(json!(word)))]),
        q("history", "HISTORY SPACE"),
        q("changes", "CHANGES AFTER SEQ 0 LIMIT 5"),
        qp("journal", "DESCRIBE TRANSACTION :tx", vec![("tx", PVal::TxOfStep(step("visible")))]),
        q("journal", r#"DESCRIBE TRANSACTION BY IDEMPOTENCY KEY "job:visible""#),
        q("journal", r#"DESCRIBE TRANSACTION BY IDEMPOTENCY KEY "job:hidden""#),
        qp("journal", r#"FIND(?c.id, ?c.attributes.jr) WHERE { ?c CONCEPT {type: "Person"} } AS OF TX :tx"#, vec![("tx", PVal::TxOfStep(step("mixed")))]),
        Q { token_of_step: Some(step("visible")), ..q("journal", r#"FIND(?c.id) WHERE { ?c CONCEPT {type: "Person"} }"#) },
        q("export", r#"EXPORT CAPSULE ?c WHERE { ?c CONCEPT {type: "Person"} }"#),
        q("belief", r#"FIND(?p.id, ?b.status) WHERE { ?p PROPOSITION (?s, ?pred, ?o) ?b BELIEF (?p) }"#),
        q("sequence", "SNAPSHOT"),
        q("describe_list", "DESCRIBE PRIMER"),
        q("describe_list", "LIST TYPES"),
        qp("preview", "PREVIEW KML :cmd", vec![("cmd", lit(json!(r#"ARCHIVE ?c WHERE { ?c CONCEPT {type: "Person"} } LIMIT 5"#)))]),
        // (last: the first session it is allowed to commits it, the others then write nothing new)
        qp("write", "UPDATE :t SET ATTRIBUTES {touched: true}", vec![("t", PVal::Id(s.journal_visible.clone()))]),
    ]
}

/// Gives `who` one kind of standing; returns the Grant it rests on, where it is a Grant.
async fn give_standing(nx: &CognitiveNexus, kind: &str, who: &str, actions: &[String], constraints: &AuthorityConstraints, conditions: &AuthorityConditions) -> Result<Option<u64>, String> {
    let gov = nx.governance();
    let grant = |grantee: &str, group: &str| GrantDraft {
        space_id: DEFAULT_SPACE.into(),
        grantee_principal: grantee.to_string(),
        grantee_group: group.to_string(),
        actions: actions.to_vec(),
        constraints: constraints.clone(),
        conditions: conditions.clone(),
        delegation_allowed: true,
        ..Default::default()
    };
    match kind {
        "co_owner" | "owner_principal" => {
            let mut space = nx.store.get_space(DEFAULT_SPACE).await.map_err(gerr("get_space"))?;
            if kind == "co_owner" {
                if !space.owners.iter().any(|o| o == who) {
                    space.owners.push(who.to_string());
                }
            } else {
                // (the system Principal the harness acts as stays an owner)
                if !space.owners.iter().any(|o| o == SYSTEM_PRINCIPAL) {
                    space.owners.push(SYSTEM_PRINCIPAL.to_string());
                }
                space.owner_principal = who.to_string();
            }
            nx.store.put_space(&space).await.map_err(gerr("put_space"))?;
            Ok(None)
        }
        "grantee" => Ok(Some(gov.create_grant(grant(who, ""), SYSTEM_PRINCIPAL).await.map_err(gerr("create_grant (standing)"))?._id)),
        "group_member" => {
            gov.put_group(GroupDraft { group_id: DELEGATORS_GROUP.into(), name: "delegators".into(), description: "verif".into(), members: vec![who.to_string()] }, SYSTEM_PRINCIPAL)
                .await
                .map_err(gerr("put_group (standing)"))?;
            // the group's Grant is issued once; leaving and joining the group is what changes
            let held = gov.grants_for(DEFAULT_SPACE, "", &[DELEGATORS_GROUP.to_string()]).await.map_err(gerr("grants_for"))?;
            match held.first() {
                Some(g) => Ok(Some(g._id)),
                None => Ok(Some(gov.create_grant(grant("", DELEGATORS_GROUP), SYSTEM_PRINCIPAL).await.map_err(gerr("create_grant (standing, group)"))?._id)),
            }
        }
        "policy_allowed" => {
            set_policy(nx, vec![PolicyStatement { effect: "allow".into(), principals: vec![who.to_string()], actions: actions.to_vec(), constraints: constraints.clone(), conditions: conditions.clone(), ..Default::default() }]).await?;
            Ok(None)
        }
        other => Err(format!("no such standing: {other}")),
    }
}

/// Takes the standing away again; returns the name of the event.
async fn take_standing(nx: &CognitiveNexus, kind: &str, who: &str, grant: Option<u64>) -> Result<&'static str, String> {
    let gov = nx.governance();
    match kind {
        "co_owner" | "owner_principal" => {
            let mut space = nx.store.get_space(DEFAULT_SPACE).await.map_err(gerr("get_space"))?;
            if kind == "co_owner" {
                space.owners.retain(|o| o != who);
            } else {
                space.owner_principal = SYSTEM_PRINCIPAL.to_string();
            }
            nx.store.put_space(&space).await.map_err(gerr("put_space"))?;
            Ok(if kind == "co_owner" { "removed_from_owners" } else { "owner_principal_reassigned" })
        }
        "grantee" => {
            gov.revoke_grant(grant.ok_or("no grant to revoke")?, SYSTEM_PRINCIPAL).await.map_err(gerr("revoke_grant (standing)"))?;
            Ok("grant_revoked")
        }
        "group_member" => {
            gov.put_group(GroupDraft { group_id: DELEGATORS_GROUP.into(), name: "delegators".into(), description: "verif".into(), members: vec![] }, SYSTEM_PRINCIPAL)
                .await
                .map_err(gerr("put_group (standing, leave)"))?;
            Ok("leaves_group")
        }
        "policy_allowed" => {
            set_policy(nx, vec![]).await?;
            Ok("policy_withdrawn")
        }
        other => Err(format!("no such standing: {other}")),
    }
}

/// A principal downstream of the delegator.
struct Downstream {
    role: &'static str,
    id: &'static str,
    plain: Session,
    named: Session,
    /// holds a narrow Grant of its own beside the Delegation (the fresh principal holds the same)
    own_grant: bool,
}

struct StandingCx<'a> {
    case: u64,
    standing: &'static str,
    w: &'a World,
    script: &'a Script,
    bat: &'a [Q],
    downs: Vec<Downstream>,
    delegator: Session,
    fresh: Session,
    fresh0: Session,
    setup: Value,
}

/// What a round observed: whether the delegator / a delegate (by virtue of the Delegation) was
/// answered a read of the Space's content.
#[derive(Default)]
struct RoundSeen {
    delegator_answered: bool,
    delegate_answered: bool,
    sub_answered: bool,
}

/// One round of next requests after `event`. `holds_nothing`: the delegator holds nothing by
/// construction (not active, standing taken away, upstream not active, or lapsed).
async fn standing_round(cx: &StandingCx<'_>, st: &mut Stats, event: &str, holds_nothing: bool) -> RoundSeen {
    let mut seen = RoundSeen::default();
    let norm = |v: Value, id: &str, q: &Q| {
        let v = replace_str(&mask(&v), id, "<caller>");
        // (PREVIEW KML and a committed write advance the Space sequence between two askers)
        if matches!(q.family, "preview" | "write") { mask_keys(&v, &SEQ_KEYS) } else { v }
    };
    let (standing, case) = (cx.standing, cx.case);
    for q in cx.bat {
        let reads_content = ["FIND", "SEARCH", "HISTORY", "CHANGES", "EXPORT", "PREVIEW", "DESCRIBE TRANSACTION", "SNAPSHOT"].iter().any(|k| q.cmd.starts_with(k));
        // the VERY NEXT request of every principal downstream of the change comes first
        let mut answers = vec![];
        for d in &cx.downs {
            let plain = norm(observe(&d.plain, cx.w, cx.script, 0, q).await, d.id, q);
            let named = norm(observe(&d.named, cx.w, cx.script, 0, q).await, d.id, q);
            answers.push((plain, named));
        }
        let a_d = norm(observe(&cx.delegator, cx.w, cx.script, 0, q).await, DELEGATOR, q);
        let b = norm(observe(&cx.fresh, cx.w, cx.script, 0, q).await, FRESH, q);
        let b0 = norm(observe(&cx.fresh0, cx.w, cx.script, 0, q).await, FRESH_NOTHING, q);
        st.eval();
        st.count("standing_checks");
        let ctx = |what: &str, who: &str, got: &Value, want: &Value| {
            json!({"case": case, "section": "standing", "standing": standing, "event": event, "what": what, "who": who, "setup": cx.setup, "query": q.cmd, "params": cx.w.params(cx.script, 0, &q.params),
                "first_difference(got|expected)": first_diff(got, want, "$"), "got": short(got, 1200), "expected": short(want, 800), "delegator_now": short(&a_d, 400)})
        };
        if succeeded(&a_d) && reads_content {
            seen.delegator_answered = true;
        }
        if holds_nothing {
            st.count("standing_checks_delegator_holds_nothing");
            if a_d != b0 {
                report(st, format!("C19/standing/{standing}/{event}/delegator_next_request_differs_from_a_principal_holding_nothing"), ctx("the delegator holds nothing now", DELEGATOR, &a_d, &b0));
            }
        }
        for (d, (plain, named)) in cx.downs.iter().zip(&answers) {
            // what this principal holds besides the Delegation answers this much
            let besides = if d.own_grant { &b } else { &b0 };
            if succeeded(plain) && reads_content && !succeeded(besides) {
                if d.role == "delegate" {
                    seen.delegate_answered = true;
                } else {
                    seen.sub_answered = true;
                }
            }
            if holds_nothing {
                st.count("standing_downstream_next_request_checks");
                st.count(&format!("standing_downstream_next_request_checks_{}", d.role));
                if d.own_grant {
                    st.count("standing_downstream_next_request_checks_delegate_keeps_a_grant_of_its_own");
                    if succeeded(besides) {
                        st.count("standing_downstream_answered_from_its_own_grant");
                    }
                }
                // (one signature per standing and event: which principal downstream, through which
                // kind of session, is in the detail)
                if plain != besides {
                    report(
                        st,
                        format!("C19/standing/{standing}/{event}/downstream_next_request_differs_from_a_principal_without_the_delegation"),
                        ctx(&format!("the delegator holds nothing now: its Delegation confers nothing, the {} is left with what it holds besides", d.role), d.id, plain, besides),
                    );
                }
                st.count("standing_downstream_named_chain_checks");
                if !(is_denied(named) || named == &b0 || named == besides) {
                    report(
                        st,
                        format!("C19/standing/{standing}/{event}/downstream_next_request_differs_from_a_principal_without_the_delegation"),
                        ctx(&format!("the delegator holds nothing now: the {}'s session naming the chain through it is refused, or answered like a principal holding nothing", d.role), d.id, named, &b0),
                    );
                }
            }
            // whatever the delegator's standing: refused to it now => not answered to its delegates now
            // (where it holds nothing this is what the comparison above already says)
            if is_denied(&a_d) {
                st.count("standing_delegator_denied_checks");
                for (how, ans, sess) in [("plain", plain, &d.plain), ("chain-naming", named, &d.named)] {
                    if !holds_nothing && succeeded(ans) && !succeeded(besides) {
                        // the delegate asked BEFORE the delegator did, and an authority may lapse in
                        // between (`valid_until` is a real instant): what counts is its next request
                        // now that the delegator has been refused
                        let again = norm(observe(sess, cx.w, cx.script, 0, q).await, d.id, q);
                        st.count("standing_downstream_asked_again_after_the_delegator_was_refused");
                        if succeeded(&again) {
                            report(
                                st,
                                format!("C19/standing/{standing}/{event}/downstream_answered_where_the_delegator_is_refused"),
                                ctx(&format!("refused to the delegator, and answered afterwards to the {how} session of the {}, which holds it only through the delegator's Delegation", d.role), d.id, &again, &a_d),
                            );
                        }
                    }
                }
            }
        }
    }
    seen
}

fn standing_case(case: u64, rng: &mut Rng, st: &mut Stats) {
    let standing = STANDINGS[(case % STANDINGS.len() as u64) as usize];
    let round = case / STANDINGS.len() as u64;
    let script = gen_script(rng, 3);
    let bat = standing_battery(&script);
    // P re-delegates to SUB in every other case; the order of the events rotates, so that each
    // kind is sometimes the FIRST change after a quiet period
    let depth2 = round % 2 == 1;
    let order = round % 3;
    let upstream_standing = if (round / 2) % 2 == 0 { "co_owner" } else { "grantee" };
    let own_grant = rng.chance(1, 3);
    let ceiling = *rng.pick(&["", "internal", "private", "sensitive"]);
    let expiry = order == 2 && matches!(standing, "grantee" | "group_member");
    let mut actions: Vec<String> = READ_ACTIONS.iter().map(|a| a.to_string()).collect();
    if rng.bool() {
        actions.push("update".into());
    }
    let chain = standing == "delegate_of_a_delegate";
    let res: Result<(), String> = vcore::run::block_on(async {
        let nx = fresh_nexus(&format!("c19_st_{case}")).await?;
        let gov = nx.governance();
        let mut w = World::plain(nx.clone());
        w.start_seq = space_seq(&w.nx).await?;
        run_steps(&mut w, &script, &script.steps, 0).await?;
        for id in [DELEGATOR, UPSTREAM, P, SUB, FRESH, FRESH_NOTHING] {
            principal(&nx, id).await?;
        }
        let constraints = AuthorityConstraints { max_classification: ceiling.to_string(), export: true, ..Default::default() };
        // (an expiring standing lapses a fraction of a second from now; every Delegation under it
        // restates the instant, or it would outlive its delegator and confer nothing from the start)
        let lapses_at = std::time::Instant::now() + std::time::Duration::from_millis(1500);
        let conditions = AuthorityConditions { valid_until: if expiry { chrono_now_plus_ms(1500) } else { String::new() }, ..Default::default() };
        let link = |from: &str, to: &str, parent: String, redelegate: bool| DelegationDraft {
            space_id: DEFAULT_SPACE.into(),
            delegator_principal: from.to_string(),
            delegate_principal: to.to_string(),
            actions: actions.clone(),
            constraints: constraints.clone(),
            conditions: conditions.clone(),
            parent_delegation: parent,
            may_redelegate: redelegate,
            ..Default::default()
        };
        let did = anda_cognitive_nexus::governance::store::delegation_id;
        // --- the delegator's standing
        let mut chain_ids: Vec<String> = vec![];
        let mut grant = None;
        let mut own_link = None;
        if chain {
            give_standing(&nx, upstream_standing, UPSTREAM, &actions, &constraints, &conditions).await?;
            let l = gov.create_delegation(link(UPSTREAM, DELEGATOR, String::new(), true), UPSTREAM).await.map_err(gerr("create_delegation (upstream)"))?._id;
            own_link = Some(l);
            chain_ids.push(did(l));
        } else {
            grant = give_standing(&nx, standing, DELEGATOR, &actions, &constraints, &conditions).await?;
        }
        // --- downstream
        let to_p = gov.create_delegation(link(DELEGATOR, P, chain_ids.last().cloned().unwrap_or_default(), depth2), DELEGATOR).await.map_err(gerr("create_delegation (delegator -> p)"))?._id;
        chain_ids.push(did(to_p));
        let mut downs = vec![Downstream { role: "delegate", id: P, plain: session(&nx, P), named: nx.session(AuthContext::principal(P).with_delegation_chain(chain_ids.clone())), own_grant }];
        if depth2 {
            let to_sub = gov.create_delegation(link(P, SUB, did(to_p), false), P).await.map_err(gerr("create_delegation (p -> sub)"))?._id;
            chain_ids.push(did(to_sub));
            downs.push(Downstream { role: "delegate_of_the_delegate", id: SUB, plain: session(&nx, SUB), named: nx.session(AuthContext::principal(SUB).with_delegation_chain(chain_ids.clone())), own_grant: false });
        }
        if case % 2 == 1 {
            downs.reverse(); // (who asks first after an event alternates)
        }
        if own_grant {
            for who in [P, FRESH] {
                gov.create_grant(
                    GrantDraft {
                        space_id: DEFAULT_SPACE.into(),
                        grantee_principal: who.into(),
                        actions: vec!["read".into(), "search".into(), "discover".into()],
                        scope: AuthorityScope { kinds: vec!["concept".into()], ..Default::default() },
                        constraints: AuthorityConstraints { fields: vec!["name".into()], max_classification: "internal".into(), ..Default::default() },
                        ..Default::default()
                    },
                    SYSTEM_PRINCIPAL,
                )
                .await
                .map_err(gerr("create_grant (own)"))?;
            }
        }
        let setup = json!({"standing": standing, "upstream_standing": if chain { upstream_standing } else { "" }, "delegate_re_delegates": depth2, "delegate_keeps_a_grant_of_its_own": own_grant,
            "actions": actions, "ceiling": ceiling, "expiring": expiry, "named_chain": chain_ids});
        let cx = StandingCx { case, standing, w: &w, script: &script, bat: &bat, downs, delegator: session(&nx, DELEGATOR), fresh: session(&nx, FRESH), fresh0: session(&nx, FRESH_NOTHING), setup };
        st.count(&format!("standing_cases_{standing}"));
        if chain {
            st.count(&format!("standing_cases_delegate_of_a_delegate_under_a_{upstream_standing}"));
        }
        if depth2 {
            st.count("standing_cases_delegate_re_delegates");
        }
        // --- before anything changes
        let before = standing_round(&cx, st, "initial", false).await;
        if before.delegator_answered {
            st.count(&format!("standing_delegator_answered_before_the_events_{standing}"));
        }
        if before.delegate_answered {
            st.count("standing_delegate_answered_before_the_events");
            st.count(&format!("standing_delegate_answered_before_the_events_{standing}"));
        }
        if before.sub_answered {
            st.count("standing_delegate_of_the_delegate_answered_before_the_events");
        }
        // --- the events
        let status_events: &[&str] = match order {
            0 => &["suspend", "reactivate", "revoke_principal", "reactivate"],
            1 => &["revoke_principal", "reactivate", "suspend", "reactivate"],
            _ => &[],
        };
        let mut events: Vec<&str> = vec![];
        for (i, ev) in status_events.iter().enumerate() {
            if i == 2 && chain {
                events.extend(["upstream_suspended", "upstream_reactivated"]);
            }
            events.push(ev);
        }
        if expiry {
            events.push("expiry");
        } else {
            events.push("removal");
            if order == 2 && !chain {
                events.extend(["restore", "suspend"]);
            }
        }
        let (mut active, mut has_standing, mut upstream_active, mut lapsed) = (true, true, true, false);
        for ev in events {
            let mut name = ev;
            match ev {
                "suspend" | "revoke_principal" | "reactivate" => {
                    let to = match ev {
                        "suspend" => status::SUSPENDED,
                        "revoke_principal" => status::REVOKED,
                        _ => status::ACTIVE,
                    };
                    gov.set_principal_status(DELEGATOR, to, SYSTEM_PRINCIPAL).await.map_err(gerr("set_principal_status (delegator)"))?;
                    active = ev == "reactivate";
                }
                "upstream_suspended" | "upstream_reactivated" => {
                    upstream_active = ev == "upstream_reactivated";
                    gov.set_principal_status(UPSTREAM, if upstream_active { status::ACTIVE } else { status::SUSPENDED }, SYSTEM_PRINCIPAL).await.map_err(gerr("set_principal_status (upstream)"))?;
                }
                "removal" => {
                    name = if chain {
                        gov.revoke_delegation(own_link.ok_or("no upstream link")?, SYSTEM_PRINCIPAL).await.map_err(gerr("revoke_delegation (the delegator's own)"))?;
                        "own_delegation_revoked"
                    } else {
                        take_standing(&nx, standing, DELEGATOR, grant).await?
                    };
                    has_standing = false;
                }
                "restore" => {
                    grant = give_standing(&nx, standing, DELEGATOR, &actions, &constraints, &conditions).await?;
                    has_standing = true;
                }
                _ => {
                    // expiry: wait until the instant has certainly passed (millisecond resolution)
                    let now = std::time::Instant::now();
                    if lapses_at > now {
                        tokio::time::sleep(lapses_at - now).await;
                    }
                    tokio::time::sleep(std::time::Duration::from_millis(40)).await;
                    lapsed = true;
                }
            }
            let holds_nothing = !(active && has_standing && upstream_active && !lapsed);
            st.count(&format!("standing_event_{name}"));
            st.count(&format!("standing_event_{standing}_{name}"));
            let seen = standing_round(&cx, st, name, holds_nothing).await;
            if !holds_nothing {
                // what comes back is the engine's choice: counted
                st.count("standing_rounds_delegator_in_good_standing_again");
                if seen.delegator_answered {
                    st.count("standing_rounds_delegator_answered_again");
                }
                if seen.delegate_answered {
                    st.count("standing_rounds_delegate_answered_again");
                }
            } else if before.delegate_answered {
                // the rounds that carry the weight: the delegate did read through this Delegation
                st.count("standing_rounds_after_the_delegate_had_been_answered");
                st.count(&format!("standing_rounds_after_the_delegate_had_been_answered_{standing}"));
                st.count(&format!("standing_rounds_after_the_delegate_had_been_answered_event_{name}"));
                if before.sub_answered {
                    st.count("standing_rounds_after_the_delegate_of_the_delegate_had_been_answered");
                }
            }
        }
        if expiry && !before.delegate_answered {
            st.count("standing_expiry_lapsed_before_the_first_request");
        }
        st.sample(|| json!({"monitor": "standing", "case": case, "setup": cx.setup, "delegate_answered_before": before.delegate_answered}));
        Ok(())
    });
    if let Err(e) = res {
        st.inconclusive(format!("C19 standing case {case} ({standing}): {e}"));
    }
}

// ---------------------------------------------------------------------------------------------
// monitor 3: no self-escalation

const WRITER: &str = "kip:principal:writer";
const SCOPED_WRITER: &str = "kip:principal:scoped-writer";
const SUSPENDED: &str = "kip:principal:suspended";

type Dump = BTreeMap<String, BTreeMap<String, String>>;

macro_rules! dump_rows {
    ($out:expr, $db:expr, $name:expr, $ty:ty) => {{
        let coll = $db.open_collection($name.to_string(), async |_| Ok(())).await.map_err(|e| format!("open {}: {e:?}", $name))?;
        let mut m = BTreeMap::new();
        for id in coll.ids() {
            let row: $ty = coll.get_as(id).await.map_err(|e| format!("{} row {id}: {e:?}", $name))?;
            m.insert(format!("{id:08}"), serde_json::to_string(&row).map_err(|e| e.to_string())?);
        }
        $out.insert($name.to_string(), m);
    }};
}

/// Everything that carries authority: the eight gov_* collections (raw rows), the governance
/// columns of the Space, and the governance block of every element.
async fn authority_dump(nx: &CognitiveNexus) -> Result<Dump, String> {
    use anda_cognitive_nexus::governance::store as gs;
    let db = &nx.store.db;
    let mut out: Dump = BTreeMap::new();
    dump_rows!(out, db, gs::PRINCIPALS, PrincipalRow);
    dump_rows!(out, db, gs::PRINCIPAL_GROUPS, PrincipalGroupRow);
    dump_rows!(out, db, gs::ACTOR_BINDINGS, ActorBindingRow);
    dump_rows!(out, db, gs::GRANTS, GrantRow);
    dump_rows!(out, db, gs::DELEGATIONS, DelegationRow);
    dump_rows!(out, db, gs::POLICIES, GovernancePolicyRow);
    dump_rows!(out, db, gs::APPROVALS, ApprovalRow);
    dump_rows!(out, db, gs::AUDIT, GovernanceAuditRow);
    let sp = nx.store.get_space(DEFAULT_SPACE).await.map_err(gerr("get_space"))?;
    let mut m = BTreeMap::new();
    m.insert(
        DEFAULT_SPACE.to_string(),
        json!({"owner_principal": sp.owner_principal, "owners": sp.owners, "status": sp.status, "default_policy_id": sp.default_policy_id,
            "trust_policy_id": sp.trust_policy_id, "default_classification": sp.default_classification, "audit_mode": sp.audit_mode, "policies": sp.policies})
        .to_string(),
    );
    out.insert("space_governance_columns".into(), m);
    let mut blocks = BTreeMap::new();
    let mut versions = BTreeMap::new();
    for kind in [anda_kip::ElementKind::Concept, anda_kip::ElementKind::Proposition, anda_kip::ElementKind::Assertion, anda_kip::ElementKind::Evidence, anda_kip::ElementKind::Activity] {
        for id in nx.store.elements(kind).ids() {
            let eid = ElementId::new(kind, id);
            if let Ok(el) = nx.store.get_element(eid).await {
                blocks.insert(eid.to_string(), json!({"governance": el.governance(), "classification": el.classification()}).to_string());
                versions.insert(eid.to_string(), short(&anda_cognitive_nexus::view::render(&el)["_system"], 400));
            }
        }
    }
    out.insert("element_governance_blocks".into(), blocks);
    // not authority: the `_system` block (version, state, updated_tx) of every element, for the
    // check that a writer whose authority stops below an element cannot change it
    out.insert(ELEMENT_SYSTEM.into(), versions);
    Ok(out)
}

const ELEMENT_SYSTEM: &str = "element_system_blocks";

/// What changed between two dumps that a session command must not change.
fn forbidden_changes(before: &Dump, after: &Dump) -> Vec<String> {
    let mut out = vec![];
    for (coll, rows) in before {
        if coll == ELEMENT_SYSTEM {
            continue;
        }
        let now = after.get(coll).cloned().unwrap_or_default();
        for (id, row) in rows {
            match now.get(id) {
                None => out.push(format!("{coll}: row {id} disappeared")),
                // the documented exception: PURGE replaces the block of the element it erased by a
                // purge marker (governance/purge.rs); whether that is observable to a principal
                // that could not read the element is the non-interference monitor's business
                Some(r) if r != row && coll == "element_governance_blocks" && r.contains("\"purged\":true") => {}
                Some(r) if r != row => out.push(format!("{coll}: row {id} changed: {} -> {}", &row[..row.len().min(300)], &r[..r.len().min(300)])),
                _ => {}
            }
        }
        // new rows: only the audit may gain some (and new elements bring their own block)
        if coll != anda_cognitive_nexus::governance::store::AUDIT && coll != "element_governance_blocks" {
            for id in now.keys() {
                if !rows.contains_key(id) {
                    out.push(format!("{coll}: new row {id}: {}", &now[id][..now[id].len().min(300)]));
                }
            }
        }
    }
    out
}

struct Attempt {
    kind: &'static str,
    /// command text, or a JSON AST when `ast`
    text: String,
    ast: Option<Value>,
    params: Vec<(String, PVal)>,
}

fn attempts(rng: &mut Rng, s: &Script) -> Vec<Attempt> {
    let mut v = vec![];
    let person = |rng: &mut Rng| rng.pick(&s.persons).clone();
    let vis = s.persons.iter().find(|p| !s.hidden.contains(*p)).cloned().unwrap_or_else(|| s.persons[0].clone());
    let hid = s.persons.iter().find(|p| s.hidden.contains(*p)).cloned().unwrap_or_else(|| s.persons[0].clone());
    let hid_ev = s.evidence.iter().find(|p| s.hidden.contains(*p)).cloned().unwrap_or_else(|| s.evidence[0].clone());
    let mut add = |kind: &'static str, text: &str, params: Vec<(&str, PVal)>| {
        v.push(Attempt { kind, text: text.to_string(), ast: None, params: params.into_iter().map(|(k, p)| (k.to_string(), p)).collect() });
    };
    // --- ordinary statements of every family
    add("kml", r#"CREATE CONCEPT ?c { TYPE "Person" NAME "kip:principal:p" SET ATTRIBUTES {governance: "owner", classification: "public", role: "owner", grants: ["manage_grants"], rank: 1} }"#, vec![]);
    add("kml", r#"UPSERT CONCEPT ?c { MATCH {type: "Person", key: "esc-key"} SET FIELDS {name: "upserted"} SET ATTRIBUTES {rank: 3} }"#, vec![]);
    add("kml", "UPDATE :t SET ATTRIBUTES {rank: 77}", vec![("t", PVal::Id(vis.clone()))]);
    add("kml", "UPDATE :t SET ATTRIBUTES {rank: 78}", vec![("t", PVal::Id(hid.clone()))]);
    add("kml", r#"UPDATE :t SET FIELDS {name: "renamed by a session"}"#, vec![("t", PVal::Id(person(rng)))]);
    add("kml", r#"UPDATE ?c SET FACET "MnemonicState" {salience: 0.5} WHERE { ?c CONCEPT {type: "Person"} } LIMIT 3"#, vec![]);
    add("kml", r#"UPDATE :t SET STRUCTURAL { ("derived_from", :src) }"#, vec![("t", PVal::Id(vis.clone())), ("src", PVal::Ref(hid_ev.clone()))]);
    add("kml", r#"ASSERT ?a (:s, "prefers", :o) { by: :s, mode: "stated", confidence: 0.9, evidence: :e }"#, vec![("s", PVal::Ref(vis.clone())), ("o", PVal::Ref(person(rng))), ("e", PVal::Ref(hid_ev.clone()))]);
    add("kml", r#"MUTATE { CREATE EVIDENCE ?e { SET FIELDS { evidence_class: "user_statement", payload: "I am the owner now" } } CREATE ASSERTION ?a { SET FIELDS { proposition: :p, asserted_by: :s, stance: "support", mode: "stated", confidence: 1.0 } SET STRUCTURAL { ("evidence", ?e) {role: "support"} } } }"#,
        vec![("p", PVal::Ref(rng.pick(&s.props).clone())), ("s", PVal::Ref(vis.clone()))]);
    if let Some(a) = s.assertions.first() {
        add("kml", "RETRACT ASSERTION :a", vec![("a", PVal::Id(a.clone()))]);
        add("kml", "ARCHIVE :a", vec![("a", PVal::Id(a.clone()))]);
    }
    add("kml", r#"SET RETENTION :t { retention_class: "standard" }"#, vec![("t", PVal::Id(vis.clone()))]);
    add("kml", r#"SET RETENTION :t { retention_class: "standard", legal_hold: true }"#, vec![("t", PVal::Id(vis.clone()))]);
    add("kml", "MERGE CONCEPT :a INTO :b", vec![("a", PVal::Id(s.persons[0].clone())), ("b", PVal::Id(s.persons[1].clone()))]);
    add("kml", "ARCHIVE :t", vec![("t", PVal::Id(person(rng)))]);
    add("kml", "TOMBSTONE :t", vec![("t", PVal::Id(person(rng)))]);
    add("kml", r#"PURGE :t REFERENCE POLICY "tombstone_reference" CONFIRM "PURGE""#, vec![("t", PVal::Id(s.persons[s.persons.len() - 1].clone()))]);
    // --- attempts to write governance / system state (most do not even parse: counted)
    for key in ["governance", "Governance", "GOVERNANCE", "\"governance\"", "\"governance \"", "_system", "_System", "classification", "owner_principal", "space_id", "authority", "quarantine"] {
        add("kml_attack", &format!(r#"UPDATE :t SET FIELDS {{{key}: {{classification: "public", authority_ceiling: "executable", quarantine: null}}}}"#), vec![("t", PVal::Id(hid.clone()))]);
        add("kml_attack", &format!(r#"CREATE CONCEPT ?c {{ TYPE "Person" NAME "label myself" SET FIELDS {{{key}: {{classification: "public"}}}} }}"#), vec![]);
        add("kml_attack", &format!(r#"UPDATE :t SET ATTRIBUTES {{{key}: {{classification: "public"}}}}"#), vec![("t", PVal::Id(hid.clone()))]);
        add("kml_attack", &format!(r#"UPSERT CONCEPT ?c {{ MATCH {{id: :t}} SET FIELDS {{{key}: "public"}} }}"#), vec![("t", PVal::Lit(json!(""))), ("t", PVal::Id(vis.clone()))]);
        add("kml_attack", &format!(r#"UPDATE :t SET FACET "MnemonicState" {{{key}: "public"}}"#), vec![("t", PVal::Id(vis.clone()))]);
        add("kml_attack", &format!(r#"CREATE ASSERTION ?a {{ SET FIELDS {{ proposition: :p, asserted_by: :s, stance: "support", mode: "stated", {key}: {{classification: "public"}} }} }}"#),
            vec![("p", PVal::Ref(s.props[0].clone())), ("s", PVal::Ref(vis.clone()))]);
    }
    add("kml_attack", "UPDATE :t SET FIELDS :fields", vec![("t", PVal::Id(hid.clone())), ("fields", PVal::Lit(json!({"governance": {"classification": "public"}})))]);
    add("kml_attack", "UPDATE :t SET ATTRIBUTES :attrs", vec![("t", PVal::Id(hid.clone())), ("attrs", PVal::Lit(json!({"governance": {"classification": "public"}})))]);
    add("kml_attack", r#"UPDATE :t SET FIELDS {retention: {legal_hold: true, governance: {classification: "public"}}}"#, vec![("t", PVal::Id(vis.clone()))]);
    // --- reads and META
    add("kql", r#"FIND(?c) WHERE { ?c CONCEPT {} }"#, vec![]);
    add("kql", r#"FIND(?b) WHERE { ?p PROPOSITION (?s, ?x, ?o) ?b BELIEF (?p) }"#, vec![]);
    for m in ["DESCRIBE ACCESS", "DESCRIBE PRIMER", "HISTORY SPACE", "CHANGES AFTER SEQ 0", "SNAPSHOT", r#"SEARCH CONCEPT "alpha""#, r#"EXPORT CAPSULE ?c WHERE { ?c CONCEPT {} }"#, "LIST SPACES"] {
        add("meta", m, vec![]);
    }
    add("meta", "PREVIEW KML :cmd", vec![("cmd", PVal::Lit(json!(r#"UPDATE "C-1" SET ATTRIBUTES {rank: 1}"#)))]);
    add("meta", "VALIDATE KML :cmd", vec![("cmd", PVal::Lit(json!(r#"UPDATE "C-1" SET FIELDS {governance: {classification: "public"}}"#)))]);
    // --- pre-parsed trees with the protected key spliced in after parsing
    for (tpl, params) in [
        (r#"UPDATE :t SET FIELDS {zzplaceholder: {classification: "public"}}"#, vec![("t", PVal::Id(hid.clone()))]),
        (r#"UPDATE :t SET ATTRIBUTES {zzplaceholder: {classification: "public"}}"#, vec![("t", PVal::Id(hid.clone()))]),
        (r#"CREATE CONCEPT ?c { TYPE "Person" NAME "tree" SET FIELDS {zzplaceholder: {classification: "public"}} }"#, vec![]),
        (r#"UPSERT CONCEPT ?c { MATCH {id: :t} SET FIELDS {zzplaceholder: "public"} }"#, vec![("t", PVal::Id(vis.clone()))]),
    ] {
        if let Ok(cmd) = anda_kip::parse_kip(tpl) {
            let txt = serde_json::to_string(&cmd).unwrap_or_default();
            for key in ["governance", "_system", "Governance"] {
                if let Ok(ast) = serde_json::from_str::<Value>(&txt.replace("zzplaceholder", key)) {
                    v.push(Attempt { kind: "ast_injected", text: tpl.replace("zzplaceholder", key), ast: Some(ast), params: params.iter().map(|(k, p)| (k.to_string(), p.clone())).collect() });
                }
            }
        }
    }
    v
}

/// Runs one attempt; returns a short outcome label.
async fn attempt(sess: &Session, w: &World, script: &Script, a: &Attempt) -> String {
    let params = w.params(script, 0, &a.params);
    let req = match &a.ast {
        None => request_of(&a.text, &params),
        Some(ast) => {
            let mut op = json!({"ast": ast});
            if params.as_object().map(|m| !m.is_empty()).unwrap_or(false) {
                op["parameters"] = params.clone();
            }
            serde_json::from_value::<anda_kip::Request>(json!({"kip": "2.0", "operations": [op]})).map_err(|e| format!("envelope: {e}"))
        }
    };
    let req = match req {
        Ok(r) => r,
        Err(_) => return "refused_envelope".into(),
    };
    let parsed = match req.operations[0].parse() {
        Ok(p) => p,
        Err(_) => return "refused_at_parse".into(),
    };
    use anda_kip::Executor;
    let r = sess.execute(parsed, &req, &req.operations[0]).await;
    let v = response_json(&r);
    if succeeded(&v) {
        "executed".into()
    } else if is_denied(&v) {
        "denied".into()
    } else {
        "failed".into()
    }
}

fn escalation_case(case: u64, rng: &mut Rng, st: &mut Stats) {
    let script = gen_script(rng, 4);
    let cfg = gen_cfg(rng);
    let atts = attempts(rng, &script);
    let res: Result<(), String> = vcore::run::block_on(async {
        let (w, _, _) = build(&format!("c19_esc_{case}"), &script, &cfg, 0, true, Mode::HiddenElements, &HiddenAs::Label("secret".into())).await?;
        let nx = &w.nx;
        let gov = nx.governance();
        // a writer holding every cognitive / maintenance / lifecycle permission, and nothing of
        // the governance, authority or audit families
        principal(nx, WRITER).await?;
        let all: Vec<String> = ["discover", "read", "search", "project", "read_history", "create", "update", "derive", "assert", "record_attributed_assertion",
            "assert_as_actor", "retract_own", "supersede_own", "moderate_assertion", "merge_identity", "maintain", "archive", "tombstone", "export",
            "manage_retention", "purge"]
            .iter()
            .map(|s| s.to_string())
            .collect();
        gov.create_grant(GrantDraft { space_id: DEFAULT_SPACE.into(), grantee_principal: WRITER.into(), actions: all.clone(), constraints: AuthorityConstraints { export: true, ..Default::default() }, ..Default::default() }, SYSTEM_PRINCIPAL)
            .await
            .map_err(gerr("create_grant writer"))?;
        // the same permissions, but the authority stops at `internal`: every mutation target is
        // authorized individually, so nothing classified `secret` may change under this session
        principal(nx, SCOPED_WRITER).await?;
        gov.create_grant(
            GrantDraft {
                space_id: DEFAULT_SPACE.into(),
                grantee_principal: SCOPED_WRITER.into(),
                actions: all,
                constraints: AuthorityConstraints { export: true, max_classification: "internal".into(), ..Default::default() },
                ..Default::default()
            },
            SYSTEM_PRINCIPAL,
        )
        .await
        .map_err(gerr("create_grant scoped writer"))?;
        let secret_ids: BTreeSet<String> = script.hidden.iter().map(|s| w.id(s)).chain(w.sym.iter().filter(|(k, _)| k.starts_with("tail_")).map(|(_, v)| v.clone())).collect();
        principal(nx, SUSPENDED).await?;
        gov.create_grant(GrantDraft { space_id: DEFAULT_SPACE.into(), grantee_principal: SUSPENDED.into(), actions: vec!["read".into(), "update".into(), "create".into()], ..Default::default() }, SYSTEM_PRINCIPAL)
            .await
            .map_err(gerr("create_grant suspended"))?;
        gov.set_principal_status(SUSPENDED, status::SUSPENDED, SYSTEM_PRINCIPAL).await.map_err(gerr("suspend"))?;
        let sessions: Vec<(&str, Session)> = vec![
            ("scoped_writer", session(nx, SCOPED_WRITER)),
            ("writer", session(nx, WRITER)),
            ("reader", session(nx, P)),
            ("stranger", session(nx, STRANGER)),
            ("suspended", session(nx, SUSPENDED)),
            ("anonymous", nx.session(AuthContext::anonymous())),
            ("owner", nx.system_session()),
        ];
        let mut before = authority_dump(nx).await?;
        // destructive statements last, so that the others find their targets
        let mut order: Vec<usize> = (0..atts.len()).collect();
        rng.shuffle(&mut order);
        order.sort_by_key(|i| atts[*i].text.starts_with("PURGE") || atts[*i].text.starts_with("TOMBSTONE") || atts[*i].text.starts_with("MERGE"));
        for (who, sess) in &sessions {
            for &i in &order {
                let a = &atts[i];
                let outcome = attempt(sess, &w, &script, a).await;
                st.eval();
                st.count(&format!("escalation_commands_{who}"));
                st.count(&format!("escalation_{}_{outcome}", a.kind));
                let after = authority_dump(nx).await?;
                // reader holds read-type actions only; stranger / suspended / anonymous hold nothing
                // (the suspended one has a grant it must not be able to use): none of them may
                // get a mutation executed
                let mutation = matches!(a.kind, "kml" | "kml_attack" | "ast_injected");
                if *who == "scoped_writer" {
                    st.count("access_checks_scoped_writer_commands");
                    if outcome == "executed" && mutation {
                        st.count("access_checks_scoped_writer_mutations_executed");
                    }
                    let touched: Vec<&String> = secret_ids.iter().filter(|id| before[ELEMENT_SYSTEM].get(*id) != after[ELEMENT_SYSTEM].get(*id)).collect();
                    if !touched.is_empty() {
                        report(
                            st,
                            "C19/access/scoped_writer/element_above_the_writers_ceiling_changed".into(),
                            json!({"case": case, "command": a.text, "params": w.params(&script, 0, &a.params), "outcome": outcome, "changed_secret_elements": touched,
                                "before": touched.iter().map(|id| before[ELEMENT_SYSTEM].get(*id)).collect::<Vec<_>>(), "after": touched.iter().map(|id| after[ELEMENT_SYSTEM].get(*id)).collect::<Vec<_>>()}),
                        );
                    }
                }
                if mutation && !matches!(*who, "writer" | "owner" | "scoped_writer") {
                    st.count("access_checks_mutation_without_write_authority");
                    if outcome == "executed" {
                        report(
                            st,
                            format!("C19/access/{who}/mutation_executed_without_write_authority"),
                            json!({"case": case, "session": who, "command": a.text, "ast_injected": a.ast.is_some(), "params": w.params(&script, 0, &a.params)}),
                        );
                    }
                }
                let bad = forbidden_changes(&before, &after);
                if !bad.is_empty() {
                    let what = bad[0].split(':').next().unwrap_or("?").to_string();
                    report(
                        st,
                        format!("C19/escalation/{who}/{}/{what}_changed_by_a_session_command", a.kind),
                        json!({"case": case, "session": who, "command": a.text, "ast_injected": a.ast.is_some(), "params": w.params(&script, 0, &a.params), "outcome": outcome, "changes": bad}),
                    );
                }
                let gained = after[anda_cognitive_nexus::governance::store::AUDIT].len() - before[anda_cognitive_nexus::governance::store::AUDIT].len().min(after[anda_cognitive_nexus::governance::store::AUDIT].len());
                st.add("escalation_audit_rows_gained", gained as u64);
                before = after;
            }
        }
        st.sample(|| json!({"monitor": "escalation", "case": case, "attempts": atts.len(), "sessions": sessions.len()}));
        Ok(())
    });
    if let Err(e) = res {
        st.inconclusive(format!("C19 escalation case {case}: {e}"));
    }
}

fn main() {
    let mut run = Run::from_args(
        "C19",
        "exploration",
        "a configuration = governance setup for p x population script; non-trivial when the owner's answers on S1 and S2 differ for some battery entry while p is allowed to read something; distinct by configuration and script shape",
    );
    let t = run.tier;
    let thorough = t == vcore::Tier::Thorough;
    if run.wants("ni") {
        // (thorough ran 1700 configurations before the journal family made each about 15% dearer; every
        // floor below keeps a margin of 1.4x and more at 1400)
        run.parallel("ni", t.pick(64, 1400), 0.6, |c, rng, st| ni_case(c, rng, st, thorough));
    }
    if run.wants("timeline") {
        run.parallel("timeline", t.pick(48, 1100), 0.4, |c, rng, st| timeline_case(c, rng, st));
    }
    if run.wants("escalation") {
        run.parallel("escalation", t.pick(14, 320), 0.6, |c, rng, st| escalation_case(c, rng, st));
    }
    if run.wants("delegation") {
        run.parallel("delegation", t.pick(64, 1400), 0.5, |c, rng, st| delegation_case(c, rng, st));
    }
    if run.wants("standing") {
        run.parallel("standing", t.pick(48, 300), 0.9, |c, rng, st| standing_case(c, rng, st));
    }
    // --- evidence floors: every mechanism the property names was exercised
    // thorough runs 22x (non-interference, timeline, delegation, escalation) the configurations of quick;
    // its floors are 20x quick's - quick's own floors sit well below what quick observes -, which leaves
    // room for cases skipped when the time budget runs out on a loaded machine
    let f = |q: u64| t.pick(q, q * 20);
    for (key, min) in [
        // non-interference
        ("configurations_hidden_elements", f(24)),
        ("configurations_masked_fields", f(12)),
        ("hidden_as_secret", f(8)),
        ("hidden_as_one_step_above_the_ceiling", f(6)),
        ("hidden_as_unknown_label", f(8)),
        ("hidden_as_unlabeled_under_a_public_ceiling", f(4)),
        ("nontrivial_configurations", f(40)),
        ("ni_pairs_p_answered_and_owner_sees_difference", f(800)),
        ("ni_decisive_pairs_mode_masked_fields", f(80)),
        ("ni_decisive_pairs_element", f(40)),
        ("ni_decisive_pairs_tuple", f(40)),
        ("ni_decisive_pairs_optional_not", f(40)),
        ("ni_decisive_pairs_filter", f(40)),
        ("ni_decisive_pairs_aggregate", f(40)),
        ("ni_decisive_pairs_order_by", f(40)),
        ("ni_decisive_pairs_paging", f(25)),
        ("ni_decisive_pairs_search", f(40)),
        ("ni_decisive_pairs_history", f(10)),
        ("ni_decisive_pairs_changes", f(10)),
        ("ni_decisive_pairs_export", f(10)),
        ("ni_decisive_pairs_belief", f(10)),
        ("ni_decisive_pairs_as_of_before_classification", f(10)),
        ("ni_decisive_pairs_tail_tx", f(5)),
        ("ni_decisive_pairs_tail_element", f(10)),
        ("ni_decisive_pairs_masked_probe", f(20)),
        ("ni_decisive_pairs_masked_pattern", f(200)),
        // authority combined from several sources
        ("config_shape_masked_fields_masked_assertions_beside_unmasked_concepts", f(3)),
        ("config_shape_masked_fields_masked_concepts_beside_unmasked_assertions", f(3)),
        ("config_shape_masked_fields_two_masks_over_the_same_kinds", f(3)),
        ("config_shape_hidden_elements_two_sources_with_different_ceilings", f(4)),
        ("config_shape_hidden_elements_unbounded_source_that_expired", f(4)),
        ("config_shape_hidden_elements_unbounded_source_without_read", f(4)),
        ("config_shape_hidden_elements_kinds_split_over_two_ceilings", f(8)),
        ("config_shape_hidden_elements_single_source", f(4)),
        ("config_shape_masked_fields_single_source", f(3)),
        ("config_extra_source_via_grant", f(3)),
        ("config_extra_source_via_group", f(3)),
        ("config_extra_source_via_policy", f(3)),
        ("config_extra_source_via_delegation", f(3)),
        ("config_extra_source_expired", f(6)),
        ("masked_configurations_varying_concept_attributes", f(3)),
        ("masked_configurations_varying_concept_facets", f(3)),
        ("masked_configurations_varying_concept_name", f(2)),
        ("masked_configurations_varying_concept_key", f(3)),
        ("masked_configurations_varying_assertion_stance", f(3)),
        ("masked_configurations_varying_assertion_confidence", f(3)),
        ("masked_configurations_varying_assertion_mode", f(3)),
        // reference members under a mask: the tuple of a proposition, what an assertion is about /
        // by / cites, what an evidence record derives from
        ("masked_configurations_varying_proposition_subject", f(4)),
        ("masked_configurations_varying_proposition_object", f(4)),
        ("masked_configurations_varying_assertion_proposition_id", f(3)),
        ("masked_configurations_varying_assertion_asserted_by", f(3)),
        ("masked_configurations_varying_assertion_evidence_refs", f(4)),
        ("masked_configurations_varying_evidence_source_refs", f(3)),
        ("masked_configurations_with_a_proposition_whose_tuple_differs", f(6)),
        ("config_shape_masked_fields_masked_propositions_beside_unmasked_concepts", f(3)),
        ("ni_decisive_pairs_shape_masked_propositions_beside_unmasked_concepts", f(20)),
        ("ni_decisive_masked_tuple_pairs_shape_masked_propositions_beside_unmasked_concepts", f(25)),
        ("ni_decisive_masked_tuple_pairs_shape_two_masks_over_the_same_kinds", f(15)),
        ("ni_decisive_masked_tuple_pairs_shape_masked_concepts_beside_unmasked_assertions", f(8)),
        ("ni_decisive_pairs_masked_tuple", f(250)),
        ("ni_decisive_pairs_masked_link", f(100)),
        ("ni_decisive_pairs_belief_tuple", f(40)),
        // judged pairs in which ONLY masked members differ (p answered, the owner sees the difference)
        ("ni_decisive_judged_pairs_masked_fields_masked_tuple", f(100)),
        ("ni_decisive_judged_pairs_masked_fields_masked_link", f(30)),
        ("ni_decisive_judged_pairs_masked_fields_belief_tuple", f(3)),
        ("ni_decisive_judged_pairs_masked_fields_tuple", f(20)),
        ("ni_decisive_judged_pairs_masked_fields_path", f(6)),
        ("ni_decisive_judged_pairs_masked_fields_optional_not", f(10)),
        ("ni_decisive_judged_pairs_masked_fields_export", f(15)),
        // BELIEF / BELIEF SLOT over tuples and slots with hidden propositions (mode hidden_elements)
        ("ni_decisive_judged_pairs_hidden_elements_belief_tuple", f(40)),
        ("ni_decisive_pairs_shape_masked_assertions_beside_unmasked_concepts", f(8)),
        ("ni_decisive_pairs_shape_masked_concepts_beside_unmasked_assertions", f(30)),
        ("ni_decisive_pairs_shape_two_masks_over_the_same_kinds", f(30)),
        ("ni_decisive_masked_pattern_pairs_shape_masked_assertions_beside_unmasked_concepts", f(4)),
        ("ni_decisive_masked_pattern_pairs_shape_masked_concepts_beside_unmasked_assertions", f(6)),
        ("ni_decisive_masked_pattern_pairs_shape_two_masks_over_the_same_kinds", f(8)),
        ("ni_decisive_pairs_shape_two_sources_with_different_ceilings", f(100)),
        ("ni_decisive_pairs_shape_unbounded_source_that_expired", f(100)),
        ("ni_decisive_pairs_shape_unbounded_source_without_read", f(100)),
        ("ni_decisive_pairs_shape_kinds_split_over_two_ceilings", f(100)),
        ("hidden_as_a_label_only_a_deny_statement_takes_away", f(4)),
        ("deny_statement_reaches_p_through_a_group", f(2)),
        ("hidden_by_kind_scope_under_a_label_within_the_ceiling", t.pick(2, 30)),
        ("hidden_by_the_ceiling_of_the_source_over_its_kind_within_another_sources_ceiling", f(4)),
        ("config_path_grant", 1),
        ("config_path_group", 1),
        ("config_path_delegation", 1),
        ("config_path_chain", 1),
        ("config_path_policy_scope", 1),
        ("config_path_policy_ceiling", 1),
        ("search_limit_checks_with_hits", f(60)),
        // paged SEARCH walks (CURSOR > 0) against the unpaged search, per store
        ("search_paging_checks", f(300)),
        ("search_paging_checks_with_later_pages", f(60)),
        ("search_paging_checks_with_three_or_more_pages", f(20)),
        ("search_paging_configurations_with_a_hidden_crowd", f(3)),
        ("configurations_with_a_hidden_crowd_outranking_a_visible_hit", f(3)),
        // authority timeline
        ("timeline_event_revoke", f(4)),
        ("timeline_event_suspend", f(4)),
        ("timeline_event_revoke_principal", f(4)),
        ("timeline_event_deny", f(4)),
        ("timeline_event_expiry", f(4)),
        ("timeline_event_leave_group", f(4)),
        ("timeline_event_policy_withdrawn", f(4)),
        ("timeline_event_revoke_delegation", f(4)),
        ("timeline_event_revoke_ancestor_link", f(4)),
        // sessions that NAME the delegation chain they act under
        ("timeline_named_chain_sessions", f(8)),
        ("timeline_named_chain_sessions_1_links", f(3)),
        ("timeline_named_chain_sessions_2_links", f(3)),
        ("timeline_named_chain_sessions_reading_before_the_event", f(8)),
        ("timeline_named_chain_event_revoke_delegation_1_links", f(1)),
        ("timeline_named_chain_event_revoke_delegation_2_links", f(1)),
        ("timeline_named_chain_event_revoke_ancestor_link_2_links", f(2)),
        ("timeline_named_chain_event_revoke_1_links", f(1)),
        ("timeline_named_chain_event_revoke_2_links", f(1)),
        ("timeline_named_chain_next_request_checks", f(800)),
        ("timeline_named_chain_allowed_before_denied_after", f(500)),
        ("timeline_next_request_checks", f(2000)),
        ("timeline_allowed_before_denied_after", f(800)),
        ("timeline_one_of_two_sources_removed", f(5)),
        ("timeline_answered_from_the_kept_source", f(300)),
        // delegation
        ("delegation_phase_initial", f(16)),
        ("delegation_phase_narrowed_ceiling", f(3)),
        ("delegation_phase_narrowed_kinds", f(3)),
        ("delegation_phase_narrowed_actions", f(3)),
        ("delegation_phase_delegator_suspended", f(3)),
        ("delegation_phase_revoked", f(16)),
        ("delegation_phase_last_link_revoked", f(8)),
        ("delegation_last_link_revoked_checks", f(1500)),
        ("delegation_last_link_revoked_checks_plain_session_answered_before", f(500)),
        ("delegation_last_link_revoked_checks_named_chain_session_answered_before", f(500)),
        ("delegation_named_chain_checks", f(20000)),
        ("delegation_named_chain_delegate_allowed", f(1500)),
        ("delegation_named_chain_subset_checks", f(400)),
        ("delegation_delegator_denied", f(1000)),
        ("delegation_delegate_allowed", f(500)),
        ("delegation_subset_checks", f(150)),
        ("delegation_subset_checks_delegator_sees_something", f(150)),
        ("delegation_links_1", f(12)),
        ("delegation_links_2", f(6)),
        ("delegation_links_3", f(6)),
        ("delegation_link_every_bound_contained", f(20)),
        ("delegation_link_every_bound_contained_conferred_something_initially", f(8)),
        ("delegation_link_max_classification_empty", t.pick(2, 30)),
        ("delegation_link_max_classification_looser", t.pick(2, 30)),
        ("delegation_link_classification_scope_empty", t.pick(2, 30)),
        ("delegation_link_classification_scope_looser", t.pick(2, 30)),
        ("delegation_link_fields_empty", t.pick(2, 30)),
        ("delegation_link_fields_looser", t.pick(2, 30)),
        ("delegation_link_max_results_empty", t.pick(2, 30)),
        ("delegation_link_max_results_looser", t.pick(2, 30)),
        ("delegation_link_kinds_empty", t.pick(2, 30)),
        ("delegation_link_kinds_looser", t.pick(2, 30)),
        ("delegation_link_actions_looser", t.pick(2, 30)),
        ("delegation_link_max_influence_authority_empty", t.pick(2, 30)),
        ("delegation_link_max_influence_authority_looser", t.pick(2, 30)),
        ("delegation_bound_stated_by_an_earlier_link_only", f(2)),
        ("delegation_unbounded_or_wider_link_at_first", f(5)),
        ("delegation_unbounded_or_wider_link_at_last", f(2)),
        ("delegation_unbounded_or_wider_link_at_middle", t.pick(1, 10)),
        ("delegation_checks_against_the_immediate_delegator", f(5000)),
        ("delegation_row_count_checks", f(400)),
        ("delegation_row_count_checks_delegator_at_its_cap", f(10)),
        ("delegation_view_checks", f(100)),
        ("delegation_view_checks_delegator_is_masked", f(10)),
        ("delegation_influence_checks", f(100)),
        ("delegation_influence_delegator_refused", f(80)),
        ("delegation_influence_delegator_allowed", f(10)),
        ("delegation_influence_delegate_allowed", f(2)),
        // no self-escalation
        ("escalation_commands_writer", f(1000)),
        ("escalation_commands_reader", f(1000)),
        ("escalation_commands_stranger", f(1000)),
        ("escalation_commands_suspended", f(1000)),
        ("escalation_commands_anonymous", f(1000)),
        ("escalation_commands_owner", f(1000)),
        ("escalation_kml_executed", f(200)),
        ("escalation_kml_attack_executed", f(50)),
        ("escalation_ast_injected_refused_at_parse", f(200)),
        ("escalation_audit_rows_gained", f(1000)),
        ("access_checks_principal_without_authority", f(1500)),
        ("gate_checks_permission_not_held_search", f(5)),
        ("gate_checks_permission_not_held_read_history", f(20)),
        ("gate_checks_permission_not_held_export", f(10)),
        ("gate_checks_permission_not_held_project", f(5)),
        ("access_checks_mutation_without_write_authority", f(4000)),
        ("access_checks_scoped_writer_commands", f(1000)),
        ("access_checks_scoped_writer_mutations_executed", f(50)),
        // the journal block: every entry point over all-visible / mixed / all-hidden, keyed / unkeyed transactions
        ("ni_decisive_pairs_journal", f(130)),
        ("ni_decisive_judged_pairs_hidden_elements_journal", f(130)),
        ("journal_store_checks", f(730)),
        ("journal_subset_checks", f(600)),
        ("journal_store_checks_describe_transaction_by_idempotency_key", f(160)),
        ("journal_store_checks_describe_transaction", f(110)),
        ("journal_store_checks_history_space", f(165)),
        ("journal_store_checks_history_element", f(140)),
        ("journal_store_checks_changes_after_seq", f(145)),
        ("journal_store_checks_changes_since", f(30)),
        ("journal_lookups_by_key_hidden", f(85)),
        ("journal_lookups_by_key_mixed", f(35)),
        ("journal_lookups_by_key_visible", f(33)),
        ("journal_lookups_by_id_hidden", f(140)),
        ("journal_lookups_by_id_mixed", f(33)),
        ("journal_lookups_by_id_visible", f(80)),
        ("journal_mixed_transaction_partly_shown_to_p", f(50)),
        ("journal_visible_transaction_shown_to_p", f(85)),
        ("journal_history_of_an_unreadable_element_checks", f(70)),
    ] {
        run.floor(key, min);
    }
    // the standing of a delegator (thorough runs 6x the cases of quick; floors 3x: the section comes last)
    let g = |q: u64| t.pick(q, q * 3);
    for standing in STANDINGS {
        run.floor(&format!("standing_cases_{standing}"), g(2));
        if standing != "policy_allowed" {
            // (a Policy statement cannot be delegated from: that Delegation confers nothing from the start)
            run.floor(&format!("standing_delegate_answered_before_the_events_{standing}"), g(2));
            run.floor(&format!("standing_rounds_after_the_delegate_had_been_answered_{standing}"), g(6));
        }
        for event in ["suspend", "revoke_principal"] {
            run.floor(&format!("standing_event_{standing}_{event}"), g(2));
        }
    }
    for (key, min) in [
        ("standing_cases_delegate_of_a_delegate_under_a_co_owner", g(1)),
        ("standing_cases_delegate_of_a_delegate_under_a_grantee", g(1)),
        ("standing_cases_delegate_re_delegates", g(8)),
        ("standing_delegate_of_the_delegate_answered_before_the_events", g(6)),
        ("standing_event_suspend", g(14)),
        ("standing_event_revoke_principal", g(12)),
        ("standing_event_reactivate", g(24)),
        ("standing_event_removed_from_owners", g(2)),
        ("standing_event_owner_principal_reassigned", g(2)),
        ("standing_event_grant_revoked", g(2)),
        ("standing_event_leaves_group", g(2)),
        ("standing_event_policy_withdrawn", g(2)),
        ("standing_event_own_delegation_revoked", g(2)),
        ("standing_event_upstream_suspended", g(2)),
        ("standing_event_restore", g(2)),
        ("standing_event_expiry", g(1)),
        ("standing_rounds_after_the_delegate_had_been_answered_event_expiry", g(1)),
        ("standing_rounds_after_the_delegate_had_been_answered", g(36)),
        ("standing_rounds_after_the_delegate_of_the_delegate_had_been_answered", g(18)),
        ("standing_checks_delegator_holds_nothing", g(800)),
        ("standing_downstream_next_request_checks", g(1200)),
        ("standing_downstream_next_request_checks_delegate_of_the_delegate", g(400)),
        ("standing_downstream_next_request_checks_delegate_keeps_a_grant_of_its_own", g(100)),
        ("standing_downstream_answered_from_its_own_grant", g(50)),
        ("standing_downstream_named_chain_checks", g(1200)),
        ("standing_rounds_delegator_answered_again", g(20)),
    ] {
        run.floor(key, min);
    }
    run.assume("the classification ladder public < internal < private < sensitive < secret and the Space default `internal` are the engine's documented defaults; hidden elements are classified `secret` through the host `classify` API, p's ceilings are at most `sensitive`");
    run.assume("the Schema symbol an element is typed by stays selectable under a field mask that hides it: a Concept's `type`, an Evidence / Activity class (the repository's own field-mask test selects `{type: \"Person\"}` under `fields: [name]`) and, by the same rule, a Proposition's predicate - `Element::schema_ref()` of a Proposition is its `predicate_ref`, what `AuthorityScope.schema_refs` is written in. The masked-field mode therefore varies the subject and object of a proposition, never its predicate; `id`, `kind`, `space_id` survive every mask (governance/redact.rs ALWAYS_VISIBLE)");
    run.assume("S1 and S2 see the same number of commits (S1 is padded with updates of an element hidden in both): the Space sequence is a Space-level coordinate that every receipt, SNAPSHOT and SEARCH answer discloses by design (Spec 5.4, 78), not an element");
    let mut pending = std::mem::take(&mut *PENDING.lock().unwrap());
    pending.sort_by(|a, b| a.0.cmp(&b.0));
    for (sig, detail) in pending {
        run.stats.violation(sig, detail);
    }
    run.finish();
}

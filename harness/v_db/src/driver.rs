//! Workload operations over fixture F, their generator, and the driver that applies each
//! operation to the real collection and to the model, comparing return values.

use crate::{
    COLL, Cfg, FDoc, IndexSet, Model, Patch, Reject, apply_patch, backfill_conflict, connect,
    gen_doc, gen_patch, open_coll,
};
use anda_db::collection::Collection;
use anda_db::database::AndaDB;
use anda_db::error::DBError;
use anda_db::schema::Fv;
use anda_db::unix_ms;
use object_store::ObjectStore;
use std::collections::BTreeSet;
use std::sync::Arc;
use vcore::{Rng, Stats, Value, json};

#[derive(Debug, Clone)]
pub enum Op {
    Add(FDoc),
    Update(u64, Patch, Option<Reject>),
    Remove(u64),
    Flush,
    SaveExt(String, u64),
    RemoveExt(String),
    CompactBtree(u16),
    CompactBm25,
    Reconcile,
    /// clean close of the collection and the database, reconnect, open with this index set
    Reopen(IndexSet),
}

impl Op {
    pub fn kind(&self) -> &'static str {
        match self {
            Op::Add(_) => "add",
            Op::Update(..) => "update",
            Op::Remove(_) => "remove",
            Op::Flush => "flush",
            Op::SaveExt(..) => "save_extension",
            Op::RemoveExt(_) => "remove_extension",
            Op::CompactBtree(_) => "compact_btree",
            Op::CompactBm25 => "compact_bm25",
            Op::Reconcile => "reconcile",
            Op::Reopen(_) => "reopen",
        }
    }
    pub fn brief(&self) -> String {
        match self {
            Op::Add(d) => format!("add(uname={},codes={:?},grp={},slot={},age={},score={:?},tags={:?},attrs={:?},body={:?},vec={})",
                d.uname, d.codes, d.grp, d.slot, d.age, d.score, d.tags, d.attrs.keys().collect::<Vec<_>>(), d.body, d.embedding.len()),
            Op::Update(id, p, bad) => format!("update({id},{:?},bad={bad:?})", p.iter().map(|(k, v)| format!("{k}={}", brief_fv(v))).collect::<Vec<_>>()),
            Op::Reopen(s) => format!("reopen(indexes={:#b})", s.0),
            other => format!("{other:?}"),
        }
    }
}

fn brief_fv(v: &Fv) -> String {
    let s = format!("{v:?}");
    if s.len() > 60 { format!("{}..", &s[..60]) } else { s }
}

#[derive(Debug, Clone, Copy)]
pub struct GenCfg {
    /// number of distinct values unique fields draw from
    pub contention: u64,
    pub allow_reopen: bool,
    pub allow_index_change: bool,
    pub allow_maintenance: bool,
    pub rejects: bool,
}

impl Default for GenCfg {
    fn default() -> Self {
        GenCfg { contention: 12, allow_reopen: true, allow_index_change: true, allow_maintenance: true, rejects: true }
    }
}

pub fn gen_op(rng: &mut Rng, m: &Model, set: IndexSet, g: &GenCfg) -> Op {
    let live: Vec<u64> = m.docs.keys().copied().collect();
    let pick_id = |rng: &mut Rng| -> u64 {
        if !live.is_empty() && rng.chance(9, 10) { *rng.pick(&live) } else { m.max_id() + 1 + rng.below(3) }
    };
    let w = [
        30u32,                                   // add
        24,                                      // update
        12,                                      // remove
        8,                                       // flush
        if g.allow_maintenance { 4 } else { 0 }, // save ext
        if g.allow_maintenance { 2 } else { 0 }, // remove ext
        if g.allow_maintenance { 4 } else { 0 }, // compact btree
        if g.allow_maintenance { 2 } else { 0 }, // compact bm25
        if g.allow_maintenance { 1 } else { 0 }, // reconcile
        if g.allow_reopen { 5 } else { 0 },      // reopen
    ];
    match rng.weighted(&w) {
        0 => {
            let mut d = gen_doc(rng, g.contention);
            if g.rejects && set.has(IndexSet::HNSW) && rng.chance(1, 25) {
                d.embedding.pop(); // wrong dimension: rejected by the vector index
            }
            Op::Add(d)
        }
        1 => {
            let bad = if g.rejects {
                match rng.below(12) {
                    0 => Some(Reject::Schema),
                    1 => Some(Reject::UnknownField),
                    2 if set.has(IndexSet::HNSW) => Some(Reject::BadVector),
                    _ => None,
                }
            } else {
                None
            };
            Op::Update(pick_id(rng), gen_patch(rng, g.contention, bad), bad)
        }
        2 => Op::Remove(pick_id(rng)),
        3 => Op::Flush,
        4 => Op::SaveExt(format!("k{}", rng.below(3)), rng.below(1000)),
        5 => Op::RemoveExt(format!("k{}", rng.below(3))),
        6 => {
            let regs: Vec<u16> = IndexSet::btree_list().iter().map(|(f, _)| *f).filter(|f| set.has(*f)).collect();
            if regs.is_empty() { Op::Flush } else { Op::CompactBtree(*rng.pick(&regs)) }
        }
        7 => if set.has(IndexSet::BM25) { Op::CompactBm25 } else { Op::Flush },
        8 => Op::Reconcile,
        _ => {
            let mut ns = set;
            if g.allow_index_change && rng.chance(1, 2) {
                // toggle one or two indexes; creating a unique index over existing duplicates fails
                // at backfill by design, so such sets are not generated
                for _ in 0..1 + rng.usize(2) {
                    let bit = 1u16 << rng.below(9);
                    let cand = IndexSet(ns.0 ^ bit);
                    if !backfill_conflict(m, IndexSet(cand.0 & !set.0)) {
                        ns = cand;
                    }
                }
            }
            Op::Reopen(ns)
        }
    }
}

pub struct Driver {
    pub store: Arc<dyn ObjectStore>,
    pub cfg: Cfg,
    pub set: IndexSet,
    pub db: AndaDB,
    pub coll: Arc<Collection>,
    pub model: Model,
    /// every id returned by a successful add on the current handle generation (ids never repeat
    /// on a live handle; after a crash only flush-acknowledged ids are protected)
    pub issued: BTreeSet<u64>,
    /// ids whose add was followed by an acknowledged flush / clean close: these may never be
    /// handed to a different document, crash or not
    pub flushed_issued: BTreeSet<u64>,
    pub history: Vec<String>,
}

#[derive(Debug)]
pub enum Step {
    /// applied; model updated
    Applied,
    /// rejected as the model predicted; nothing changed
    Rejected(Reject),
    /// the call failed with a storage-level error (only expected under injected faults)
    Failed(String),
    /// the result contradicts the model: (signature suffix, detail)
    Wrong(String, Value),
}

pub fn is_injected(e: &DBError) -> bool {
    let s = format!("{e:?}");
    s.contains("injected fault") || s.contains("RecStore")
}

impl Driver {
    pub async fn start(store: Arc<dyn ObjectStore>, cfg: Cfg, set: IndexSet) -> Result<Driver, DBError> {
        let db = connect(store.clone(), &cfg).await?;
        let coll = open_coll(&db, set).await?;
        Ok(Driver { store, cfg, set, db, coll, model: Model::default(), issued: BTreeSet::new(), flushed_issued: BTreeSet::new(), history: vec![] })
    }

    pub fn ctx(&self) -> Value {
        json!({"cfg": format!("{:?}", self.cfg), "indexes": self.set.0, "history": self.history})
    }

    /// What the documented rules say about this operation in the current model state.
    pub fn predict(&self, op: &Op) -> Option<Reject> {
        match op {
            Op::Add(d) => {
                if self.model.conflicts(0, d, self.set) {
                    Some(Reject::Conflict)
                } else if self.set.has(IndexSet::HNSW) && d.embedding.len() != crate::DIM {
                    Some(Reject::BadVector)
                } else {
                    None
                }
            }
            Op::Update(id, p, bad) => {
                let Some(cur) = self.model.docs.get(id) else {
                    return Some(Reject::Missing);
                };
                if let Some(b) = bad {
                    if *b != Reject::BadVector || self.set.has(IndexSet::HNSW) {
                        return Some(*b);
                    }
                }
                match apply_patch(cur, p) {
                    Some(n) => self.model.conflicts(*id, &n, self.set).then_some(Reject::Conflict),
                    None => Some(Reject::Schema),
                }
            }
            _ => None,
        }
    }

    pub async fn step(&mut self, op: &Op, st: &mut Stats) -> Step {
        self.history.push(op.brief());
        st.count(&format!("op:{}", op.kind()));
        let predicted = self.predict(op);
        match op {
            Op::Add(d) => match self.coll.add_from(d).await {
                Ok(id) => {
                    if predicted.is_some() {
                        return Step::Wrong("add_accepted_despite_conflict".into(), json!({"id": id, "doc": format!("{d:?}")}));
                    }
                    if self.issued.contains(&id) || self.model.docs.contains_key(&id) || id <= self.issued.iter().next_back().copied().unwrap_or(0) {
                        return Step::Wrong("add_reused_id".into(), json!({"id": id, "issued": self.issued}));
                    }
                    self.issued.insert(id);
                    let mut n = d.clone();
                    n._id = id;
                    self.model.docs.insert(id, n);
                    Step::Applied
                }
                Err(e) if is_injected(&e) => Step::Failed(format!("{e:?}")),
                Err(e) => match predicted {
                    Some(r) => {
                        st.count(&format!("rejected:{r:?}:{}", crate::err_kind(&e)));
                        Step::Rejected(r)
                    }
                    None => Step::Wrong("add_rejected_unexpectedly".into(), json!({"error": format!("{e:?}"), "doc": format!("{d:?}")})),
                },
            },
            Op::Update(id, p, _) => match self.coll.update(*id, p.clone()).await {
                Ok(_doc) => {
                    if let Some(r) = predicted {
                        return Step::Wrong("update_accepted_despite_rejection_rule".into(), json!({"id": id, "rule": format!("{r:?}"), "patch": format!("{p:?}")}));
                    }
                    let n = apply_patch(&self.model.docs[id], p).expect("predicted valid");
                    self.model.docs.insert(*id, n);
                    Step::Applied
                }
                Err(e) if is_injected(&e) => Step::Failed(format!("{e:?}")),
                Err(e) => match predicted {
                    Some(r) => {
                        st.count(&format!("rejected:{r:?}:{}", crate::err_kind(&e)));
                        Step::Rejected(r)
                    }
                    None => Step::Wrong("update_rejected_unexpectedly".into(), json!({"id": id, "error": format!("{e:?}"), "patch": format!("{p:?}")})),
                },
            },
            Op::Remove(id) => match self.coll.remove(*id).await {
                Ok(got) => {
                    let exp = self.model.docs.remove(id);
                    if got.is_some() != exp.is_some() {
                        return Step::Wrong("remove_return_value".into(), json!({"id": id, "returned_some": got.is_some(), "model_had": exp.is_some()}));
                    }
                    if exp.is_none() { st.count("remove_of_missing_id"); }
                    Step::Applied
                }
                Err(e) if is_injected(&e) => Step::Failed(format!("{e:?}")),
                Err(e) => Step::Wrong("remove_failed".into(), json!({"id": id, "error": format!("{e:?}")})),
            },
            Op::Flush => match self.coll.flush(unix_ms()).await {
                Ok(_) => {
                    self.flushed_issued = self.issued.clone();
                    Step::Applied
                }
                Err(e) if is_injected(&e) => Step::Failed(format!("{e:?}")),
                Err(e) => Step::Wrong("flush_failed".into(), json!({"error": format!("{e:?}")})),
            },
            Op::SaveExt(k, v) => match self.coll.save_extension(k.clone(), Fv::U64(*v)).await {
                Ok(()) => {
                    self.model.ext.insert(k.clone(), *v);
                    Step::Applied
                }
                Err(e) if is_injected(&e) => Step::Failed(format!("{e:?}")),
                Err(e) => Step::Wrong("save_extension_failed".into(), json!({"error": format!("{e:?}")})),
            },
            Op::RemoveExt(k) => match self.coll.remove_extension(k).await {
                Ok(old) => {
                    let exp = self.model.ext.remove(k);
                    let got = old.and_then(|v| match v { Fv::U64(x) => Some(x), _ => None });
                    if got != exp {
                        return Step::Wrong("remove_extension_return".into(), json!({"key": k, "got": got, "expected": exp}));
                    }
                    Step::Applied
                }
                Err(e) if is_injected(&e) => Step::Failed(format!("{e:?}")),
                Err(e) => Step::Wrong("remove_extension_failed".into(), json!({"error": format!("{e:?}")})),
            },
            Op::CompactBtree(flag) => {
                let fields = IndexSet::btree_list().iter().find(|(f, _)| f == flag).map(|(_, n)| *n).unwrap();
                match self.coll.compact_btree_index(fields).await {
                    Ok(()) => Step::Applied,
                    Err(e) if is_injected(&e) => Step::Failed(format!("{e:?}")),
                    Err(e) => Step::Wrong("compact_btree_failed".into(), json!({"error": format!("{e:?}")})),
                }
            }
            Op::CompactBm25 => match self.coll.compact_bm25_index(&["body"]).await {
                Ok(()) => Step::Applied,
                Err(e) if is_injected(&e) => Step::Failed(format!("{e:?}")),
                Err(e) => Step::Wrong("compact_bm25_failed".into(), json!({"error": format!("{e:?}")})),
            },
            Op::Reconcile => match self.coll.reconcile_storage().await {
                Ok((dead, healed)) => {
                    if dead != 0 || healed != 0 { st.count("reconcile_found_work_on_clean_handle"); }
                    Step::Applied
                }
                Err(e) if is_injected(&e) => Step::Failed(format!("{e:?}")),
                Err(e) => Step::Wrong("reconcile_failed".into(), json!({"error": format!("{e:?}")})),
            },
            Op::Reopen(ns) => {
                if let Err(e) = self.db.close().await {
                    if is_injected(&e) { return Step::Failed(format!("{e:?}")); }
                    return Step::Wrong("close_failed".into(), json!({"error": format!("{e:?}")}));
                }
                self.flushed_issued = self.issued.clone(); // the clean close flushed
                match self.reconnect(*ns).await {
                    Ok(()) => Step::Applied,
                    Err(e) if is_injected(&e) => Step::Failed(format!("{e:?}")),
                    Err(e) => Step::Wrong("reopen_failed".into(), json!({"error": format!("{e:?}")})),
                }
            }
        }
    }

    /// Fresh database + collection handles over the same store (no close of the old ones).
    pub async fn reconnect(&mut self, set: IndexSet) -> Result<(), DBError> {
        let db = connect(self.store.clone(), &self.cfg).await?;
        let coll = open_coll(&db, set).await?;
        self.db = db;
        self.coll = coll;
        self.set = set;
        Ok(())
    }

    /// Extensions as the live handle reports them vs the model.
    pub fn ext_mismatch(&self) -> Option<Value> {
        for k in ["k0", "k1", "k2"] {
            let got: Option<u64> = self.coll.get_extension_as::<u64>(k);
            let exp = self.model.ext.get(k).copied();
            if got != exp {
                return Some(json!({"key": k, "got": got, "expected": exp}));
            }
        }
        None
    }
}

pub fn coll_prefix() -> String {
    format!("{}/{}", crate::DB_NAME, COLL)
}

#!/usr/bin/env python3
"""Classifies the AddressSanitizer reports of one pass (the build uses -Zsanitizer-recover=address, so a
run can contain several). usage: asan_triage.py <report files...>
Prints one line per report class; exit 0 = nothing to act on, 1 = at least one real report.

Ignored (counted, never silently): `stack-use-after-scope` whose access happens outside the repository's
crates. At opt-level 2 the lifetime markers rustc/LLVM place around inlined iterator adapters produce
this report in entirely safe code (first seen: cbor2::diag::write_bignum -> Vec::from_iter(SkipWhile<
Copied<Iter<u8>>>) -> Copied::size_hint writing its return slot, reached from the C09 harness' Display
formatting of a metadata document). rustc passes UseAfterScope=true to the pass unconditionally and the
runtime flag detect_stack_use_after_scope no longer exists, so the class cannot be switched off; every
other class (heap-buffer-overflow, heap-use-after-free, double-free, stack-buffer-overflow, ...) and any
stack-use-after-scope with a frame of an anda_* crate among its first five frames is a real report."""
import re, sys

real, ignored = [], {}
for path in sys.argv[1:]:
    try:
        txt = open(path, errors="replace").read()
    except OSError:
        continue
    for rep in re.split(r"(?m)^=+\n(?===\d+==ERROR)", txt):
        m = re.search(r"==\d+==ERROR: AddressSanitizer: ([\w-]+)", rep)
        if not m:
            continue
        kind = m.group(1)
        frames = re.findall(r"(?m)^\s+#\d+ 0x[0-9a-f]+ in (.+?)(?: \(|\s+\S+$|$)", rep)[:5]
        in_repo = any(re.search(r"\banda_[a-z_]+::", f) for f in frames)
        if kind == "stack-use-after-scope" and not in_repo:
            key = frames[0][:120] if frames else "?"
            ignored[key] = ignored.get(key, 0) + 1
        else:
            real.append((kind, frames[:3], path))
for k, n in ignored.items():
    print(f"ignored stack-use-after-scope in safe non-repository code x{n}: {k}")
for kind, frames, path in real:
    print(f"REPORT {kind} at {' <- '.join(frames)} ({path})")
sys.exit(1 if real else 0)

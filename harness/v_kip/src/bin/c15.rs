//! C15 - KIP parsing is total, bounded, deterministic and classifies by content.
//!
//! Exploration by grammar-based generation + metamorphic relations (DESIGN.md C15). Inputs:
//! (a) Unicode / byte noise and keyword soup, (b) sentences of a generator written from
//! KIPSyntax.md / the specification (every pattern family, clause menu and META command, one path
//! drilled to and beyond the nesting limit), (c) the repository's own corpora read at run time,
//! (d) token-level mutations of (b)/(c). Every input is handed to the five entry points twice
//! (determinism), the general entry point is compared with the three specific ones, and accepted
//! inputs go through `validate_command`, a serde_json round trip, stray-token appends and the
//! case / trivia / compaction variants of a harness-side tokenizer.
//!
//! All parsing happens in child processes on a thread with a small fixed stack; a child that dies
//! is bisected to the input (`parser-aborted`). Pathological inputs are timed at doubling sizes in
//! CPU time of the parsing thread; only an absolute bound on the largest legal input is a verdict.

use anda_kip::{
    Command, KipError, KipErrorCode, MAX_KIP_INPUT_LEN, MAX_KIP_NESTING_DEPTH, parse_json, parse_kip, parse_kml, parse_kql,
    parse_meta, validate_command,
};
use std::alloc::{GlobalAlloc, Layout, System};
use std::cell::Cell;
use std::collections::BTreeMap;
use std::sync::OnceLock;
use std::time::Duration;
use v_kip::corpus::{self, Item};
use v_kip::families::{families, major};
use v_kip::generate::{self, GK, Gen};
use v_kip::lex::{self, Lexed, Variant};
use v_kip::mutate;
use v_kip::proc::{self, ChildSpec, trace};
use vcore::{Rng, Run, Stats, Value, fnv_str, json};

// ---------------------------------------------------------------------------------------------
// counting allocator (per thread): "refused before parsing" is observed as "refused with a
// handful of allocations although the input is large"

thread_local! {
    static ALLOCS: Cell<u64> = const { Cell::new(0) };
}

struct Counting;

unsafe impl GlobalAlloc for Counting {
    unsafe fn alloc(&self, l: Layout) -> *mut u8 {
        let _ = ALLOCS.try_with(|c| c.set(c.get() + 1));
        unsafe { System.alloc(l) }
    }
    unsafe fn dealloc(&self, p: *mut u8, l: Layout) {
        unsafe { System.dealloc(p, l) }
    }
    unsafe fn realloc(&self, p: *mut u8, l: Layout, n: usize) -> *mut u8 {
        let _ = ALLOCS.try_with(|c| c.set(c.get() + 1));
        unsafe { System.realloc(p, l, n) }
    }
}

#[global_allocator]
static GLOBAL: Counting = Counting;

fn allocs() -> u64 {
    ALLOCS.try_with(|c| c.get()).unwrap_or(0)
}

// ---------------------------------------------------------------------------------------------
// guarded calls

fn short_loc(loc: &str) -> String {
    if let Some(i) = loc.find("/rs/") {
        return loc[i + 1..].to_string();
    }
    if let Some(i) = loc.find("/registry/src/") {
        let rest = &loc[i + 14..];
        return rest.split_once('/').map(|x| x.1).unwrap_or(rest).to_string();
    }
    loc.to_string()
}

fn head(s: &str) -> String {
    if s.len() <= 3000 {
        s.to_string()
    } else {
        let h: String = s.chars().take(1500).collect();
        let chars: Vec<char> = s.chars().collect();
        let t: String = chars[chars.len() - 600..].iter().collect();
        format!("{h} ...[{} bytes]... {t}", s.len())
    }
}

/// Runs `f` (a call into the code under test); a panic is a totality violation.
fn guard<T>(stage: &str, input: &str, origin: &str, st: &mut Stats, f: impl FnOnce() -> T) -> Option<T> {
    trace(stage, input);
    match std::panic::catch_unwind(std::panic::AssertUnwindSafe(f)) {
        Ok(v) => Some(v),
        Err(p) => {
            let loc = short_loc(&vcore::run::take_last_panic_location());
            st.violation(
                format!("C15/panic/{stage}/{loc}"),
                json!({"stage": stage, "panic": vcore::run::panic_message(&p), "location": loc, "origin": origin,
                       "input_len": input.len(), "input": head(input)}),
            );
            None
        }
    }
}

fn err_key(e: &KipError) -> String {
    format!("{:?}|{}|{:?}|{:?}", e.code, e.message, e.hint, e.details)
}

/// One entry point, twice: panics are violations, differing results too.
fn entry<T: PartialEq>(
    name: &'static str,
    text: &str,
    origin: &str,
    st: &mut Stats,
    f: impl Fn(&str) -> Result<T, KipError>,
) -> Option<Result<T, KipError>> {
    let a = guard(name, text, origin, st, || f(text))?;
    let b = guard(name, text, origin, st, || f(text))?;
    st.eval();
    let same = match (&a, &b) {
        (Ok(x), Ok(y)) => x == y,
        (Err(x), Err(y)) => err_key(x) == err_key(y),
        _ => false,
    };
    if !same {
        st.violation(
            format!("C15/nondeterministic/{name}"),
            json!({"entry": name, "origin": origin, "input": head(text),
                   "first": a.as_ref().map(|_| "ok").map_err(err_key), "second": b.as_ref().map(|_| "ok").map_err(err_key)}),
        );
    }
    st.count("oracle_determinism");
    Some(a)
}

fn is_resource(e: &KipError) -> bool {
    e.code == KipErrorCode::ResourceExhausted
}

// ---------------------------------------------------------------------------------------------
// the oracles for one input

#[derive(Clone, Copy, PartialEq, Debug)]
enum Expect {
    Nothing,
    /// constructed over the length or nesting limit: every entry point refuses with the resource error
    Refused,
    /// plainly legal (padding of a trivial command): must be accepted
    Accepted,
}

const NEVER_LEGAL: &[&str] = &[";", "%", "@", "#", ")", "}", "]", "\\", "'"];
const MAYBE_LEGAL: &[&str] = &["\"x\"", "?z", ":p", "FIND", "LIMIT 1", "1", "{}", "WHERE", "null"];

struct Checked {
    accepted: Option<Command>,
}

fn check_input(text: &str, origin: &str, expect: Expect, rng: &mut Rng, st: &mut Stats) -> Checked {
    st.count("inputs");
    st.count(&format!("inputs:{origin}"));
    let none = Checked { accepted: None };
    let Some(kip) = entry("parse_kip", text, origin, st, parse_kip) else { return none };
    let Some(kql) = entry("parse_kql", text, origin, st, parse_kql) else { return none };
    let Some(kml) = entry("parse_kml", text, origin, st, parse_kml) else { return none };
    let Some(meta) = entry("parse_meta", text, origin, st, parse_meta) else { return none };
    let Some(jsn) = entry("parse_json", text, origin, st, parse_json) else { return none };

    // ---- limits
    let over_len = text.len() > MAX_KIP_INPUT_LEN;
    if over_len || expect == Expect::Refused {
        st.count("oracle_refused_over_limit");
        let all = [
            ("parse_kip", kip.as_ref().err().map(is_resource)),
            ("parse_kql", kql.as_ref().err().map(is_resource)),
            ("parse_kml", kml.as_ref().err().map(is_resource)),
            ("parse_meta", meta.as_ref().err().map(is_resource)),
            ("parse_json", jsn.as_ref().err().map(is_resource)),
        ];
        for (name, r) in all {
            if r != Some(true) {
                st.violation(
                    format!("C15/limit-not-enforced/{name}/{}", if over_len { "length" } else { "nesting" }),
                    json!({"entry": name, "origin": origin, "input_len": text.len(), "input": head(text),
                           "got": match r { None => "accepted", Some(_) => "refused with another error" }}),
                );
            }
        }
    }
    if expect == Expect::Accepted && !over_len {
        st.count("oracle_plainly_legal_accepted");
        if let Err(e) = &kip {
            st.violation(
                "C15/legal-padding-refused",
                json!({"origin": origin, "input_len": text.len(), "input": head(text), "error": err_key(e)}),
            );
        }
    }

    // ---- classification / agreement between the entry points
    st.count("oracle_agreement");
    let disagree = |st: &mut Stats, what: &str, detail: Value| {
        st.violation(format!("C15/entry-points-disagree/{what}"), json!({"origin": origin, "input": head(text), "detail": detail}));
    };
    match &kip {
        Ok(Command::Kql(q)) => {
            st.count("class:Kql");
            if kql.as_ref().ok() != Some(q) {
                disagree(st, "kip=Kql,parse_kql-differs", json!(kql.as_ref().err().map(err_key)));
            }
            if kml.is_ok() || meta.is_ok() {
                disagree(st, "kip=Kql,other-specific-accepts", json!({"kml": kml.is_ok(), "meta": meta.is_ok()}));
            }
        }
        Ok(Command::Kml(s)) => {
            st.count("class:Kml");
            if kml.as_ref().ok() != Some(s) {
                disagree(st, "kip=Kml,parse_kml-differs", json!(kml.as_ref().err().map(err_key)));
            }
            if kql.is_ok() || meta.is_ok() {
                disagree(st, "kip=Kml,other-specific-accepts", json!({"kql": kql.is_ok(), "meta": meta.is_ok()}));
            }
        }
        Ok(Command::Meta(m)) => {
            st.count("class:Meta");
            if meta.as_ref().ok() != Some(m) {
                disagree(st, "kip=Meta,parse_meta-differs", json!(meta.as_ref().err().map(err_key)));
            }
            if kql.is_ok() || kml.is_ok() {
                disagree(st, "kip=Meta,other-specific-accepts", json!({"kql": kql.is_ok(), "kml": kml.is_ok()}));
            }
        }
        Err(_) => {
            st.count("class:rejected");
            // parse_kip = specific parser + validate_command: a specific parser may accept only
            // what validate_command then refuses
            if kql.is_ok() {
                disagree(st, "kip=Err,parse_kql-accepts", Value::Null);
            }
            if kml.is_ok() {
                disagree(st, "kip=Err,parse_kml-accepts", Value::Null);
            }
            // parse_meta runs no separate validation pass, but validate_command's contract is
            // "parse_kip and friends already ran these, so calling this on their output changes
            // nothing": a META text that parse_meta accepts and parse_kip refuses is a
            // disagreement either way (with or without the tree passing validate_command)
            if let Ok(m) = &meta {
                let c = Command::Meta(m.clone());
                match guard("validate_command", text, origin, st, || validate_command(&c)) {
                    Some(Ok(())) => disagree(st, "kip=Err,parse_meta+validate-accepts", Value::Null),
                    Some(Err(e)) => disagree(st, "kip=Err,parse_meta-accepts-what-validation-refuses", json!(err_key(&e))),
                    None => {}
                }
            }
        }
    }

    // ---- the JSON dialect
    if let Ok(j) = &jsn {
        st.count("json_accepted");
        st.set("distinct_json_values", fnv_str(&j.to_string()));
        let lexed = lex::lex(text);
        let (vt, changed) = lexed.render(Variant::Trivia, rng);
        if changed > 0 && vt.len() <= MAX_KIP_INPUT_LEN {
            st.count("oracle_json_trivia_variant");
            if let Some(r) = guard("parse_json:variant", &vt, origin, st, || parse_json(&vt)) {
                if r.as_ref().ok() != Some(j) {
                    st.violation(
                        "C15/metamorphic/json-trivia",
                        json!({"origin": origin, "base": head(text), "variant": head(&vt), "error": r.err().map(|e| err_key(&e))}),
                    );
                }
            }
        }
        let t2 = format!("{text}\n;");
        if t2.len() <= MAX_KIP_INPUT_LEN {
            if let Some(Ok(_)) = guard("parse_json:stray", &t2, origin, st, || parse_json(&t2)) {
                st.violation("C15/trailing-token-ignored/json", json!({"origin": origin, "input": head(&t2)}));
            }
        }
    }

    let Ok(cmd) = kip else { return none };
    accepted_pipeline(text, origin, &cmd, rng, st);
    Checked { accepted: Some(cmd) }
}

fn accepted_pipeline(text: &str, origin: &str, cmd: &Command, rng: &mut Rng, st: &mut Stats) {
    st.count("accepted");
    st.count(&format!("accepted:{origin}"));

    // ---- validate again
    st.count("oracle_revalidate");
    if let Some(Err(e)) = guard("validate_command", text, origin, st, || validate_command(cmd)) {
        st.violation("C15/revalidation-refuses-parsed-command", json!({"origin": origin, "input": head(text), "error": err_key(&e)}));
    }

    // ---- serde round trip (value path is asserted; the text path too unless serde_json's own
    //      recursion limit of the text deserializer is what refuses)
    st.count("oracle_serde_roundtrip");
    let v = guard("serde:to_value", text, origin, st, || serde_json::to_value(cmd));
    let mut ast_hash = 0u64;
    match v {
        Some(Ok(v)) => {
            let s = v.to_string();
            ast_hash = fnv_str(&s);
            match guard("serde:from_value", text, origin, st, || serde_json::from_value::<Command>(v.clone())) {
                Some(Ok(back)) => {
                    if &back != cmd {
                        st.violation("C15/serde-roundtrip/value-differs", json!({"origin": origin, "input": head(text), "json": head(&s)}));
                    } else {
                        if let Some(Ok(v2)) = guard("serde:to_value", text, origin, st, || serde_json::to_value(&back)) {
                            if v2 != v {
                                st.violation("C15/serde-roundtrip/reencode-differs", json!({"origin": origin, "input": head(text)}));
                            }
                        }
                        if let Some(Err(e)) = guard("validate_command", text, origin, st, || validate_command(&back)) {
                            st.violation(
                                "C15/serde-roundtrip/decoded-tree-refused",
                                json!({"origin": origin, "input": head(text), "error": err_key(&e)}),
                            );
                        }
                    }
                }
                Some(Err(e)) => st.violation(
                    "C15/serde-roundtrip/decode-fails",
                    json!({"origin": origin, "input": head(text), "json": head(&s), "error": e.to_string()}),
                ),
                None => {}
            }
            match guard("serde:from_str", text, origin, st, || serde_json::from_str::<Command>(&s)) {
                Some(Ok(back)) => {
                    st.count("serde_text_roundtrips");
                    if &back != cmd {
                        st.violation("C15/serde-roundtrip/text-differs", json!({"origin": origin, "input": head(text), "json": head(&s)}));
                    }
                }
                Some(Err(e)) if e.to_string().contains("recursion limit") => st.count("serde_text_decoder_recursion_limit_hit"),
                Some(Err(e)) => st.violation(
                    "C15/serde-roundtrip/text-decode-fails",
                    json!({"origin": origin, "input": head(text), "json": head(&s), "error": e.to_string()}),
                ),
                None => {}
            }
        }
        Some(Err(e)) => st.violation("C15/serde-roundtrip/encode-fails", json!({"origin": origin, "input": head(text), "error": e.to_string()})),
        None => {}
    }

    // ---- evidence: which families / how many distinct trees
    let fams = families(cmd);
    for f in &fams {
        st.count(&format!("fam:{f}"));
    }
    for m in major(cmd) {
        st.set(&format!("distinct_ast:{m}"), ast_hash);
    }
    st.set("distinct_accepted_asts", ast_hash);
    if fams.len() >= 12 {
        st.distinct(ast_hash);
    }

    // ---- the whole input is consumed
    st.count("oracle_whole_input_consumed");
    let mut strays: Vec<(&str, bool)> = vec![(";", true)];
    strays.push((*rng.pick(NEVER_LEGAL), true));
    strays.push((*rng.pick(MAYBE_LEGAL), false));
    for (tok, never) in strays {
        let t2 = format!("{text}\n{tok}");
        if t2.len() > MAX_KIP_INPUT_LEN {
            continue;
        }
        let Some(r) = guard("parse_kip:stray", &t2, origin, st, || parse_kip(&t2)) else { continue };
        match r {
            Ok(c2) if &c2 == cmd => {
                st.violation("C15/trailing-token-ignored", json!({"origin": origin, "input": head(&t2), "appended": tok}));
            }
            Ok(_) if never => {
                st.violation("C15/illegal-trailing-token-accepted", json!({"origin": origin, "input": head(&t2), "appended": tok}));
            }
            Ok(_) => st.count("stray_token_changed_the_command"),
            Err(_) => st.count("stray_token_refused"),
        }
    }

    // ---- metamorphic variants
    let lexed = lex::lex(text);
    if lexed.source() != text {
        st.inconclusive("harness tokenizer does not reproduce its input");
        return;
    }
    for v in Variant::ALL {
        let (vt, changed) = lexed.render(v, rng);
        if changed == 0 || vt.len() > MAX_KIP_INPUT_LEN || vt == text {
            continue;
        }
        st.count(&format!("oracle_metamorphic:{}", v.name()));
        st.add(&format!("metamorphic_places_changed:{}", v.name()), changed as u64);
        let Some(r) = guard("parse_kip:variant", &vt, origin, st, || parse_kip(&vt)) else { continue };
        match r {
            Ok(c2) if &c2 == cmd => {}
            Ok(_) => st.violation(
                format!("C15/metamorphic/{}/different-command", v.name()),
                json!({"origin": origin, "base": head(text), "variant": head(&vt)}),
            ),
            Err(e) => st.violation(
                format!("C15/metamorphic/{}/refused", v.name()),
                json!({"origin": origin, "base": head(text), "variant": head(&vt), "error": err_key(&e)}),
            ),
        }
    }
    // measured, not asserted: a separator between a predicate and its hop quantifier
    if text.contains("\"{") {
        st.count("measured:inputs_with_glued_quantifier");
    }
}

// ---------------------------------------------------------------------------------------------
// sections (child side)

static CORPUS: OnceLock<Vec<Item>> = OnceLock::new();

fn corpus_items(st: &mut Stats) -> &'static [Item] {
    CORPUS.get_or_init(|| {
        let mut missing = vec![];
        let items = corpus::load(&mut missing);
        for m in missing {
            st.inconclusive(format!("corpus source unreadable: {m}"));
        }
        items
    })
}

fn corpus_case(idx: u64, rng: &mut Rng, st: &mut Stats) {
    let items = corpus_items(st);
    if items.is_empty() {
        st.inconclusive("corpus is empty");
        return;
    }
    let item = &items[(idx as usize) % items.len()];
    let first_round = (idx as usize) < items.len();
    let origin = "corpus";
    let c = check_input(&item.text, origin, Expect::Nothing, rng, st);
    if first_round {
        let src = item.source.split(':').take(2).collect::<Vec<_>>().join(":");
        st.count(&format!("corpus_items:{src}"));
        st.count("corpus_items");
        if c.accepted.is_some() {
            st.count("corpus_items_accepted");
            st.count(&format!("corpus_items_accepted:{src}"));
        }
    }
    // token-level mutations
    let base = lex::lex(&item.text);
    for _ in 0..4 {
        let donor = lex::lex(&rng.pick(items).text);
        let (m, used) = mutate::mutate(&base, &donor, rng);
        for u in used {
            st.count(&format!("mutator:{u}"));
        }
        let c = check_input(&m, "corpus-mutant", Expect::Nothing, rng, st);
        if c.accepted.is_some() && m != item.text {
            st.sample(|| json!({"kind": "accepted mutant of a corpus item", "text": head(&m)}));
        }
    }
}

/// Cross-check of the tokenizer against the generator's own token kinds.
fn check_lexer_against_generator(toks: &[generate::GTok], text: &str, st: &mut Stats) {
    let l = lex::lex(text);
    if l.tokens.len() != toks.len() || l.tokens.iter().zip(toks).any(|(a, b)| a.text != b.text) {
        st.inconclusive("harness tokenizer splits a generated sentence differently from the generator");
        st.sample(|| json!({"kind": "tokenizer/generator mismatch", "text": head(text)}));
        return;
    }
    st.count("tokenizer_checked_against_generator");
    for (i, g) in toks.iter().enumerate() {
        if l.flippable(i) {
            st.count("tokens_judged_case_insensitive");
            if !matches!(g.kind, GK::Kw | GK::Func) {
                st.inconclusive(format!("harness tokenizer would flip the case of a non-keyword ({:?} {})", g.kind, g.text));
            }
        } else if matches!(g.kind, GK::Kw | GK::Func) {
            st.count("keyword_tokens_conservatively_not_flipped");
        }
    }
}

fn gen_case(idx: u64, rng: &mut Rng, st: &mut Stats) {
    let surface = (idx % 4) as usize;
    let mode = rng.below(24);
    let (toks, reached) = {
        let mut g = Gen::new(rng);
        match mode {
            0 | 1 => {
                // one path drilled towards / beyond the nesting limit
                g.drill = *g.rng.pick(&[12usize, 24, 40, 52, 58, 60, 61, 62, 63, 64, 65, 66, 70, 90]);
            }
            2 => {
                g.scale = 4 + g.rng.usize(30);
                g.fuel = 3000 + g.rng.below(20000) as i64;
                g.soft_depth = 5;
            }
            3 => {
                g.soft_depth = 12;
                g.fuel = 1500;
            }
            _ => {}
        }
        match surface {
            0 => g.kql(),
            1 => g.kml(),
            2 => g.meta(),
            _ => {
                if g.rng.chance(1, 3) {
                    g.json()
                } else {
                    // META with a selection block / the selecting KML statements
                    if g.rng.bool() {
                        g.meta_family(45)
                    } else {
                        let own = "h".to_string();
                        let f = 7 + g.rng.usize(10);
                        g.kml_statement(f, &own, &[])
                    }
                }
            }
        }
        (g.t, g.reached)
    };
    let text = generate::render(&toks);
    st.max("max_generated_bracket_depth", reached as u64);
    st.max("max_generated_len", text.len() as u64);
    st.count(&format!("generated:{}", ["kql", "kml", "meta", "mixed"][surface]));
    let lexed = lex::lex(&text);
    let (depth, balanced) = lexed.bracket_depth();
    if !balanced || depth != reached {
        st.inconclusive(format!("generator and tokenizer disagree on the bracket depth ({reached} vs {depth}, balanced {balanced})"));
        st.sample(|| json!({"kind": "depth mismatch", "text": head(&text)}));
        return;
    }
    let expect = if depth > MAX_KIP_NESTING_DEPTH {
        st.count("generated_beyond_nesting_limit");
        Expect::Refused
    } else {
        if depth >= MAX_KIP_NESTING_DEPTH - 4 {
            st.count("generated_within_4_of_nesting_limit");
        }
        Expect::Nothing
    };
    check_lexer_against_generator(&toks, &text, st);
    let c = check_input(&text, "generated", expect, rng, st);
    if let Some(_cmd) = &c.accepted {
        st.max("max_accepted_bracket_depth", depth as u64);
        st.count(&format!("generated_accepted:{}", ["kql", "kml", "meta", "mixed"][surface]));
        st.sample(|| json!({"kind": "accepted generated sentence", "depth": depth, "text": head(&text)}));
    } else if expect == Expect::Nothing {
        st.count("generated_rejected_within_limits");
    }
    // token-level mutations of the sentence
    let n_mut = if text.len() > 20000 { 1 } else { 3 };
    for _ in 0..n_mut {
        let donor = {
            let t = generate::sentence(rng, rng_surface(idx));
            lex::lex(&generate::render(&t))
        };
        let (m, used) = mutate::mutate(&lexed, &donor, rng);
        for u in used {
            st.count(&format!("mutator:{u}"));
        }
        check_input(&m, "generated-mutant", Expect::Nothing, rng, st);
    }
}

fn rng_surface(idx: u64) -> usize {
    ((idx / 4) % 3) as usize
}

fn noise_case(_idx: u64, rng: &mut Rng, st: &mut Stats) {
    let pools: [&[char]; 4] = [
        &['a', 'Z', '_', '0', '9', ' ', '\n', '\t', '?', ':', '"', '\\', '/', '(', ')', '{', '}', '[', ']', ',', '|', '&', '!', '=', '<', '>', '-', '.', '+', 'e', 'E'],
        &['\u{0}', '\u{1}', '\u{7f}', '\u{80}', '\u{a0}', '\u{85}', '\u{2028}', '\u{2029}', '\u{feff}', '\u{200b}', '\u{3000}', '\r'],
        &['é', 'ß', 'Ω', 'ж', '中', '文', '🦀', '😀', '\u{10ffff}', '\u{e000}', '\u{fffd}', '\u{301}', 'İ', 'ı', 'ǅ', 'ﬁ', '١', '²'],
        &['F', 'I', 'N', 'D', 'f', 'i', 'n', 'd', 'W', 'H', 'E', 'R', 'w', 'h', 'e', 'r'],
    ];
    // 1. unicode strings
    for _ in 0..3 {
        let n = rng.usize(120);
        let mut s = String::new();
        for _ in 0..n {
            let p = pools[rng.weighted(&[6, 1, 2, 2])];
            s.push(*rng.pick(p));
        }
        check_input(&s, "noise-unicode", Expect::Nothing, rng, st);
    }
    // 2. byte noise, made valid UTF-8
    let n = rng.usize(200);
    let s = String::from_utf8_lossy(&rng.bytes(n)).to_string();
    check_input(&s, "noise-bytes", Expect::Nothing, rng, st);
    // 3. arbitrary scalar values
    let n = rng.usize(60);
    let s: String = (0..n).filter_map(|_| char::from_u32(rng.below(0x110000) as u32)).collect();
    check_input(&s, "noise-scalars", Expect::Nothing, rng, st);
    // 4. keyword soup
    for _ in 0..3 {
        let n = 1 + rng.usize(25);
        let mut s = String::new();
        for _ in 0..n {
            match rng.below(6) {
                0 | 1 => s.push_str(*rng.pick(lex::KEYWORDS)),
                2 => s.push_str(*rng.pick(mutate::SPLICES)),
                3 => s.push_str(*rng.pick(&["?x", ":p", "\"s\"", "1", "?x.a", "true", "null", "{", "}", "(", ")", ","])),
                4 => s.push_str(*rng.pick(lex::FUNCTIONS)),
                _ => s.push_str(*rng.pick(mutate::HOSTILE_STRINGS)),
            }
            s.push_str(if rng.chance(1, 8) { "" } else { *rng.pick(lex::TRIVIA) });
        }
        check_input(&s, "noise-keyword-soup", Expect::Nothing, rng, st);
    }
    // 5. a valid prefix followed by noise
    let surface = rng.usize(3);
    let t = generate::render(&generate::sentence(rng, surface));
    let chars: Vec<char> = t.chars().collect();
    let cut = rng.usize(chars.len() + 1);
    let mut s: String = chars[..cut].iter().collect();
    let extra = rng.usize(6);
    for _ in 0..extra {
        let pi = rng.usize(3);
        s.push(*rng.pick(pools[pi]));
    }
    check_input(&s, "noise-valid-prefix", Expect::Nothing, rng, st);
}

// ---------------------------------------------------------------------------------------------
// limits: exact depths and lengths around the documented bounds

const DEPTHS: &[usize] = &[1, 2, 3, 31, 32, 33, 59, 60, 61, 62, 63, 64, 65, 66, 67, 70, 100, 128, 1000, 5000, 50000, 131072];
const N_KINDS: usize = 33;

fn rep(s: &str, n: usize) -> String {
    s.repeat(n)
}

/// (name, text, decoy): `decoy` = the brackets are inside a string / comment and must not count.
fn nest(kind: usize, d: usize) -> (&'static str, String, bool) {
    let k = |base: usize| d.saturating_sub(base);
    match kind {
        0 => ("filter-group", format!("FIND(?x) WHERE {{ FILTER({}?x.a == 1{}) }}", rep("(", k(2)), rep(")", k(2))), false),
        1 => ("filter-operand-paren", format!("FIND(?x) WHERE {{ FILTER({}?x.a{} == 1) }}", rep("(", k(2)), rep(")", k(2))), false),
        2 => ("filter-list", format!("FIND(?x) WHERE {{ FILTER(IN(?x.a, {}1{})) }}", rep("[", k(3)), rep("]", k(3))), false),
        3 => ("not-blocks", format!("FIND(?x) WHERE {}{{ ?x {{type: \"T\"}} }}{}", rep("{ NOT ", k(2)), rep(" }", k(2))), false),
        4 => (
            "optional-union-blocks",
            format!("FIND(?x) WHERE {}{{ ?x {{type: \"T\"}} }}{}", rep("{ OPTIONAL { UNION ", k(2) / 2), rep(" } }", k(2) / 2)),
            false,
        ),
        5 => ("match-array", format!("FIND(?x) WHERE {{ ?x {{a: {}1{}}} }}", rep("[", k(2)), rep("]", k(2))), false),
        6 => ("match-object", format!("FIND(?x) WHERE {{ ?x {}1{} }}", rep("{a: ", k(1)), rep("}", k(1))), false),
        7 => ("object-tuple", format!("FIND(?x) WHERE {{ {}?o{} }}", rep("(?s, \"p\", ", k(1)), rep(")", k(1))), false),
        8 => ("subject-tuple", format!("FIND(?x) WHERE {{ {}?s{} }}", rep("(", k(1)), rep(", \"p\", ?o)", k(1))), false),
        9 => ("kml-value-array", format!("UPDATE :x SET ATTRIBUTES {{ a: {}1{} }}", rep("[", k(1)), rep("]", k(1))), false),
        10 => ("kml-value-object", format!("UPDATE :x SET ATTRIBUTES {}1{}", rep("{ a: ", d), rep(" }", d)), false),
        11 => ("update-expr", format!("UPDATE :x SET ATTRIBUTES {{ a: {}1{} }}", rep("ADD(", k(1)), rep(", 1)", k(1))), false),
        12 => ("ensure-nested-tuple", format!("ENSURE PROPOSITION {}:o{}", rep("(:s, \"p\", ", d), rep(")", d)), false),
        13 => ("meta-with-object", format!("DESCRIBE ACCESS WITH {}1{}", rep("{a: ", d), rep("}", d)), false),
        14 => (
            "export-where-blocks",
            format!("EXPORT CAPSULE :r WHERE {}{{ ?c {{type: \"T\"}} }}{}", rep("{ ?c {type: \"T\"} OPTIONAL ", k(2)), rep(" }", k(2))),
            false,
        ),
        15 => ("json-array", format!("{}{}", rep("[", d), rep("]", d)), false),
        16 => ("json-object", format!("{}1{}", rep("{a:", d), rep("}", d)), false),
        17 => {
            let opens: String = (0..d).map(|i| ['(', '[', '{'][i % 3]).collect();
            let closes: String = (0..d).rev().map(|i| [')', ']', '}'][i % 3]).collect();
            ("mixed-brackets", format!("{opens}{closes}"), false)
        }
        18 => ("open-only", rep("(", d), false),
        19 => ("string-decoy", format!("DESCRIBE TYPE \"{}\"", rep("(", d)), true),
        20 => ("comment-decoy", format!("// {}\nDESCRIBE PROTOCOL", rep("{", d)), true),
        21 => ("comment-quote-then-deep", format!("// \"\n{}", rep("(", d)), false),
        22 => ("string-with-slashes-then-deep", format!("DESCRIBE TYPE \"a//b\" {}", rep("(", d)), false),
        23 => ("escaped-quote-then-deep", format!("DESCRIBE TYPE \"a\\\"\" {}", rep("[", d)), false),
        24 => ("not-operator-chain", format!("FIND(?x) WHERE {{ FILTER({}IS_NULL(?x.a)) }}", rep("!", d)), false),
        25 => ("minus-chain", format!("FIND(?x) WHERE {{ FILTER({}?x.a == 1) }}", rep("-", d)), false),
        26 => ("and-chain", format!("FIND(?x) WHERE {{ FILTER({}?x.a == 1) }}", rep("?x.a == 1 && ", d)), false),
        27 => ("or-chain", format!("FIND(?x) WHERE {{ FILTER({}?x.a == 1) }}", rep("?x.a == 1 || ", d)), false),
        28 => (
            "blocks-plus-operator-chain",
            format!(
                "FIND(?x) WHERE {}{{ FILTER({}IS_NULL({}?x.a)) }}{}",
                rep("{ NOT ", 60),
                rep("!", d.min(70)),
                rep("-", d.min(70) / 2),
                rep(" }", 60)
            ),
            false,
        ),
        29 => ("key-steps", format!("FIND(?x{}) WHERE {{ ?x {{type: \"T\"}} }}", rep("[\"k\"]", d)), false),
        30 => ("alternation-with-quantifiers", format!("FIND(?x) WHERE {{ (?x, {}\"p\", ?y) }}", rep("\"p\"{0,1} | ", d)), false),
        31 => (
            "late-deep-tail",
            format!("FIND(?x) WHERE {{ {} FILTER({}?x.a == 1{}) }}", rep("?v {type: \"T\"} ", 3000), rep("(", k(2)), rep(")", k(2))),
            false,
        ),
        _ => ("assign-nested-value", format!("CREATE CONCEPT ?c {{ TYPE \"T\" SET ATTRIBUTES {{ a: {}:p{} }} }}", rep("[", k(2)), rep("]", k(2))), false),
    }
}

fn length_case(i: usize) -> (&'static str, String) {
    let lens = [MAX_KIP_INPUT_LEN - 1, MAX_KIP_INPUT_LEN, MAX_KIP_INPUT_LEN + 1, MAX_KIP_INPUT_LEN + 2, 2 * MAX_KIP_INPUT_LEN, 4 * MAX_KIP_INPUT_LEN + 1];
    let target = lens[i % lens.len()];
    match i / lens.len() {
        0 => {
            let base = "DESCRIBE PROTOCOL";
            ("pad-spaces", format!("{base}{}", rep(" ", target - base.len())))
        }
        1 => {
            let base = "DESCRIBE PROTOCOL //";
            ("pad-comment", format!("{base}{}", rep("x", target - base.len())))
        }
        2 => {
            let base = "DESCRIBE TYPE \"\"";
            ("pad-string", format!("DESCRIBE TYPE \"{}\"", rep("s", target - base.len())))
        }
        3 => {
            // multi-byte padding: the limit is in bytes
            let base = "DESCRIBE TYPE \"\"";
            let n = (target - base.len()) / 3;
            let fill = target - base.len() - 3 * n;
            ("pad-multibyte", format!("DESCRIBE TYPE \"{}{}\"", rep("€", n), rep("s", fill)))
        }
        _ => {
            let base = "\n\n";
            ("pad-leading-newlines", format!("{}DESCRIBE PROTOCOL{base}", rep("\n", target - 17 - base.len())))
        }
    }
}

const N_LENGTH_CASES: usize = 30;

fn limits_cases() -> u64 {
    (N_KINDS * DEPTHS.len() + N_LENGTH_CASES) as u64
}

fn limits_case(idx: u64, rng: &mut Rng, st: &mut Stats) {
    let idx = idx as usize;
    if idx >= N_KINDS * DEPTHS.len() {
        let (name, text) = length_case(idx - N_KINDS * DEPTHS.len());
        st.count(&format!("limit_kind:{name}"));
        let over = text.len() > MAX_KIP_INPUT_LEN;
        st.count(if over { "length_cases_over_limit" } else { "length_cases_at_or_below_limit" });
        let a0 = allocs();
        let r = guard("parse_kip", &text, "limits-length", st, || parse_kip(&text));
        let used = allocs() - a0;
        if over {
            st.max("max_allocations_while_refusing_overlong_input", used);
            st.count("oracle_refusal_is_cheap");
            if matches!(r, Some(Err(_))) && used > 64 {
                st.violation(
                    "C15/refusal-after-work/length",
                    json!({"kind": name, "input_len": text.len(), "allocations": used, "bound": 64}),
                );
            }
        }
        check_input(&text, "limits-length", if over { Expect::Refused } else { Expect::Accepted }, rng, st);
        return;
    }
    let d = DEPTHS[idx % DEPTHS.len()];
    let (name, text, decoy) = nest(idx / DEPTHS.len(), d);
    st.count(&format!("limit_kind:{name}"));
    let lexed: Lexed = lex::lex(&text);
    let (depth, _) = lexed.bracket_depth();
    let over_len = text.len() > MAX_KIP_INPUT_LEN;
    let over_depth = depth > MAX_KIP_NESTING_DEPTH;
    if decoy && depth != 0 {
        st.inconclusive("harness tokenizer counts brackets inside a string or comment");
        return;
    }
    let expect = if over_len || over_depth {
        Expect::Refused
    } else if decoy {
        Expect::Accepted
    } else {
        Expect::Nothing
    };
    if over_depth {
        st.count("nesting_cases_over_limit");
        if depth <= MAX_KIP_NESTING_DEPTH + 3 {
            st.count("nesting_cases_just_over_limit");
        }
    } else {
        st.count("nesting_cases_at_or_below_limit");
        if depth + 3 >= MAX_KIP_NESTING_DEPTH {
            st.count("nesting_cases_just_below_limit");
        }
    }
    if expect == Expect::Refused {
        let a0 = allocs();
        let r = guard("parse_kip", &text, "limits-nesting", st, || parse_kip(&text));
        let used = allocs() - a0;
        st.max("max_allocations_while_refusing_overdeep_input", used);
        st.count("oracle_refusal_is_cheap");
        if matches!(r, Some(Err(_))) && used > 64 {
            st.violation(
                format!("C15/refusal-after-work/nesting/{name}"),
                json!({"kind": name, "depth": depth, "input_len": text.len(), "allocations": used, "bound": 64}),
            );
        }
    }
    let c = check_input(&text, "limits-nesting", expect, rng, st);
    if c.accepted.is_some() {
        st.max("max_accepted_bracket_depth", depth as u64);
        st.count("limit_cases_accepted");
        if depth == MAX_KIP_NESTING_DEPTH {
            st.count("accepted_at_exactly_the_nesting_limit");
        }
    }
}

// ---------------------------------------------------------------------------------------------
// bounded work: pathological generators at doubling sizes

const SCALING: &[&str] = &[
    "mutate-many-handles",
    "mutate-many-asserts",
    "mutate-handle-references",
    "where-many-patterns",
    "where-many-filters",
    "filter-64-term-chains",
    "filter-deep-groups-repeated",
    "filter-deep-operand-parens-repeated",
    "matcher-many-keys",
    "assignments-many-keys",
    "unset-many-fields",
    "value-long-array",
    "value-nested-arrays-repeated",
    "string-long-with-escapes",
    "comment-long",
    "comments-between-all-tokens",
    "alternation-wide",
    "dot-path-long",
    "find-many-projections",
    "order-by-many",
    "error-at-the-end",
    "unclosed-block-at-the-end",
    "keyword-soup",
    "not-blocks-64-deep-repeated",
    "structural-many-edges",
    "json-many-keys",
    "json-long-array",
    "open-brackets-noise",
    "quotes-noise",
];

fn ident36(mut n: usize) -> String {
    let abc = b"abcdefghijklmnopqrstuvwxyz0123456789_";
    let mut s = vec![b'a' + (n % 26) as u8];
    n /= 26;
    while n > 0 {
        s.push(abc[n % abc.len()]);
        n /= abc.len();
    }
    String::from_utf8(s).unwrap()
}

/// Builds `prefix + unit(i)* + suffix` as close to `len` bytes as possible without exceeding it.
fn fill(len: usize, prefix: &str, suffix: &str, mut unit: impl FnMut(usize) -> String) -> String {
    let mut s = String::with_capacity(len);
    s.push_str(prefix);
    let mut i = 0;
    loop {
        let u = unit(i);
        if s.len() + u.len() + suffix.len() > len {
            break;
        }
        s.push_str(&u);
        i += 1;
    }
    s.push_str(suffix);
    s
}

fn scaling_input(family: &str, len: usize) -> (String, &'static str) {
    let kip = "parse_kip";
    match family {
        "mutate-many-handles" => (fill(len, "MUTATE{", "}", |i| format!("CREATE CONCEPT ?{}{{}}", ident36(i))), kip),
        "mutate-many-asserts" => (fill(len, "MUTATE{", "}", |_| "ASSERT(:a,\"p\",:b){by::a,mode:\"s\"}".to_string()), kip),
        "mutate-handle-references" => {
            let n = len / 90;
            (
                fill(len, "MUTATE{", "}", |i| {
                    format!(
                        "CREATE CONCEPT ?{}{{SET STRUCTURAL{{(\"f\",?{})(\"f\",?{})(\"f\",?{})}}}}",
                        ident36(i),
                        ident36((i + 1) % n.max(1)),
                        ident36((i * 7 + 3) % n.max(1)),
                        ident36(i / 2)
                    )
                }),
                kip,
            )
        }
        "where-many-patterns" => (fill(len, "FIND(?x) WHERE {", "}", |i| format!("?{}{{type:\"T\"}}", ident36(i))), kip),
        "where-many-filters" => (fill(len, "FIND(?x) WHERE {", "}", |_| "FILTER(?x.a==1)".to_string()), kip),
        "filter-64-term-chains" => (
            fill(len, "FIND(?x) WHERE {", "}", |_| format!("FILTER({}?x.a==1)", rep("?x.a==1&&", 63))),
            kip,
        ),
        "filter-deep-groups-repeated" => (
            fill(len, "FIND(?x) WHERE {", "}", |_| format!("FILTER({}?x.a==1{})", rep("(", 60), rep(")", 60))),
            kip,
        ),
        "filter-deep-operand-parens-repeated" => (
            fill(len, "FIND(?x) WHERE {", "}", |_| format!("FILTER({}?x.a{}==1)", rep("(", 60), rep(")", 60))),
            kip,
        ),
        "matcher-many-keys" => (fill(len, "FIND(?x) WHERE {?x{", "}}", |i| format!("{}:1,", ident36(i))), kip),
        "assignments-many-keys" => (fill(len, "UPDATE :x SET ATTRIBUTES{", "}", |i| format!("{}:1,", ident36(i))), kip),
        "unset-many-fields" => (fill(len, "UPDATE :x UNSET ATTRIBUTES{", "}", |i| format!("{},", ident36(i))), kip),
        "value-long-array" => (fill(len, "UPDATE :x SET ATTRIBUTES{a:[", "]}", |_| "1,".to_string()), kip),
        "value-nested-arrays-repeated" => (
            fill(len, "UPDATE :x SET ATTRIBUTES{a:[", "]}", |_| format!("{}:p{},", rep("[", 60), rep("]", 60))),
            kip,
        ),
        "string-long-with-escapes" => (fill(len, "DESCRIBE TYPE \"", "\"", |_| "a\\\"\\u00e9\\\\//(".to_string()), kip),
        "comment-long" => (fill(len, "DESCRIBE PROTOCOL //", "", |_| "\" ( { [ x".to_string()), kip),
        "comments-between-all-tokens" => (
            fill(len, "FIND(?x) WHERE {", "}", |_| "//c\n?v//c\n{//c\ntype//c\n://c\n\"T\"//c\n}//c\n".to_string()),
            kip,
        ),
        "alternation-wide" => (fill(len, "FIND(?x) WHERE {(?x,", "\"p\",?y)}", |_| "\"p\"{0,2}|".to_string()), kip),
        "dot-path-long" => (fill(len, "FIND(?x", ") WHERE {}", |i| if i % 2 == 0 { ".a".to_string() } else { "[\"k\"]".to_string() }), kip),
        "find-many-projections" => (fill(len, "FIND(", "?x) WHERE {}", |_| "COUNT(DISTINCT ?x.a),".to_string()), kip),
        "order-by-many" => (fill(len, "FIND(?x) WHERE {} ORDER BY ", "?x", |_| "?x.a DESC,".to_string()), kip),
        "error-at-the-end" => (fill(len, "FIND(?x) WHERE {", "} LIMIT LIMIT", |i| format!("?{}{{type:\"T\"}}\n", ident36(i))), kip),
        "unclosed-block-at-the-end" => (fill(len, "FIND(?x) WHERE {", "NOT { NOT { NOT { (?a, \"p\"", |_| "?v{type:\"T\"}\n".to_string()), kip),
        "keyword-soup" => (fill(len, "", "", |i| format!("{} ", lex::KEYWORDS[i % lex::KEYWORDS.len()])), kip),
        "not-blocks-64-deep-repeated" => (
            fill(len, "FIND(?x) WHERE {", "}", |_| format!("{}?x{{type:\"T\"}}{}", rep("NOT{", 62), rep("}", 62))),
            kip,
        ),
        "structural-many-edges" => (
            fill(len, "MUTATE{CREATE CONCEPT ?h{TYPE \"T\"} CREATE CONCEPT ?c{SET STRUCTURAL{", "}}}", |_| "(\"f\",?h){index:1}".to_string()),
            kip,
        ),
        "json-many-keys" => (fill(len, "{", "}", |i| format!("{}:1,", ident36(i))), "parse_json"),
        "json-long-array" => (fill(len, "[", "]", |_| "[1,{a:null}],".to_string()), "parse_json"),
        "open-brackets-noise" => (fill(len, "", "", |_| "(]{)[}".to_string()), kip),
        _ => (fill(len, "", "", |_| "\"\\\" \"".to_string()), kip),
    }
}

const WORK_BOUND_S: f64 = 5.0;

struct Measured {
    cpu_s: f64,
    wall_s: f64,
    accepted: Option<bool>,
    cpu_clock: bool,
    /// the measurement was given up at the cap; the parse is still running
    capped: bool,
}

/// One parse on its own small-stack thread; the caller polls the thread's CPU time and gives up
/// at `cap_s` (the runaway thread dies with the child process).
fn measure(text: &str, which: &'static str, stack_kib: u64, cap_s: f64, st: &mut Stats) -> Measured {
    use std::sync::mpsc;
    trace(which, text);
    let (tx_tid, rx_tid) = mpsc::channel::<std::path::PathBuf>();
    let (tx_done, rx_done) = mpsc::channel::<(Result<bool, String>, u64, bool)>();
    let input = text.to_string();
    let w0 = std::time::Instant::now();
    let spawned = std::thread::Builder::new().stack_size((stack_kib as usize) << 10).spawn(move || {
        let _ = tx_tid.send(std::fs::read_link("/proc/thread-self").unwrap_or_default());
        let (t0, c0) = proc::thread_cpu_ns();
        let r = std::panic::catch_unwind(|| match which {
            "parse_json" => parse_json(&input).is_ok(),
            _ => parse_kip(&input).is_ok(),
        })
        .map_err(|p| format!("{} at {}", vcore::run::panic_message(&p), short_loc(&vcore::run::take_last_panic_location())));
        let (t1, c1) = proc::thread_cpu_ns();
        let _ = tx_done.send((r, t1 - t0, c0 && c1));
    });
    if spawned.is_err() {
        st.inconclusive("cannot spawn the measuring thread");
        return Measured { cpu_s: 0.0, wall_s: 0.0, accepted: None, cpu_clock: false, capped: false };
    }
    let task = rx_tid.recv().ok().map(|p| std::path::Path::new("/proc").join(p).join("schedstat"));
    loop {
        match rx_done.recv_timeout(Duration::from_millis(20)) {
            Ok((r, ns, clk)) => {
                let accepted = match r {
                    Ok(b) => Some(b),
                    Err(p) => {
                        st.violation(format!("C15/panic/{which}/scaling"), json!({"stage": which, "panic": p, "input_len": text.len(), "input": head(text)}));
                        None
                    }
                };
                return Measured { cpu_s: ns as f64 / 1e9, wall_s: w0.elapsed().as_secs_f64(), accepted, cpu_clock: clk, capped: false };
            }
            Err(mpsc::RecvTimeoutError::Timeout) => {
                let cpu = task
                    .as_ref()
                    .and_then(|p| std::fs::read_to_string(p).ok())
                    .and_then(|t| t.split_whitespace().next().and_then(|x| x.parse::<u64>().ok()));
                let (used, clk) = match cpu {
                    Some(ns) => (ns as f64 / 1e9, true),
                    None => (w0.elapsed().as_secs_f64(), false),
                };
                if used > cap_s {
                    return Measured { cpu_s: used, wall_s: w0.elapsed().as_secs_f64(), accepted: None, cpu_clock: clk, capped: true };
                }
            }
            Err(mpsc::RecvTimeoutError::Disconnected) => {
                st.inconclusive("measuring thread vanished");
                return Measured { cpu_s: 0.0, wall_s: 0.0, accepted: None, cpu_clock: false, capped: false };
            }
        }
    }
}

fn scaling_case(spec: &ChildSpec, idx: u64, st: &mut Stats) {
    let family = SCALING[idx as usize % SCALING.len()];
    let sizes: Vec<usize> = if spec.tier == "quick" {
        vec![MAX_KIP_INPUT_LEN / 4, MAX_KIP_INPUT_LEN / 2, MAX_KIP_INPUT_LEN]
    } else {
        vec![MAX_KIP_INPUT_LEN / 16, MAX_KIP_INPUT_LEN / 8, MAX_KIP_INPUT_LEN / 4, MAX_KIP_INPUT_LEN / 2, MAX_KIP_INPUT_LEN]
    };
    let mut times = vec![];
    let mut measured_sizes = vec![];
    let mut cpu_clock = true;
    let mut last = json!(null);
    let mut over = false;
    let mut capped = false;
    let quick = spec.tier == "quick";
    // quick tier: a measurement is given up once it is clearly (1.5x) over the bound
    let cap_s = if quick { 2.1 * WORK_BOUND_S } else { 12.0 * WORK_BOUND_S };
    for len in &sizes {
        let (text, which) = scaling_input(family, *len);
        if text.len() > MAX_KIP_INPUT_LEN {
            st.inconclusive(format!("scaling generator {family} overshot the legal length"));
            return;
        }
        let mut m = measure(&text, which, spec.stack_kib, cap_s, st);
        st.count("scaling_measurements");
        // a measurement just over the bound is repeated (machine load), the minimum counts
        let mut repeats = 0;
        while !m.capped && m.cpu_s > WORK_BOUND_S && m.cpu_s < 1.5 * WORK_BOUND_S && repeats < if quick { 1 } else { 2 } {
            let m2 = measure(&text, which, spec.stack_kib, cap_s, st);
            if m2.capped {
                break;
            }
            if m2.cpu_s < m.cpu_s {
                m = m2;
            }
            repeats += 1;
            st.count("scaling_measurements_repeated");
        }
        cpu_clock &= m.cpu_clock;
        times.push(m.cpu_s);
        measured_sizes.push(text.len());
        last = json!({"len": text.len(), "accepted": m.accepted, "cpu_s": m.cpu_s, "wall_s": m.wall_s,
                      "measurement_given_up_at_cap": m.capped});
        st.max(&format!("max_parse_ms:{family}"), (m.cpu_s * 1000.0) as u64);
        st.max(&format!("max_parse_us@{}:{family}", text.len()), (m.cpu_s * 1e6) as u64);
        // linear growth so far: only constant-factor noise separates the measurement from the
        // bound, so the bound is doubled; superlinear growth: the bound itself
        let n = times.len();
        let superlinear = n >= 2 && times[n - 2] > 1e-4 && times[n - 1] / times[n - 2] >= 3.0;
        let bound = if superlinear { WORK_BOUND_S } else { 2.0 * WORK_BOUND_S };
        if m.cpu_s > bound {
            over = true;
            capped = m.capped;
            break;
        }
        if m.capped {
            st.inconclusive(format!("scaling measurement of {family} given up below its bound"));
            return;
        }
    }
    let n = times.len();
    let ratio = if n >= 2 && times[n - 2] > 1e-4 { times[n - 1] / times[n - 2] } else { 0.0 };
    st.sample(|| json!({"kind": "scaling", "family": family, "input_bytes": measured_sizes, "seconds": times, "last_doubling_ratio": ratio, "largest_measured": last}));
    st.count("scaling_families_measured");
    if ratio > 3.0 && times[n - 1] > 0.05 {
        st.count(&format!("measured:superlinear_growth:{family}"));
    }
    st.count("oracle_bounded_work");
    if over {
        st.violation(
            format!("C15/unbounded-work/{family}"),
            json!({"family": family, "input_bytes": measured_sizes, "seconds": times, "bound_s": WORK_BOUND_S,
                   "clock": if cpu_clock { "thread cpu time" } else { "wall" }, "last_doubling_ratio": ratio, "largest_measured": last,
                   "legal_limit_bytes": MAX_KIP_INPUT_LEN, "still_running_when_given_up": capped,
                   "note": "one parse of a legal input (within the documented length and nesting limits) needs more than the absolute bound"}),
        );
    }
}

// ---------------------------------------------------------------------------------------------

fn child_case(spec: &ChildSpec, idx: u64, rng: &mut Rng, st: &mut Stats) {
    match spec.section.as_str() {
        "corpus" => corpus_case(idx, rng, st),
        "gen" => gen_case(idx, rng, st),
        "noise" => noise_case(idx, rng, st),
        "limits" => limits_case(idx, rng, st),
        "scaling" => scaling_case(spec, idx, st),
        other => st.inconclusive(format!("unknown section {other}")),
    }
}

/// Every family of the grammar that accepted inputs must reach (names from `families.rs`).
const REQUIRED_FAMILIES: &[&str] = &[
    "Archive:expect_state", "Archive:limit", "Archive:target.Handle", "Archive:target.Id", "Archive:target.Param",
    "Archive:where", "Changes:limit", "CorrectEvidence.by:target.Handle", "CorrectEvidence.by:target.Id",
    "CorrectEvidence.by:target.Param", "CorrectEvidence:expect_state", "CorrectEvidence:target.Handle",
    "CorrectEvidence:target.Id", "CorrectEvidence:target.Param", "CreateActivity:client_key",
    "CreateActivity:set_facets", "CreateActivity:set_fields", "CreateActivity:set_structural",
    "CreateAssertion:client_key", "CreateAssertion:set_facets", "CreateAssertion:set_fields",
    "CreateAssertion:set_structural", "CreateConcept:client_key", "CreateConcept:name",
    "CreateConcept:set_attributes", "CreateConcept:set_facets", "CreateConcept:set_facets.multiple",
    "CreateConcept:set_fields", "CreateConcept:set_structural", "CreateConcept:type", "CreateEvidence:client_key",
    "CreateEvidence:set_facets", "CreateEvidence:set_fields", "CreateEvidence:set_structural",
    "Describe.Access:with", "Describe.EpistemicPolicy:value", "Describe.Primer:mode",
    "Describe.SchemaEnvironment:as_of", "Describe.Snapshot:as_of", "Describe.Space:value", "Describe.Trust:value",
    "EnsureProposition:expect_version", "EnsureProposition:handle", "ExportCapsule:as_of", "ExportCapsule:options",
    "ExportCapsule:target.Handle", "ExportCapsule:target.Id", "ExportCapsule:target.Param", "History:cursor",
    "History:from_seq", "History:limit", "History:to_seq", "List:cursor", "List:limit", "List:status",
    "MergeConcept.into:target.Handle", "MergeConcept.into:target.Id", "MergeConcept.into:target.Param",
    "MergeConcept:expect_version", "MergeConcept:target.Handle", "MergeConcept:target.Id",
    "MergeConcept:target.Param", "MergeConcept:where", "Purge:limit", "Purge:reference_policy",
    "Purge:target.Handle", "Purge:target.Id", "Purge:target.Param", "Purge:where", "RetractAssertion:expect_state",
    "RetractAssertion:limit", "RetractAssertion:target.Handle", "RetractAssertion:target.Id",
    "RetractAssertion:target.Param", "RetractAssertion:where", "Search:as_of_seq", "Search:cursor", "Search:limit",
    "Search:mode", "Search:threshold", "Search:with_predicate", "Search:with_type", "SetRetention:expect_version",
    "SetRetention:limit", "SetRetention:target.Handle", "SetRetention:target.Id", "SetRetention:target.Param",
    "SetRetention:where", "Snapshot:as_of", "SupersedeAssertion.by:target.Handle", "SupersedeAssertion.by:target.Id",
    "SupersedeAssertion.by:target.Param", "SupersedeAssertion:expect_state", "SupersedeAssertion:target.Handle",
    "SupersedeAssertion:target.Id", "SupersedeAssertion:target.Param", "Tombstone:expect_state", "Tombstone:limit",
    "Tombstone:target.Handle", "Tombstone:target.Id", "Tombstone:target.Param", "Tombstone:where",
    "TransitionActivity:expect_state", "TransitionActivity:set_fields", "TransitionActivity:set_structural",
    "TransitionActivity:target.Handle", "TransitionActivity:target.Id", "TransitionActivity:target.Param",
    "Update:SetAttributes", "Update:SetFacet", "Update:SetFields", "Update:SetStructural", "Update:UnsetAttributes",
    "Update:UnsetFacet", "Update:UnsetStructural", "Update:expect_version", "Update:limit", "Update:set_structural",
    "Update:target.Handle", "Update:target.Id", "Update:target.Param", "Update:unset_structural", "Update:where",
    "UpsertConcept:expect_version", "UpsertConcept:match", "UpsertConcept:match.id", "UpsertConcept:match.key",
    "UpsertConcept:set_attributes", "UpsertConcept:set_facets", "UpsertConcept:set_fields",
    "UpsertConcept:set_structural", "UpsertConcept:unset_attributes", "UpsertConcept:unset_facets",
    "UpsertConcept:unset_structural", "Validate:options", "as_of:Seq", "as_of:Time", "as_of:Tx", "bound:Array",
    "bound:Handle", "bound:Object", "bound:Param", "bound:Value", "bound:Variable", "cmd:Kml", "cmd:Kql", "cmd:Meta",
    "edge:options", "filter:Comparison.Equal", "filter:Comparison.GreaterEqual", "filter:Comparison.GreaterThan",
    "filter:Comparison.LessEqual", "filter:Comparison.LessThan", "filter:Comparison.NotEqual",
    "filter:Function.Contains", "filter:Function.EndsWith", "filter:Function.In", "filter:Function.IsElement",
    "filter:Function.IsKind", "filter:Function.IsLiteral", "filter:Function.IsNotNull", "filter:Function.IsNull",
    "filter:Function.LiteralType", "filter:Function.Regex", "filter:Function.StartsWith", "filter:Logical.And",
    "filter:Logical.Or", "filter:Not", "find:Aggregation.Avg", "find:Aggregation.Count", "find:Aggregation.Max",
    "find:Aggregation.Min", "find:Aggregation.Sum", "find:Aggregation.distinct", "find:Variable", "hops:exact",
    "hops:open", "hops:range", "kml:Archive", "kml:CorrectEvidence", "kml:CreateActivity", "kml:CreateAssertion",
    "kml:CreateConcept", "kml:CreateEvidence", "kml:EnsureProposition", "kml:MergeConcept", "kml:Purge",
    "kml:RetractAssertion", "kml:SetRetention", "kml:SupersedeAssertion", "kml:Tombstone", "kml:TransitionActivity",
    "kml:Update", "kml:UpsertConcept", "kml:assert-desugared", "kml:explicit_transaction", "kml:multi_clause",
    "kml:single_statement", "kql:cursor", "kql:epistemic", "kql:for_time", "kql:limit", "kql:order_by",
    "kql:order_by.multiple", "lit:Array", "lit:Bool", "lit:Null", "lit:Number.float", "lit:Number.int",
    "lit:Number.negative", "lit:Object", "lit:String", "match:Array", "match:Literal", "match:Match", "match:Param",
    "match:Proposition", "match:Variable", "matcher:empty", "meta:Changes.AfterSeq", "meta:Changes.Since",
    "meta:Describe.Access", "meta:Describe.Capabilities", "meta:Describe.Capsule", "meta:Describe.Compatibility",
    "meta:Describe.EpistemicPolicy", "meta:Describe.Error", "meta:Describe.ExecutionContext", "meta:Describe.Facet",
    "meta:Describe.Package", "meta:Describe.Predicate", "meta:Describe.Primer", "meta:Describe.ProjectionCapability",
    "meta:Describe.Protocol", "meta:Describe.SchemaEnvironment", "meta:Describe.Snapshot", "meta:Describe.Space",
    "meta:Describe.StructuralField", "meta:Describe.Transaction", "meta:Describe.TransactionByIdempotencyKey",
    "meta:Describe.Trust", "meta:Describe.Type", "meta:ExportCapsule", "meta:History.Element", "meta:History.Space",
    "meta:List.EpistemicPolicies", "meta:List.Facets", "meta:List.Predicates", "meta:List.SchemaPackages",
    "meta:List.Spaces", "meta:List.StructuralFields", "meta:List.Types", "meta:Preview.ImportCapsule",
    "meta:Preview.Kml", "meta:Search.Activity", "meta:Search.Assertion", "meta:Search.Cognition",
    "meta:Search.Concept", "meta:Search.Evidence", "meta:Search.Proposition", "meta:Snapshot",
    "meta:Validate.Capsule", "meta:Validate.ImportPlan", "meta:Validate.Kml", "meta:Validate.Kql",
    "meta:Validate.SchemaPackage", "meta:Verify.Blob", "meta:Verify.Capsule", "meta:Verify.Checkpoint",
    "meta:Verify.Receipt", "meta:Verify.SchemaPackage", "mval:Array", "mval:Expr", "mval:Handle", "mval:Object",
    "mval:Param", "mval:Value", "mval:Variable", "operand:List", "operand:Literal", "operand:Negate",
    "operand:Param", "operand:Variable", "order:Asc", "order:Desc", "order:aggregation", "path:Field", "path:Key",
    "path:bare", "pred:Atom", "pred:Literal", "pred:Param", "pred:Path", "pred:Variable", "pred:alternation",
    "prop:Id", "prop:Tuple", "scalar:Literal", "scalar:Param", "symbol:Name", "symbol:Param", "term:Literal",
    "term:Match", "term:Param", "term:Proposition", "term:Variable", "uexpr:Function.Add", "uexpr:Function.Clamp",
    "uexpr:Function.Coalesce", "uexpr:Function.Mul", "uexpr:Number", "uexpr:Param", "uexpr:Variable",
    "where:Activity", "where:Assertion", "where:Belief.Id", "where:Belief.Proposition", "where:Belief.Tuple",
    "where:BeliefSlot", "where:Concept", "where:Evidence", "where:Filter", "where:Not", "where:Optional",
    "where:Proposition.novar", "where:Proposition.var", "where:Structural.novar", "where:Structural.var",
    "where:Union", "where:empty",
];

// ---------------------------------------------------------------------------------------------
// string literals: escapes and \uXXXX sequences (surrogate pairs, lone and unfinished halves)
// decoded by the shared string lexer, differentially against serde_json on the common subset
// (printable characters, the standard escapes, \u escapes). In-process: the inputs are short.

fn json_string_case(_idx: u64, rng: &mut Rng, st: &mut Stats) {
    const HEX: [&str; 22] = [
        "0041", "00e9", "0000", "0022", "005C", "20ac", "D7FF", "d800", "D83D", "DBFF", "dc00", "DE00", "dfff", "E000", "FFFF", "fffe", "D800", "DC00", "d83d", "de0a", "1F60", "abcd",
    ];
    let n = 1 + rng.usize(6);
    let mut body = String::new();
    for _ in 0..n {
        match rng.below(10) {
            0 | 1 => body.push(*rng.pick(&['a', 'Z', ' ', '7', '/', '-'])),
            2 => body.push(*rng.pick(&['\u{e9}', '\u{20ac}', '\u{1F600}', '\u{10400}'])),
            3 => body.push_str(*rng.pick(&["\\n", "\\t", "\\\"", "\\\\", "\\/", "\\b", "\\f", "\\r"])),
            4 => body.push_str(*rng.pick(&["\\x", "\\u12", "\\u", "\\uZZZZ", "\\ud83d\\u", "\\uD83D\\n"])),
            5 => {
                // a well-formed pair
                body.push_str(&format!("\\u{}\\u{}", rng.pick(&["D83D", "d800", "DBFF", "D801"]), rng.pick(&["DE0A", "dc00", "DFFF", "DC37"])));
            }
            _ => body.push_str(&format!("\\u{}", rng.pick(&HEX))),
        }
    }
    let lit = format!("\"{body}\"");
    st.eval();
    st.count("json_string_literals");
    let reference: Result<String, String> = serde_json::from_str::<String>(&lit).map_err(|e| e.to_string());
    let got = anda_kip::parse_json(&lit);
    match (&reference, &got) {
        (Ok(r), Ok(v)) => {
            st.count("json_string_both_accept");
            if v.as_str() != Some(r.as_str()) {
                st.violation("C15/string-escape/decoded-value-differs-from-json", json!({"literal": lit, "reference": r, "got": v.to_string(),
                    "reference_scalars": r.chars().map(|c| format!("U+{:04X}", c as u32)).collect::<Vec<_>>()}));
                return;
            }
            if lit.to_ascii_lowercase().contains("\\ud8") || lit.to_ascii_lowercase().contains("\\udb") {
                st.count("json_string_surrogate_pairs_decoded");
            }
        }
        (Err(_), Err(_)) => st.count("json_string_both_refuse"),
        (Err(e), Ok(v)) => {
            st.violation("C15/string-escape/ill-formed-escape-accepted", json!({"literal": lit, "json_says": e, "got": v.to_string()}));
            return;
        }
        (Ok(r), Err(e)) => {
            st.violation("C15/string-escape/well-formed-string-refused", json!({"literal": lit, "reference": r, "error": format!("{e:?}")}));
            return;
        }
    }
    // the same literal inside a command: accepted exactly when the literal is well-formed, by every
    // entry point that reaches the string lexer
    let kql = format!("FIND(?x) WHERE {{ ?x {{name: {lit}}} }}");
    let kml = format!("CREATE CONCEPT ?c {{ TYPE \"T\" NAME {lit} }}");
    let meta = format!("SEARCH CONCEPT {lit}");
    for (entry, text, ok) in [
        ("parse_kql", &kql, anda_kip::parse_kql(&kql).is_ok()),
        ("parse_kml", &kml, anda_kip::parse_kml(&kml).is_ok()),
        ("parse_kip", &kml, anda_kip::parse_kip(&kml).is_ok()),
        ("parse_kip", &kql, anda_kip::parse_kip(&kql).is_ok()),
        ("parse_meta", &meta, anda_kip::parse_meta(&meta).is_ok()),
    ] {
        st.count("json_string_in_command_checks");
        if ok != reference.is_ok() {
            // an empty NAME / search text may be refused for its own reasons: only judge non-empty strings
            if reference.as_ref().map(|r| r.is_empty()).unwrap_or(false) {
                continue;
            }
            st.violation(format!("C15/string-escape/{entry}-disagrees-with-the-literal"), json!({"command": text, "literal_is_well_formed": reference.is_ok(), "accepted": ok}));
            return;
        }
    }
}

fn main() {
    proc::child_entry(child_case);
    let mut run = Run::from_args(
        "C15",
        "exploration",
        "inputs: noise, grammar-derived sentences (one path drilled to / beyond the nesting limit), the repository's \
         corpora, token-level mutants; an accepted input is non-trivial when its tree exercises >= 12 grammar families \
         (distinct by serialized tree)",
    );
    run.assume("keyword = a bare word from the reserved list of KIPSyntax.md in keyword position; a word followed by ':' (key), or by ',' / '}' (field-name list) is a name and keeps its case; registered function names count as keywords only in call position");
    run.assume("inter-token trivia = ASCII whitespace and //-comments; a variable with its dot path / [\"key\"] steps, a :parameter, a number with its sign and a predicate with its glued hop quantifier \"p\"{m,n} are single lexical units");
    run.assume("the JSON text decoder of serde_json refuses trees nested deeper than 128 levels on its own; that refusal is counted, the value-level round trip is asserted");
    run.assume("over-limit refusal 'before parsing' is observed as: resource error from every entry point with <= 64 allocations although the input carries thousands of tokens before the offending bracket");
    run.assume(&format!("bounded work: thread CPU time of one parse of a legal input (sizes doubled up to the length limit) of each pathological family <= {WORK_BOUND_S} s when the time at least tripled over the last doubling of the input, <= {} s when growth is linear (load noise must not decide); minimum of repeated measurements when within 1.5x of the bound; the quick tier gives a measurement up at 2.1x the bound", 2.0 * WORK_BOUND_S));
    let stack_kib = run.arg_u64("stack_kib", 1024);
    run.set_extra("parser_thread_stack_kib", json!(stack_kib));
    let t = run.tier;
    let workers = run.threads;
    let wd = Duration::from_secs(t.pick(120, 900));

    // the pathological families run next to everything else (a few of them take seconds)
    let scaling = if run.wants("scaling") {
        let spec_seed = run.seed;
        let tier = run.tier.name().to_string();
        let replay = run.replay.clone();
        Some(std::thread::spawn(move || {
            let mut st = Stats::default();
            let fams: Vec<u64> = match &replay {
                Some(r) if r.get("section").and_then(|v| v.as_str()) == Some("scaling") => vec![r.get("case").and_then(|v| v.as_u64()).unwrap_or(0)],
                Some(_) => vec![],
                None => (0..SCALING.len() as u64).collect(),
            };
            let next = std::sync::atomic::AtomicUsize::new(0);
            let merged = std::sync::Mutex::new(Stats::default());
            std::thread::scope(|s| {
                for _ in 0..3 {
                    s.spawn(|| loop {
                        let i = next.fetch_add(1, std::sync::atomic::Ordering::Relaxed);
                        if i >= fams.len() {
                            break;
                        }
                        let spec = ChildSpec {
                            section: "scaling".into(),
                            from: fams[i],
                            to: fams[i] + 1,
                            seed: spec_seed,
                            tier: tier.clone(),
                            stack_kib,
                            deadline_ms: u64::MAX,
                            out: String::new(),
                            trace: None,
                        };
                        let mut local = Stats::default();
                        match proc::run_child(&spec, Duration::from_secs(300)) {
                            proc::ChildResult::Ok(s) => local = s,
                            proc::ChildResult::Signal(sig, err) => local.violation(
                                format!("C15/parser-aborted/scaling/{}", SCALING[fams[i] as usize]),
                                json!({"section": "scaling", "case": fams[i], "family": SCALING[fams[i] as usize], "signal": sig, "stderr": err}),
                            ),
                            proc::ChildResult::Timeout => {
                                local.inconclusive(format!("watchdog (300 s) fired on scaling family {}", SCALING[fams[i] as usize]))
                            }
                            proc::ChildResult::Failed(e) => local.inconclusive(format!("child failure on scaling family {}: {e}", SCALING[fams[i] as usize])),
                        }
                        proc::merge_dedup(&mut merged.lock().unwrap(), local);
                    });
                }
            });
            proc::merge_dedup(&mut st, merged.into_inner().unwrap());
            st
        }))
    } else {
        None
    };

    let w = workers.saturating_sub(2).max(2);
    let mut section_wall = BTreeMap::new();
    let mut t_prev = run.elapsed();
    let mut lap = |name: &str, run: &Run, section_wall: &mut BTreeMap<String, f64>| {
        let now = run.elapsed();
        section_wall.insert(name.to_string(), (now - t_prev).as_secs_f64());
        t_prev = now;
    };
    if run.wants("json_strings") {
        run.parallel("json_strings", t.pick(60_000, 3_000_000), 0.1, json_string_case);
        lap("json_strings", &run, &mut section_wall);
    }
    if run.wants("limits") {
        proc::run_section(&mut run, "limits", limits_cases(), 12, 0.25, w, stack_kib, wd);
        lap("limits", &run, &mut section_wall);
    }
    if run.wants("corpus") {
        let mut missing = vec![];
        let n = corpus::load(&mut missing).len() as u64;
        for m in missing {
            run.stats.inconclusive(format!("corpus source unreadable: {m}"));
        }
        proc::run_section(&mut run, "corpus", n * t.pick(2, 24), 48, 0.25, w, stack_kib, wd);
        lap("corpus", &run, &mut section_wall);
    }
    if run.wants("gen") {
        proc::run_section(&mut run, "gen", t.pick(16_000, 1_000_000), t.pick(250, 4000), 0.75, w, stack_kib, wd);
        lap("gen", &run, &mut section_wall);
    }
    if run.wants("noise") {
        proc::run_section(&mut run, "noise", t.pick(4_000, 240_000), t.pick(125, 3000), 0.9, w, stack_kib, wd);
        lap("noise", &run, &mut section_wall);
    }
    if let Some(h) = scaling {
        match h.join() {
            Ok(st) => {
                // every scaling measurement goes into the evidence as a table family -> {bytes: cpu seconds}
                // family -> [[input bytes, cpu seconds], ...] in increasing size
                let mut table: BTreeMap<String, BTreeMap<u64, f64>> = BTreeMap::new();
                for (k, v) in &st.counters {
                    if let Some(rest) = k.strip_prefix("max_parse_us@") {
                        if let Some((len, fam)) = rest.split_once(':') {
                            table.entry(fam.to_string()).or_default().insert(len.parse().unwrap_or(0), *v as f64 / 1e6);
                        }
                    }
                }
                let table: BTreeMap<String, Vec<(u64, f64)>> = table.into_iter().map(|(k, v)| (k, v.into_iter().collect())).collect();
                run.set_extra("parse_cpu_seconds_by_input_bytes", json!(table));
                let mut st = st;
                st.samples.clear();
                st.counters.retain(|k, _| !k.starts_with("max_parse_us@"));
                proc::merge_dedup(&mut run.stats, st);
            }
            Err(_) => run.stats.inconclusive("scaling thread panicked"),
        }
    }
    lap("waiting for scaling", &run, &mut section_wall);
    run.set_extra("section_wall_s", json!(section_wall));
    proc::cleanup_scratch();

    // ---- evidence floors
    let acc = run.stats.get("accepted");
    let inp = run.stats.get("inputs").max(1);
    run.set_extra("acceptance_rate", json!(acc as f64 / inp as f64));
    run.set_extra(
        "corpus_items_accepted_of_total",
        json!([run.stats.get("corpus_items_accepted"), run.stats.get("corpus_items")]),
    );
    run.floor("inputs", t.pick(60_000, 1_000_000));
    run.floor("accepted", t.pick(15_000, 200_000));
    run.floor("class:Kql", 2000);
    run.floor("class:Kml", 2000);
    run.floor("class:Meta", 2000);
    run.floor("class:rejected", 10_000);
    run.floor("json_accepted", 200);
    run.floor("corpus_items", 500);
    run.floor("corpus_items_accepted", 350);
    run.floor("oracle_determinism", 300_000);
    run.floor("json_string_surrogate_pairs_decoded", 1000);
    run.floor("json_string_both_refuse", 1000);
    run.floor("oracle_agreement", 60_000);
    run.floor("oracle_serde_roundtrip", 15_000);
    run.floor("serde_text_roundtrips", 10_000);
    run.floor("oracle_whole_input_consumed", 15_000);
    run.floor("oracle_metamorphic:case", 10_000);
    run.floor("oracle_metamorphic:trivia", 10_000);
    run.floor("oracle_metamorphic:compact", 10_000);
    run.floor("oracle_metamorphic:case+trivia", 10_000);
    run.floor("oracle_refused_over_limit", 200);
    run.floor("oracle_refusal_is_cheap", 150);
    run.floor("nesting_cases_just_over_limit", 40);
    run.floor("nesting_cases_just_below_limit", 40);
    run.floor("accepted_at_exactly_the_nesting_limit", 8);
    run.floor("length_cases_over_limit", 15);
    run.floor("length_cases_at_or_below_limit", 8);
    run.floor("generated_beyond_nesting_limit", 100);
    run.floor("generated_within_4_of_nesting_limit", 30);
    run.floor("scaling_families_measured", SCALING.len() as u64);
    run.floor("tokenizer_checked_against_generator", 10_000);
    for m in ["splice", "splice-donor", "delete", "duplicate", "truncate", "truncate-mid-token", "swap", "case-any", "trivia-anywhere", "gap-removed", "hostile-string", "bracket", "comment"] {
        run.floor(&format!("mutator:{m}"), 500);
    }
    run.floor_set("distinct_accepted_asts", t.pick(8_000, 100_000));
    if run.replay.is_none() && run.only.is_none() {
        let missing: Vec<&str> = REQUIRED_FAMILIES.iter().copied().filter(|f| run.stats.get(&format!("fam:{f}")) == 0).collect();
        if !missing.is_empty() {
            run.stats.inconclusive(format!("grammar families never reached by an accepted input: {}", missing.join(", ")));
        }
        let listed: std::collections::BTreeSet<&str> = REQUIRED_FAMILIES.iter().copied().collect();
        let unlisted: Vec<String> = run
            .stats
            .counters
            .keys()
            .filter_map(|k| k.strip_prefix("fam:"))
            .filter(|f| !listed.contains(f))
            .map(|s| s.to_string())
            .collect();
        run.set_extra("families_reached_but_not_required", json!(unlisted));
        run.set_extra("required_families", json!(REQUIRED_FAMILIES.len()));
    }
    run.finish();
}

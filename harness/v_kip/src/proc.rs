//! Child-process execution of monitor cases.
//!
//! A stack overflow (or any other abort) inside the parser kills the process and cannot be
//! caught, so the cases run in re-executed copies of the monitor binary (`--child <spec>`):
//! one worker thread with a small fixed stack runs the cases of a batch and writes its `Stats`
//! to a file. The parent merges the files. When a child dies from a signal the parent bisects
//! the batch down to one case, re-runs that case with tracing (every input is written to a file
//! before it is handed to the parser) and reports the last traced input as the violation
//! "parser aborted". Every other child failure (watchdog, bad exit code, unreadable output) makes
//! the run inconclusive.

use serde_json::{Value, json};
use std::collections::HashSet;
use std::path::PathBuf;
use std::sync::Mutex;
use std::sync::OnceLock;
use std::sync::atomic::{AtomicU64, AtomicUsize, Ordering};
use std::time::{Duration, Instant, SystemTime, UNIX_EPOCH};
use vcore::run::Violation;
use vcore::{Rng, Run, Stats};

#[derive(Clone, Debug)]
pub struct ChildSpec {
    pub section: String,
    pub from: u64,
    pub to: u64,
    pub seed: u64,
    pub tier: String,
    pub stack_kib: u64,
    /// unix ms after which no new case is started
    pub deadline_ms: u64,
    pub out: String,
    pub trace: Option<String>,
}

impl ChildSpec {
    fn to_json(&self) -> Value {
        json!({"section": self.section, "from": self.from, "to": self.to, "seed": self.seed, "tier": self.tier,
               "stack_kib": self.stack_kib, "deadline_ms": self.deadline_ms, "out": self.out, "trace": self.trace})
    }
    fn from_json(v: &Value) -> Option<ChildSpec> {
        Some(ChildSpec {
            section: v.get("section")?.as_str()?.to_string(),
            from: v.get("from")?.as_u64()?,
            to: v.get("to")?.as_u64()?,
            seed: v.get("seed")?.as_u64()?,
            tier: v.get("tier")?.as_str()?.to_string(),
            stack_kib: v.get("stack_kib")?.as_u64()?,
            deadline_ms: v.get("deadline_ms")?.as_u64()?,
            out: v.get("out")?.as_str()?.to_string(),
            trace: v.get("trace").and_then(|t| t.as_str()).map(|s| s.to_string()),
        })
    }
}

pub fn now_ms() -> u64 {
    SystemTime::now().duration_since(UNIX_EPOCH).map(|d| d.as_millis() as u64).unwrap_or(0)
}

// ------------------------------------------------------------------------------------------
// Stats <-> JSON

pub fn stats_to_json(st: &Stats) -> Value {
    let sets: serde_json::Map<String, Value> =
        st.sets.iter().map(|(k, v)| (k.clone(), json!(v.iter().copied().collect::<Vec<u64>>()))).collect();
    json!({
        "evaluations": st.evaluations,
        "distinct": st.distinct.iter().copied().collect::<Vec<u64>>(),
        "counters": st.counters,
        "sets": sets,
        "samples": st.samples,
        "violations": st.violations.iter().map(|v| json!({"signature": v.signature, "detail": v.detail})).collect::<Vec<_>>(),
        "inconclusive": st.inconclusive,
    })
}

pub fn stats_from_json(v: &Value) -> Option<Stats> {
    let mut st = Stats::default();
    st.evaluations = v.get("evaluations")?.as_u64()?;
    st.distinct = v.get("distinct")?.as_array()?.iter().filter_map(|x| x.as_u64()).collect();
    for (k, n) in v.get("counters")?.as_object()? {
        st.counters.insert(k.clone(), n.as_u64()?);
    }
    for (k, arr) in v.get("sets")?.as_object()? {
        let set: HashSet<u64> = arr.as_array()?.iter().filter_map(|x| x.as_u64()).collect();
        st.sets.insert(k.clone(), set);
    }
    st.samples = v.get("samples")?.as_array()?.clone();
    for x in v.get("violations")?.as_array()? {
        st.violations.push(Violation {
            signature: x.get("signature")?.as_str()?.to_string(),
            detail: x.get("detail").cloned().unwrap_or(Value::Null),
        });
    }
    for x in v.get("inconclusive")?.as_array()? {
        st.inconclusive.push(x.as_str()?.to_string());
    }
    Some(st)
}

/// `Stats::merge` keeps the first 20 violations whatever they are; here one witness per
/// signature is kept instead, so that a frequent violation cannot crowd out a rare one.
pub fn merge_dedup(dst: &mut Stats, mut src: Stats) {
    let incoming = std::mem::take(&mut src.violations);
    for v in incoming {
        if dst.violations.iter().any(|x| x.signature == v.signature) {
            dst.add("violations_with_a_signature_already_reported", 1);
        } else if dst.violations.len() < 200 {
            dst.violations.push(v);
        } else {
            dst.add("violations_dropped_over_cap", 1);
        }
    }
    dst.merge(src);
}

// ------------------------------------------------------------------------------------------
// child side

static TRACE: OnceLock<Option<PathBuf>> = OnceLock::new();

/// Called before every hand-over to the code under test; with tracing on, the input is on disk
/// before the call starts.
pub fn trace(stage: &str, input: &str) {
    if let Some(Some(p)) = TRACE.get() {
        let _ = std::fs::write(p, serde_json::to_string(&json!({"stage": stage, "input": input})).unwrap_or_default());
    }
}

pub fn tracing() -> bool {
    matches!(TRACE.get(), Some(Some(_)))
}

/// If the process was started as `--child <spec>`, runs the batch and exits; otherwise returns.
pub fn child_entry<F>(case: F)
where
    F: Fn(&ChildSpec, u64, &mut Rng, &mut Stats) + Send + Sync + 'static,
{
    let argv: Vec<String> = std::env::args().collect();
    let Some(pos) = argv.iter().position(|a| a == "--child") else {
        return;
    };
    let Some(spec_path) = argv.get(pos + 1) else {
        eprintln!("--child needs a spec file");
        std::process::exit(4);
    };
    let spec = std::fs::read_to_string(spec_path)
        .ok()
        .and_then(|t| serde_json::from_str::<Value>(&t).ok())
        .and_then(|v| ChildSpec::from_json(&v));
    let Some(spec) = spec else {
        eprintln!("unreadable child spec {spec_path}");
        std::process::exit(4);
    };
    let _ = TRACE.set(spec.trace.clone().map(PathBuf::from));
    vcore::run::install_panic_hook();
    let spec2 = spec.clone();
    let worker = std::thread::Builder::new()
        .name(format!("kip-{}", spec.section))
        .stack_size((spec.stack_kib as usize) << 10)
        .spawn(move || {
            let spec = spec2;
            let mut st = Stats::default();
            let seed = spec.seed ^ vcore::fnv_str(&spec.section);
            let mut ran = 0u64;
            for idx in spec.from..spec.to {
                if now_ms() > spec.deadline_ms && idx > spec.from {
                    st.add(&format!("{}_cases_skipped_for_time", spec.section), spec.to - idx);
                    break;
                }
                let mut rng = Rng::derive(seed, idx);
                let r = std::panic::catch_unwind(std::panic::AssertUnwindSafe(|| {
                    let mut local = Stats::default();
                    case(&spec, idx, &mut rng, &mut local);
                    local
                }));
                match r {
                    Ok(mut local) => {
                        for v in local.violations.iter_mut() {
                            if let Value::Object(m) = &mut v.detail {
                                m.entry("section").or_insert(json!(spec.section));
                                m.entry("case").or_insert(json!(idx));
                            }
                        }
                        merge_dedup(&mut st, local);
                    }
                    Err(p) => {
                        // guarded calls into the parser never unwind up to here, so this is harness code
                        let msg = vcore::run::panic_message(&p);
                        let loc = vcore::run::take_last_panic_location();
                        st.inconclusive(format!("harness panic in section {} case {idx} at {loc}: {msg}", spec.section));
                    }
                }
                ran += 1;
            }
            st.add(&format!("{}_cases", spec.section), ran);
            st
        });
    let st = match worker.map(|h| h.join()) {
        Ok(Ok(st)) => st,
        _ => {
            eprintln!("child worker thread failed");
            std::process::exit(3);
        }
    };
    if std::fs::write(&spec.out, serde_json::to_string(&stats_to_json(&st)).unwrap_or_default()).is_err() {
        eprintln!("cannot write {}", spec.out);
        std::process::exit(5);
    }
    std::process::exit(0);
}

// ------------------------------------------------------------------------------------------
// parent side

pub enum ChildResult {
    Ok(Stats),
    Signal(i32, String),
    Timeout,
    Failed(String),
}

static SEQ: AtomicU64 = AtomicU64::new(0);

pub fn scratch_dir() -> PathBuf {
    let d = std::env::temp_dir().join(format!("kipmon-{}", std::process::id()));
    let _ = std::fs::create_dir_all(&d);
    d
}

pub fn cleanup_scratch() {
    let _ = std::fs::remove_dir_all(scratch_dir());
}

fn tail(s: &str, n: usize) -> String {
    let chars: Vec<char> = s.chars().collect();
    chars[chars.len().saturating_sub(n)..].iter().collect()
}

pub fn run_child(spec: &ChildSpec, watchdog: Duration) -> ChildResult {
    use std::os::unix::process::ExitStatusExt;
    let dir = scratch_dir();
    let id = SEQ.fetch_add(1, Ordering::Relaxed);
    let spec_path = dir.join(format!("spec-{id}.json"));
    let err_path = dir.join(format!("err-{id}.txt"));
    let mut spec = spec.clone();
    spec.out = dir.join(format!("out-{id}.json")).display().to_string();
    if std::fs::write(&spec_path, spec.to_json().to_string()).is_err() {
        return ChildResult::Failed("cannot write child spec".into());
    }
    let Ok(exe) = std::env::current_exe() else {
        return ChildResult::Failed("current_exe unavailable".into());
    };
    let Ok(errf) = std::fs::File::create(&err_path) else {
        return ChildResult::Failed("cannot create child stderr file".into());
    };
    let child = std::process::Command::new(exe)
        .arg("--child")
        .arg(&spec_path)
        .stdin(std::process::Stdio::null())
        .stdout(std::process::Stdio::null())
        .stderr(errf)
        .spawn();
    let mut child = match child {
        Ok(c) => c,
        Err(e) => return ChildResult::Failed(format!("spawn failed: {e}")),
    };
    let t0 = Instant::now();
    let status = loop {
        match child.try_wait() {
            Ok(Some(s)) => break s,
            Ok(None) => {
                if t0.elapsed() > watchdog {
                    let _ = child.kill();
                    let _ = child.wait();
                    return ChildResult::Timeout;
                }
                std::thread::sleep(Duration::from_millis(5));
            }
            Err(e) => return ChildResult::Failed(format!("wait failed: {e}")),
        }
    };
    let stderr = std::fs::read_to_string(&err_path).unwrap_or_default();
    let _ = std::fs::remove_file(&err_path);
    let _ = std::fs::remove_file(&spec_path);
    if let Some(sig) = status.signal() {
        return ChildResult::Signal(sig, tail(&stderr, 400));
    }
    if status.code() != Some(0) {
        return ChildResult::Failed(format!("exit code {:?}: {}", status.code(), tail(&stderr, 400)));
    }
    let out = std::fs::read_to_string(&spec.out).ok().and_then(|t| serde_json::from_str::<Value>(&t).ok());
    let _ = std::fs::remove_file(&spec.out);
    match out.as_ref().and_then(stats_from_json) {
        Some(st) => ChildResult::Ok(st),
        None => ChildResult::Failed("child output unreadable".into()),
    }
}

fn signal_name(sig: i32) -> &'static str {
    match sig {
        4 => "SIGILL",
        6 => "SIGABRT",
        7 => "SIGBUS",
        8 => "SIGFPE",
        9 => "SIGKILL",
        11 => "SIGSEGV",
        _ => "signal",
    }
}

/// Narrows a batch whose child died down to one case and reports it.
fn attribute_abort(prop: &str, spec: &ChildSpec, sig: i32, stderr: &str, watchdog: Duration, st: &mut Stats) {
    let (mut from, mut to) = (spec.from, spec.to);
    let mut last_sig = sig;
    let mut last_err = stderr.to_string();
    while to - from > 1 {
        let mid = from + (to - from) / 2;
        let mut found = false;
        for (a, b) in [(from, mid), (mid, to)] {
            let mut s = spec.clone();
            s.from = a;
            s.to = b;
            s.deadline_ms = u64::MAX;
            match run_child(&s, watchdog) {
                ChildResult::Signal(sg, e) => {
                    from = a;
                    to = b;
                    last_sig = sg;
                    last_err = e;
                    found = true;
                    break;
                }
                ChildResult::Ok(_) => {}
                ChildResult::Timeout => {
                    st.inconclusive(format!("watchdog fired while bisecting an aborted batch of section {}", spec.section));
                    return;
                }
                ChildResult::Failed(e) => {
                    st.inconclusive(format!("child failure while bisecting section {}: {e}", spec.section));
                    return;
                }
            }
        }
        if !found {
            st.inconclusive(format!(
                "a child of section {} died with {} on cases {}..{} but no half reproduces it",
                spec.section,
                signal_name(sig),
                spec.from,
                spec.to
            ));
            return;
        }
    }
    // one case left: trace it
    let trace_path = scratch_dir().join(format!("trace-{}-{}.json", spec.section, from));
    let _ = std::fs::remove_file(&trace_path);
    let mut s = spec.clone();
    s.from = from;
    s.to = to;
    s.deadline_ms = u64::MAX;
    s.trace = Some(trace_path.display().to_string());
    let traced = run_child(&s, watchdog);
    let t = std::fs::read_to_string(&trace_path).ok().and_then(|t| serde_json::from_str::<Value>(&t).ok());
    let _ = std::fs::remove_file(&trace_path);
    match traced {
        ChildResult::Signal(sg, e) => {
            let stage = t.as_ref().and_then(|t| t.get("stage")).and_then(|s| s.as_str()).unwrap_or("unknown").to_string();
            let input = t.as_ref().and_then(|t| t.get("input")).and_then(|s| s.as_str()).unwrap_or("").to_string();
            let shown: String = input.chars().take(4000).collect();
            st.violation(
                format!("{prop}/parser-aborted/{stage}"),
                json!({"section": spec.section, "case": from, "signal": signal_name(sg), "stderr": e,
                       "stage": stage, "input_len": input.len(), "input_head": shown,
                       "stack_kib": spec.stack_kib,
                       "note": "the process running the parser died; the input is the last one handed to the parser"}),
            );
        }
        _ => {
            st.inconclusive(format!(
                "case {from} of section {} died with {} ({}) but survived the traced re-run",
                spec.section,
                signal_name(last_sig),
                last_err.replace('\n', " ")
            ));
        }
    }
}

/// Runs `n_cases` cases of `label` in child processes (`workers` at a time, `batch` cases each)
/// and merges their stats into the run. `frac` is the share of the remaining budget.
#[allow(clippy::too_many_arguments)]
pub fn run_section(run: &mut Run, label: &str, n_cases: u64, batch: u64, frac: f64, workers: usize, stack_kib: u64, watchdog: Duration) {
    let (from, to) = if let Some(r) = &run.replay {
        if r.get("section").and_then(|v| v.as_str()) != Some(label) {
            return;
        }
        let c = r.get("case").and_then(|v| v.as_u64()).unwrap_or(0);
        (c, c + 1)
    } else {
        (0, n_cases)
    };
    let deadline_ms = now_ms() + run.time_left().mul_f64(frac.clamp(0.01, 1.0)).as_millis() as u64;
    let mut batches = vec![];
    let mut a = from;
    while a < to {
        let b = (a + batch.max(1)).min(to);
        batches.push((a, b));
        a = b;
    }
    let next = AtomicUsize::new(0);
    let merged: Mutex<Stats> = Mutex::new(Stats::default());
    let prop = run.prop.clone();
    let base = ChildSpec {
        section: label.to_string(),
        from: 0,
        to: 0,
        seed: run.seed,
        tier: run.tier.name().to_string(),
        stack_kib,
        deadline_ms,
        out: String::new(),
        trace: None,
    };
    std::thread::scope(|scope| {
        for _ in 0..workers.max(1).min(batches.len().max(1)) {
            scope.spawn(|| {
                loop {
                    let i = next.fetch_add(1, Ordering::Relaxed);
                    if i >= batches.len() {
                        break;
                    }
                    let (a, b) = batches[i];
                    let mut local = Stats::default();
                    if now_ms() > deadline_ms && i > 0 {
                        local.add(&format!("{label}_cases_skipped_for_time"), b - a);
                    } else {
                        let mut spec = base.clone();
                        spec.from = a;
                        spec.to = b;
                        match run_child(&spec, watchdog) {
                            ChildResult::Ok(st) => local = st,
                            ChildResult::Signal(sig, err) => attribute_abort(&prop, &spec, sig, &err, watchdog, &mut local),
                            ChildResult::Timeout => local.inconclusive(format!(
                                "watchdog ({} s) fired on cases {a}..{b} of section {label}",
                                watchdog.as_secs()
                            )),
                            ChildResult::Failed(e) => {
                                local.inconclusive(format!("child infrastructure failure on cases {a}..{b} of section {label}: {e}"))
                            }
                        }
                    }
                    merge_dedup(&mut merged.lock().unwrap(), local);
                }
            });
        }
    });
    merge_dedup(&mut run.stats, merged.into_inner().unwrap());
}

/// CPU time of the calling thread (ns) from the scheduler statistics; falls back to wall time.
pub fn thread_cpu_ns() -> (u64, bool) {
    if let Ok(t) = std::fs::read_to_string("/proc/thread-self/schedstat") {
        if let Some(ns) = t.split_whitespace().next().and_then(|x| x.parse::<u64>().ok()) {
            return (ns, true);
        }
    }
    static T0: OnceLock<Instant> = OnceLock::new();
    (T0.get_or_init(Instant::now).elapsed().as_nanos() as u64, false)
}

//! C11 - Full-text index retrieves exactly the matching documents, ranked stably.
//! Monitors (DESIGN.md C11): sequential histories against a naive inverted index through every
//! public read API, flush crash prefixes (incl. failed / unknown-outcome flush + retry, legacy
//! layout), controlled 2-3 thread schedules at the `bm25.*` verif points with a per-document
//! linearizability check, hook-driven stress.

use anda_db_tfs::{
    BM25Config, BM25Error, BM25Index, BM25Metadata, BM25Params, BoxError, BucketObject,
    QueryType, TokenizerChain, collect_tokens, default_tokenizer,
};
use std::cell::RefCell;
use std::collections::{BTreeMap, BTreeSet, HashMap};
use std::sync::Arc;
use std::sync::atomic::{AtomicBool, AtomicU64, Ordering};
use std::time::Duration;
use vcore::manual::{Chooser, DfsChooser, RandChooser, drive};
use vcore::sched::{SchedEnd, TurnSched};
use vcore::{Rng, Run, Stats, Value, json};

type Idx = BM25Index<TokenizerChain>;
type Toks = BTreeMap<String, usize>;

/// Default on (`--arg strict_stale=0` turns it off): "a stale posting left by a remove with
/// non-original text becomes visible again once the id is re-inserted" is a violation.
static STRICT_STALE: AtomicBool = AtomicBool::new(true);

// ---------------------------------------------------------------------------------------------
// vocabulary, ids, tokenizer (the crate's default tokenizer, shared by index and model)

/// Words the Porter stemmer maps to themselves (same alphabet as tests/proptest_model.rs).
const WORDS: [&str; 12] = [
    "red", "blue", "fox", "dog", "sun", "moon", "rock", "wind", "salt", "gold", "iron", "wolf",
];
/// Inflected / cased forms: the model tokenizes with the same tokenizer, so stemming is shared.
const VARIANTS: [&str; 5] = ["foxes", "dogs", "rocks", "Winds", "RED"];
/// Texts whose token set is empty (tokens of byte length <= 1 are dropped by `collect_tokens`).
const EMPTY_TEXTS: [&str; 6] = ["", " ", "a", "x y", "! ?", "5 - 7"];
/// Plain `search` queries evaluated after every operation.
const TERM_QUERIES: [&str; 20] = [
    "red", "blue", "fox", "dog", "sun", "moon", "rock", "wind", "salt", "gold", "iron", "wolf",
    "foxes", "Dogs", "zebra", "a", "", "  RED ", "red blue", "wolf, zebra",
];
/// Leaves of generated boolean queries (lower case: the parser lower-cases terms).
const BOOL_WORDS: [&str; 16] = [
    "red", "blue", "fox", "dog", "sun", "moon", "rock", "wind", "salt", "gold", "iron", "wolf",
    "foxes", "dogs", "zebra", "a",
];
/// Document ids: small ones plus the CBOR width boundaries and the extremes.
const IDS: [u64; 20] = [
    0, 1, 2, 3, 4, 5, 6, 7, 8, 9, 10, 23, 24, 255, 256, 65535, 65536, 1 << 32, u64::MAX - 1,
    u64::MAX,
];
const BIG: usize = 1000;

thread_local! {
    static TOK: RefCell<Option<TokenizerChain>> = const { RefCell::new(None) };
    static TOK_CACHE: RefCell<HashMap<String, Arc<Toks>>> = RefCell::new(HashMap::new());
}

fn tokenizer() -> TokenizerChain {
    TOK.with(|t| t.borrow_mut().get_or_insert_with(default_tokenizer).clone())
}

/// Token multiset of a text, computed with the crate's own tokenizer and `collect_tokens`.
fn toks(text: &str) -> Arc<Toks> {
    if let Some(t) = TOK_CACHE.with(|c| c.borrow().get(text).cloned()) {
        return t;
    }
    let mut tk = tokenizer();
    let t: Arc<Toks> = Arc::new(collect_tokens(&mut tk, text, None).into_iter().collect());
    TOK_CACHE.with(|c| {
        let mut c = c.borrow_mut();
        if c.len() > 100_000 {
            c.clear();
        }
        c.insert(text.to_string(), t.clone());
    });
    t
}

fn pw(rng: &mut Rng, xs: &[&'static str]) -> &'static str {
    xs[rng.usize(xs.len())]
}

fn gen_text(rng: &mut Rng) -> String {
    let n = 1 + rng.usize(6);
    let mut s = String::new();
    for i in 0..n {
        if i > 0 {
            s.push_str(pw(rng, &[" ", " ", " ", ", ", "  ", " - ", ". "]));
        }
        if rng.chance(1, 7) {
            s.push_str(pw(rng, &VARIANTS));
        } else {
            // skewed: low indices are common words, high ones rare (single-owner postings)
            let i = rng.usize(WORDS.len()).min(rng.usize(WORDS.len() + 3));
            s.push_str(WORDS[i.min(WORDS.len() - 1)]);
        }
    }
    s
}

// ---------------------------------------------------------------------------------------------
// reference model: naive inverted index + the documented stale-posting bookkeeping

#[derive(Clone, Debug, PartialEq)]
struct Doc {
    text: String,
    toks: Arc<Toks>,
    len: usize,
}

#[derive(Clone, Debug, Default)]
struct Model {
    docs: BTreeMap<u64, Doc>,
    /// id -> token -> term frequencies of posting entries that a `remove` with non-original text
    /// left behind (documented: searches skip them while the id is not indexed, load prunes
    /// them for ids that are not indexed). Only used to delimit what is *not* asserted.
    stale: BTreeMap<u64, BTreeMap<String, BTreeSet<usize>>>,
    /// generator aid: the text an id had when it was removed with non-original text
    last_text: BTreeMap<u64, String>,
}

#[derive(Clone, Debug)]
enum Op {
    Insert(u64, String),
    Remove(u64, String),
    Purge(Vec<u64>),
    Compact,
    Flush { reload: bool },
}

#[derive(Debug, Clone, PartialEq)]
enum Ret {
    Ok,
    AlreadyExists,
    TokenizeFailed,
    /// id exists *and* the text has no tokens: both documented errors apply, precedence is not
    /// documented
    RejectedEither,
    Bool(bool),
    Count(usize),
    Unit,
    Err(String),
}

fn ret_agrees(got: &Ret, exp: &Ret) -> bool {
    match exp {
        Ret::RejectedEither => matches!(got, Ret::AlreadyExists | Ret::TokenizeFailed),
        _ => got == exp,
    }
}

impl Model {
    fn apply(&mut self, op: &Op, st: &mut Stats) -> Ret {
        match op {
            Op::Insert(id, text) => {
                let d = toks(text);
                if d.is_empty() {
                    st.count("op_insert_tokenize_failed");
                    return if self.docs.contains_key(id) {
                        Ret::RejectedEither
                    } else {
                        Ret::TokenizeFailed
                    };
                }
                if self.docs.contains_key(id) {
                    st.count("op_insert_already_exists");
                    return Ret::AlreadyExists;
                }
                if let Some(s) = self.stale.get_mut(id) {
                    st.count("op_reinsert_after_non_original_remove");
                    if self.last_text.get(id).map(|t| toks(t) == d).unwrap_or(false) {
                        st.count("op_reinsert_same_tokens");
                    } else {
                        st.count("op_reinsert_different_tokens");
                    }
                    // the crate sweeps what a remove with non-original text left behind for this
                    // id before it indexes the new text (`stale_ids`, documented at `remove`)
                    s.clear();
                    self.stale.remove(id);
                }
                self.last_text.remove(id);
                st.count("op_insert_ok");
                let len = d.values().sum();
                self.docs.insert(*id, Doc { text: text.clone(), toks: d, len });
                Ret::Ok
            }
            Op::Remove(id, text) => {
                let t = toks(text);
                let cur = self.docs.remove(id);
                let s = self.stale.entry(*id).or_default();
                let mut left = false;
                if let Some(doc) = &cur {
                    for (tok, f) in doc.toks.iter() {
                        if !t.contains_key(tok) {
                            s.entry(tok.clone()).or_default().insert(*f);
                            left = true;
                        }
                    }
                }
                for tok in t.keys() {
                    s.remove(tok);
                }
                let now_clean = s.is_empty();
                if now_clean {
                    self.stale.remove(id);
                    self.last_text.remove(id);
                }
                match &cur {
                    Some(doc) if left => {
                        st.count("op_remove_non_original");
                        self.last_text.insert(*id, doc.text.clone());
                    }
                    Some(_) => st.count("op_remove_original"),
                    None => st.count("op_remove_missing"),
                }
                Ret::Bool(cur.is_some())
            }
            Op::Purge(ids) => {
                let mut n = 0;
                let set: BTreeSet<u64> = ids.iter().copied().collect();
                for id in &set {
                    if self.docs.remove(id).is_some() {
                        n += 1;
                    }
                    if self.stale.remove(id).is_some() {
                        st.count("op_purge_clears_stale");
                    }
                    self.last_text.remove(id);
                }
                st.count("op_purge");
                if n > 0 {
                    st.count("op_purge_hit");
                }
                Ret::Count(n)
            }
            Op::Compact => {
                st.count("op_compact");
                Ret::Unit
            }
            Op::Flush { .. } => Ret::Unit,
        }
    }

    /// What a load of a complete snapshot of this state holds: stale entries of ids that are
    /// not indexed are pruned (documented), those of indexed ids stay.
    fn reloaded(&self) -> Model {
        let mut m = self.clone();
        m.stale.retain(|id, _| m.docs.contains_key(id));
        m.last_text.retain(|id, _| m.stale.contains_key(id));
        m
    }

    /// (must match, may match) for a plain query with tokens `q` (multiple tokens = OR).
    fn term_sets(&self, q: &Toks) -> (BTreeSet<u64>, BTreeSet<u64>) {
        let mut lo = BTreeSet::new();
        let mut hi = BTreeSet::new();
        for (id, d) in &self.docs {
            if q.keys().any(|t| d.toks.contains_key(t)) {
                lo.insert(*id);
                hi.insert(*id);
            } else if let Some(s) = self.stale.get(id)
                && q.keys().any(|t| s.contains_key(t))
            {
                hi.insert(*id);
            }
        }
        (lo, hi)
    }

    /// No indexed document carries a stale entry for any token of `q`: df and tf are exact.
    fn clean(&self, q: &Toks) -> bool {
        self.stale
            .iter()
            .all(|(id, s)| !self.docs.contains_key(id) || q.keys().all(|t| !s.contains_key(t)))
    }

    fn mean_len(&self) -> f64 {
        if self.docs.is_empty() {
            return 0.0;
        }
        self.docs.values().map(|d| d.len as f64).sum::<f64>() / self.docs.len() as f64
    }

    /// The documented Okapi BM25 (docs/anda_db_tfs.md section 2, `BM25Params` docs).
    fn scores(&self, q: &Toks, k1: f64, b: f64) -> BTreeMap<u64, f64> {
        let n = self.docs.len() as f64;
        let avgdl = self.mean_len();
        let mut out = BTreeMap::new();
        for t in q.keys() {
            let df = self.docs.values().filter(|d| d.toks.contains_key(t)).count() as f64;
            if df == 0.0 {
                continue;
            }
            let idf = (1.0 + (n - df + 0.5) / (df + 0.5)).ln();
            for (id, d) in &self.docs {
                if let Some(tf) = d.toks.get(t) {
                    let tf = *tf as f64;
                    let c = tf * (k1 + 1.0) / (tf + k1 * (1.0 - b + b * d.len as f64 / avgdl));
                    *out.entry(*id).or_insert(0.0) += idf * c;
                }
            }
        }
        out
    }

    /// Interval evaluation of a boolean query: NOT = complement within the indexed documents.
    fn eval(&self, q: &QueryType) -> (BTreeSet<u64>, BTreeSet<u64>) {
        match q {
            QueryType::Term(t) => self.term_sets(&toks(t)),
            QueryType::Or(v) => {
                let mut lo = BTreeSet::new();
                let mut hi = BTreeSet::new();
                for c in v {
                    let (l, h) = self.eval(c);
                    lo.extend(l);
                    hi.extend(h);
                }
                (lo, hi)
            }
            QueryType::And(v) => {
                let mut it = v.iter();
                let Some(first) = it.next() else {
                    return (BTreeSet::new(), BTreeSet::new());
                };
                let (mut lo, mut hi) = self.eval(first);
                for c in it {
                    let (l, h) = self.eval(c);
                    lo = lo.intersection(&l).copied().collect();
                    hi = hi.intersection(&h).copied().collect();
                }
                (lo, hi)
            }
            QueryType::Not(c) => {
                let (l, h) = self.eval(c);
                let all: BTreeSet<u64> = self.docs.keys().copied().collect();
                (all.difference(&h).copied().collect(), all.difference(&l).copied().collect())
            }
        }
    }
}

/// Documented parameter sanitising: non-finite -> defaults, k1 -> [0, MAX_K1], b -> [0, 1].
fn sanitize(p: &BM25Params) -> (f64, f64) {
    let d = BM25Params::default();
    let k1 = if p.k1.is_finite() { p.k1.clamp(0.0, BM25Params::MAX_K1) } else { d.k1 };
    let b = if p.b.is_finite() { p.b.clamp(0.0, 1.0) } else { d.b };
    (k1 as f64, b as f64)
}

fn param_list() -> Vec<(BM25Params, bool)> {
    // (params, out of the natural domain?)
    let p = |k1: f32, b: f32| BM25Params { k1, b };
    vec![
        (p(1.2, 0.75), false),
        (p(0.0, 0.75), false),
        (p(1.2, 0.0), false),
        (p(1.2, 1.0), false),
        (p(2.0, 0.5), false),
        (p(f32::NAN, 0.75), true),
        (p(1.2, f32::NAN), true),
        (p(f32::NAN, f32::NAN), true),
        (p(f32::INFINITY, 0.75), true),
        (p(1.2, f32::INFINITY), true),
        (p(f32::NEG_INFINITY, f32::NEG_INFINITY), true),
        (p(-1.0, 0.5), true),
        (p(1.2, -3.0), true),
        (p(f32::MAX, 0.75), true),
        (p(f32::MAX, f32::MAX), true),
        (p(f32::MIN, f32::MIN), true),
        (p(5000.0, 2.0), true),
        (p(f32::MIN_POSITIVE, f32::MIN_POSITIVE), false),
    ]
}

// ---------------------------------------------------------------------------------------------
// operation generator

/// `allow_grey = false`: never index a document over posting entries that a remove with
/// non-original text left behind for its id, unless the insert makes all of them current again
/// (the id's text at the time of that remove does). See `FINDING_SIG`.
fn gen_op(rng: &mut Rng, m: &Model, allow_grey: bool) -> Op {
    let op = gen_op_any(rng, m);
    if let Op::Insert(id, text) = &op
        && !allow_grey
        && !m.docs.contains_key(id)
        && let Some(s) = m.stale.get(id)
    {
        let d = toks(text);
        let covers = s.iter().all(|(t, fs)| fs.len() == 1 && d.get(t) == fs.iter().next());
        if !d.is_empty() && !covers {
            return Op::Insert(*id, m.last_text.get(id).cloned().unwrap_or_default());
        }
    }
    op
}

fn gen_op_any(rng: &mut Rng, m: &Model) -> Op {
    let live: Vec<u64> = m.docs.keys().copied().collect();
    let ghosts: Vec<u64> =
        m.stale.keys().filter(|id| !m.docs.contains_key(id)).copied().collect();
    let absent: Vec<u64> = IDS.iter().filter(|id| !m.docs.contains_key(id)).copied().collect();
    let fresh_insert = |rng: &mut Rng| {
        let id = if !absent.is_empty() && rng.chance(5, 6) { *rng.pick(&absent) } else { *rng.pick(&IDS) };
        Op::Insert(id, gen_text(rng))
    };
    match rng.weighted(&[28, 5, 4, 14, 10, 4, 10, 6, 6, 5, 5]) {
        0 => fresh_insert(rng),
        1 => {
            if live.is_empty() {
                fresh_insert(rng)
            } else {
                Op::Insert(*rng.pick(&live), gen_text(rng))
            }
        }
        2 => Op::Insert(*rng.pick(&IDS), rng.pick(&EMPTY_TEXTS).to_string()),
        3 => {
            if live.is_empty() {
                return fresh_insert(rng);
            }
            let id = *rng.pick(&live);
            let text = m.docs[&id].text.clone();
            // the same tokens in another surface form are as good as the original text
            Op::Remove(id, if rng.chance(1, 5) { text.to_uppercase() } else { text })
        }
        4 => {
            if live.is_empty() {
                return fresh_insert(rng);
            }
            let id = *rng.pick(&live);
            let orig = &m.docs[&id].text;
            let words: Vec<&str> = orig.split_whitespace().collect();
            let text = match rng.below(8) {
                0 => String::new(),
                1 => "zebra".to_string(),
                2 => words.first().copied().unwrap_or("").to_string(),
                // partly matching texts with exactly as many words as the original: one word
                // swapped for another, or the first word repeated (seeded change C11-7 judged
                // "the text covered the whole document" by counting the caller's tokens)
                3 | 4 if words.len() >= 2 => {
                    let mut w: Vec<String> = words.iter().map(|x| x.to_string()).collect();
                    let i = rng.usize(w.len());
                    w[i] = pw(rng, &WORDS).to_string();
                    w.join(" ")
                }
                5 if words.len() >= 2 => vec![words[0]; words.len()].join(" "),
                _ => gen_text(rng),
            };
            Op::Remove(id, text)
        }
        5 => {
            // not indexed: a ghost (cleans stale entries, returns false) or a plain miss
            if !ghosts.is_empty() && rng.chance(2, 3) {
                let id = *rng.pick(&ghosts);
                let text = if rng.bool() {
                    m.last_text.get(&id).cloned().unwrap_or_default()
                } else {
                    gen_text(rng)
                };
                Op::Remove(id, text)
            } else if !absent.is_empty() {
                Op::Remove(*rng.pick(&absent), gen_text(rng))
            } else {
                fresh_insert(rng)
            }
        }
        6 => {
            if ghosts.is_empty() {
                return fresh_insert(rng);
            }
            let id = *rng.pick(&ghosts);
            let text = match (rng.chance(3, 5), m.last_text.get(&id)) {
                (true, Some(t)) => t.clone(),
                _ => gen_text(rng),
            };
            Op::Insert(id, text)
        }
        7 => {
            let n = 1 + rng.usize(3);
            let ids = (0..n)
                .map(|_| {
                    if !live.is_empty() && rng.chance(2, 3) {
                        *rng.pick(&live)
                    } else if !ghosts.is_empty() && rng.bool() {
                        *rng.pick(&ghosts)
                    } else {
                        *rng.pick(&IDS)
                    }
                })
                .collect();
            Op::Purge(ids)
        }
        8 => Op::Compact,
        9 => Op::Flush { reload: false },
        _ => Op::Flush { reload: true },
    }
}

fn index_apply(idx: &Idx, op: &Op, now: u64) -> Ret {
    match op {
        Op::Insert(id, text) => match idx.insert(*id, text, now) {
            Ok(()) => Ret::Ok,
            Err(BM25Error::AlreadyExists { .. }) => Ret::AlreadyExists,
            Err(BM25Error::TokenizeFailed { .. }) => Ret::TokenizeFailed,
            Err(e) => Ret::Err(format!("{e:?}")),
        },
        Op::Remove(id, text) => Ret::Bool(idx.remove(*id, text, now)),
        Op::Purge(ids) => {
            let set: BTreeSet<u64> = ids.iter().copied().collect();
            Ret::Count(idx.purge_ids(&set, now))
        }
        Op::Compact => {
            idx.compact_buckets();
            Ret::Unit
        }
        Op::Flush { .. } => Ret::Unit,
    }
}

fn new_index(overload: usize, params: &BM25Params) -> Idx {
    BM25Index::new(
        "c11".to_string(),
        tokenizer(),
        Some(BM25Config { bm25: params.clone(), bucket_overload_size: overload }),
    )
}

// ---------------------------------------------------------------------------------------------
// boolean query trees: generated as ASTs, rendered in the documented grammar

fn term(w: &str) -> Box<QueryType> {
    Box::new(QueryType::Term(w.to_string()))
}

fn gen_query(rng: &mut Rng, depth: usize) -> QueryType {
    if depth == 0 || rng.chance(1, 3) {
        if rng.chance(1, 6) {
            // whitespace-separated words at the term level: implicit OR
            QueryType::Or(vec![term(pw(rng, &BOOL_WORDS)), term(pw(rng, &BOOL_WORDS))])
        } else {
            QueryType::Term(pw(rng, &BOOL_WORDS).to_string())
        }
    } else {
        match rng.below(3) {
            0 => QueryType::And(
                (0..2 + rng.usize(2)).map(|_| Box::new(gen_query(rng, depth - 1))).collect(),
            ),
            1 => QueryType::Or(
                (0..2 + rng.usize(2)).map(|_| Box::new(gen_query(rng, depth - 1))).collect(),
            ),
            _ => QueryType::Not(Box::new(gen_query(rng, depth - 1))),
        }
    }
}

fn all_terms(v: &[Box<QueryType>]) -> bool {
    v.iter().all(|c| matches!(c.as_ref(), QueryType::Term(_)))
}

/// `implicit`: render an OR of plain words as "w1 w2" (the grammar's term-level default).
fn render(q: &QueryType, implicit: bool) -> String {
    fn atom(c: &QueryType, under_not: bool, implicit: bool) -> String {
        match c {
            QueryType::Term(w) => w.clone(),
            QueryType::Not(_) if !under_not => render(c, implicit),
            QueryType::Or(v) if implicit && all_terms(v) && v.len() > 1 => render(c, implicit),
            _ => format!("({})", render(c, implicit)),
        }
    }
    match q {
        QueryType::Term(w) => w.clone(),
        QueryType::Or(v) if implicit && all_terms(v) && v.len() > 1 => {
            v.iter().map(|c| render(c, implicit)).collect::<Vec<_>>().join(" ")
        }
        QueryType::Or(v) => {
            v.iter().map(|c| atom(c, false, implicit)).collect::<Vec<_>>().join(" OR ")
        }
        QueryType::And(v) => {
            v.iter().map(|c| atom(c, false, implicit)).collect::<Vec<_>>().join(" AND ")
        }
        QueryType::Not(c) => format!("NOT {}", atom(c, true, implicit)),
    }
}

fn shape(q: &QueryType) -> String {
    match q {
        QueryType::Term(_) => "T".into(),
        QueryType::And(v) => format!("A({})", v.iter().map(|q| shape(q)).collect::<Vec<_>>().join("")),
        QueryType::Or(v) => format!("O({})", v.iter().map(|q| shape(q)).collect::<Vec<_>>().join("")),
        QueryType::Not(q) => format!("N{}", shape(q)),
    }
}

fn has_double_negation(q: &QueryType) -> bool {
    match q {
        QueryType::Term(_) => false,
        QueryType::Not(c) => matches!(c.as_ref(), QueryType::Not(_)) || has_double_negation(c),
        QueryType::And(v) | QueryType::Or(v) => v.iter().any(|c| has_double_negation(c)),
    }
}

fn has_all_not_conjunction(q: &QueryType) -> bool {
    match q {
        QueryType::Term(_) => false,
        QueryType::Not(c) => has_all_not_conjunction(c),
        QueryType::And(v) => {
            (v.len() > 1 && v.iter().all(|c| matches!(c.as_ref(), QueryType::Not(_))))
                || v.iter().any(|c| has_all_not_conjunction(c))
        }
        QueryType::Or(v) => v.iter().any(|c| has_all_not_conjunction(c)),
    }
}

/// Shapes the property names explicitly; cycled through so that every run sees all of them.
fn fixed_query(i: u64, rng: &mut Rng) -> QueryType {
    let mut w = || term(pw(rng, &BOOL_WORDS[..12]));
    let not = |q: Box<QueryType>| Box::new(QueryType::Not(q));
    match i % 8 {
        0 => QueryType::And(vec![not(w()), not(w())]),
        1 => QueryType::And(vec![not(w()), not(w()), not(w())]),
        2 => QueryType::Not(not(w())),
        3 => QueryType::And(vec![w(), not(not(w()))]),
        4 => QueryType::Not(w()),
        5 => QueryType::And(vec![not(w()), w()]),
        6 => QueryType::Or(vec![w(), not(w())]),
        _ => QueryType::And(vec![w(), not(Box::new(QueryType::Or(vec![w(), not(w())])))]),
    }
}

// ---------------------------------------------------------------------------------------------
// audit: every public read API against the model

struct Au<'a> {
    what: &'a str,
    ctx: &'a dyn Fn() -> Value,
}

impl Au<'_> {
    fn fail(&self, st: &mut Stats, sig: &str, d: Value) {
        st.violation(
            format!("C11/{}/{}", self.what, sig),
            json!({"what": d, "context": (self.ctx)()}),
        );
    }
}

fn show(v: &[(u64, f32)]) -> Vec<String> {
    v.iter().map(|(id, s)| format!("{id}:{s}")).collect()
}

fn bits(v: &[(u64, f32)]) -> Vec<(u64, u32)> {
    v.iter().map(|(id, s)| (*id, s.to_bits())).collect()
}

/// finite, non-negative, non-increasing, ties by ascending id, no id twice
fn check_ranked(v: &[(u64, f32)], nonneg: bool) -> Result<(), String> {
    let mut seen = BTreeSet::new();
    for (i, (id, s)) in v.iter().enumerate() {
        if !s.is_finite() {
            return Err(format!("score of document {id} is {s}"));
        }
        if nonneg && *s < 0.0 {
            return Err(format!("score of document {id} is negative: {s}"));
        }
        if !seen.insert(*id) {
            return Err(format!("document {id} returned twice"));
        }
        if i > 0 {
            let (pid, ps) = v[i - 1];
            if !(ps > *s || (ps == *s && pid < *id)) {
                return Err(format!(
                    "order broken at position {i}: ({pid}, {ps}) before ({id}, {s})"
                ));
            }
        }
    }
    Ok(())
}

/// Accounts for (and in strict mode reports) results inside the stale-entry grey zone.
fn grey(st: &mut Stats, au: &Au, query: &str, got: &BTreeSet<u64>, lo: &BTreeSet<u64>) {
    st.count("grey_queries_touching_stale_entries_of_indexed_docs");
    let extra: Vec<u64> = got.difference(lo).copied().collect();
    if !extra.is_empty() {
        st.add("grey_hits_via_stale_entry_after_reinsert", extra.len() as u64);
        if STRICT_STALE.load(Ordering::Relaxed) {
            st.violation(
                "C11/candidate/stale_token_resurrected_by_reinsert",
                json!({"query": query, "documents_without_the_token": extra,
                       "context": (au.ctx)()}),
            );
        }
    }
}

#[allow(clippy::too_many_arguments)]
fn check_term_query(
    idx: &Idx,
    m: &Model,
    q: &str,
    params: Option<&BM25Params>,
    cfgp: &BM25Params,
    deep: bool,
    rng: &mut Rng,
    st: &mut Stats,
    au: &Au,
) -> Option<BTreeSet<u64>> {
    let qt = toks(q);
    let p = || params.cloned();
    let full = idx.search(q, BIG, p());
    st.count("oracle_term_query");
    let detail = |x: Value| json!({"query": q, "params": params.map(|p| format!("{p:?}")), "got": show(&full), "problem": x});
    if let Err(e) = check_ranked(&full, true) {
        au.fail(st, "term_ranking", detail(json!(e)));
        return None;
    }
    let got: BTreeSet<u64> = full.iter().map(|(id, _)| *id).collect();
    let (lo, hi) = m.term_sets(&qt);
    if !(lo.is_subset(&got) && got.is_subset(&hi)) {
        au.fail(st, "term_set", detail(json!({"must": lo, "may": hi})));
        return None;
    }
    if lo != hi {
        grey(st, au, q, &got, &lo);
    }
    if m.clean(&qt) {
        let (k1, b) = sanitize(params.unwrap_or(cfgp));
        let exp = m.scores(&qt, k1, b);
        st.count("oracle_score_formula");
        for (id, s) in &full {
            let e = exp.get(id).copied().unwrap_or(f64::NAN);
            let s = *s as f64;
            if !((s - e).abs() <= 1e-4 * e.abs().max(s.abs()) + 1e-6) {
                au.fail(st, "term_score", detail(json!({"document": id, "expected_score": e,
                    "k1": k1, "b": b})));
                return None;
            }
        }
    }
    if !idx.search(q, 0, p()).is_empty() {
        au.fail(st, "top_k_zero", detail(json!("top_k = 0 returned documents")));
        return None;
    }
    // two tokens sum commutatively; with three or more the crate adds in hash-map order, so
    // the last bit of a score (and with it a near-tie) is not pinned
    let strict = qt.len() <= 2;
    let ks: Vec<usize> = if deep {
        (1..=full.len() + 1).collect()
    } else {
        vec![1, full.len().max(1), full.len() + 1, 1 + rng.usize(full.len() + 1)]
    };
    for k in ks {
        let top = idx.search(q, k, p());
        st.count("oracle_prefix_law");
        let exp = &full[..k.min(full.len())];
        let ok = if strict {
            bits(&top) == bits(exp)
        } else {
            top.len() == exp.len()
                && check_ranked(&top, true).is_ok()
                && top.iter().all(|(id, _)| got.contains(id))
        };
        if !ok {
            au.fail(st, "term_prefix_law", detail(json!({"k": k, "top_k": show(&top)})));
            return None;
        }
    }
    let again = idx.search(q, BIG, p());
    st.count("oracle_repeat");
    let same = if strict {
        bits(&again) == bits(&full)
    } else {
        again.iter().map(|(id, _)| *id).collect::<BTreeSet<_>>() == got
    };
    if !same {
        au.fail(st, "term_repeat", detail(json!({"second": show(&again)})));
        return None;
    }
    Some(got)
}

fn check_bool_query(
    idx: &Idx,
    m: &Model,
    q: &QueryType,
    params: Option<&BM25Params>,
    rng: &mut Rng,
    st: &mut Stats,
    au: &Au,
) -> Option<BTreeSet<u64>> {
    let text = render(q, rng.bool());
    let p = || params.cloned();
    st.count("oracle_bool_query");
    st.set("bool_query_shapes", vcore::fnv_str(&shape(q)));
    if has_double_negation(q) {
        st.count("bool_double_negation");
    }
    if has_all_not_conjunction(q) {
        st.count("bool_all_not_conjunction");
    }
    if matches!(q, QueryType::Not(_)) {
        st.count("bool_top_level_not");
    }
    match QueryType::try_parse(&text) {
        Ok(parsed) if &parsed == q => {}
        other => {
            au.fail(st, "bool_parse_structure", json!({"text": text,
                "intended": format!("{q:?}"), "parsed": format!("{other:?}")}));
            return None;
        }
    }
    let full = match idx.try_search_advanced(&text, BIG, p()) {
        Ok(v) => v,
        Err(e) => {
            au.fail(st, "bool_error", json!({"query": text, "error": format!("{e:?}")}));
            return None;
        }
    };
    let detail = |x: Value| json!({"query": text, "params": params.map(|p| format!("{p:?}")), "got": show(&full), "problem": x});
    if let Err(e) = check_ranked(&full, true) {
        au.fail(st, "bool_ranking", detail(json!(e)));
        return None;
    }
    let got: BTreeSet<u64> = full.iter().map(|(id, _)| *id).collect();
    let (lo, hi) = m.eval(q);
    if !(lo.is_subset(&got) && got.is_subset(&hi)) {
        au.fail(st, "bool_set", detail(json!({"must": lo, "may": hi})));
        return None;
    }
    if lo != hi {
        grey(st, au, &text, &got, &lo);
    }
    for k in [1, 1 + rng.usize(full.len() + 1), full.len() + 1] {
        let top = match idx.try_search_advanced(&text, k, p()) {
            Ok(v) => v,
            Err(e) => {
                au.fail(st, "bool_error", json!({"query": text, "error": format!("{e:?}")}));
                return None;
            }
        };
        st.count("oracle_prefix_law");
        if bits(&top) != bits(&full[..k.min(full.len())]) {
            au.fail(st, "bool_prefix_law", detail(json!({"k": k, "top_k": show(&top)})));
            return None;
        }
    }
    let again = idx.search_advanced(&text, BIG, p());
    st.count("oracle_repeat");
    if bits(&again) != bits(&full) {
        au.fail(st, "bool_repeat", detail(json!({"second": show(&again)})));
        return None;
    }
    Some(got)
}

#[derive(Clone, Copy, PartialEq)]
enum Depth {
    /// counters, invariants, every vocabulary term, a few boolean queries
    Light,
    /// + random queries, every k, parameter sweep
    Full,
}

#[allow(clippy::too_many_arguments)]
fn audit(
    idx: &Idx,
    m: &Model,
    cfgp: &BM25Params,
    depth: Depth,
    step: u64,
    rng: &mut Rng,
    st: &mut Stats,
    au: &Au,
) -> bool {
    // counters
    st.count("oracle_counters");
    if idx.len() != m.docs.len() || idx.is_empty() != m.docs.is_empty() {
        au.fail(st, "len", json!({"len": idx.len(), "model": m.docs.len()}));
        return false;
    }
    for id in IDS.iter().chain(m.docs.keys()) {
        let got = idx.get_doc_tokens(*id);
        let exp = m.docs.get(id).map(|d| d.len);
        if got != exp {
            au.fail(st, "doc_tokens", json!({"id": id, "got": got, "model": exp}));
            return false;
        }
    }
    let stats = idx.stats();
    let mean = m.mean_len();
    if stats.num_elements != m.docs.len() as u64
        || (!m.docs.is_empty() && (stats.avg_doc_tokens as f64 - mean).abs() > 1e-4 * mean)
    {
        au.fail(st, "stats", json!({"num_elements": stats.num_elements,
            "avg_doc_tokens": stats.avg_doc_tokens, "model_docs": m.docs.len(), "model_mean": mean}));
        return false;
    }
    if let Err(e) = idx.verif_check_invariants() {
        au.fail(st, "invariant", json!(e));
        return false;
    }
    // term queries
    let deep_word = rng.usize(TERM_QUERIES.len());
    for (i, q) in TERM_QUERIES.iter().enumerate() {
        let deep = depth == Depth::Full && (i == deep_word || i == (deep_word + 7) % TERM_QUERIES.len());
        if check_term_query(idx, m, q, None, cfgp, deep, rng, st, au).is_none() {
            return false;
        }
    }
    if depth == Depth::Full {
        for n in [2usize, 2, 3, 4] {
            let q = (0..n).map(|_| *rng.pick(&BOOL_WORDS)).collect::<Vec<_>>().join(" ");
            if check_term_query(idx, m, &q, None, cfgp, false, rng, st, au).is_none() {
                return false;
            }
        }
    }
    // boolean queries
    let n_bool = if depth == Depth::Full { 5 } else { 2 };
    for i in 0..n_bool {
        let q = if i == 0 { fixed_query(step, rng) } else { gen_query(rng, 3) };
        if check_bool_query(idx, m, &q, None, rng, st, au).is_none() {
            return false;
        }
    }
    // parameter sweep: scores stay finite, the set does not depend on the parameters
    if depth == Depth::Full && step % 3 == 0 {
        let w1 = *rng.pick(&BOOL_WORDS[..12]);
        let w2 = format!("{} {}", pw(rng, &BOOL_WORDS[..12]), pw(rng, &BOOL_WORDS));
        let bq = gen_query(rng, 2);
        let base1 = idx.search(w1, BIG, None).iter().map(|(id, _)| *id).collect::<BTreeSet<_>>();
        let base2 = idx.search(&w2, BIG, None).iter().map(|(id, _)| *id).collect::<BTreeSet<_>>();
        let base3 = idx
            .search_advanced(&render(&bq, false), BIG, None)
            .iter()
            .map(|(id, _)| *id)
            .collect::<BTreeSet<_>>();
        for (p, odd) in param_list() {
            st.count("oracle_params");
            if odd {
                st.count("oracle_params_out_of_domain");
            }
            let r1 = check_term_query(idx, m, w1, Some(&p), cfgp, false, rng, st, au);
            let r2 = check_term_query(idx, m, &w2, Some(&p), cfgp, false, rng, st, au);
            let r3 = check_bool_query(idx, m, &bq, Some(&p), rng, st, au);
            let (Some(r1), Some(r2), Some(r3)) = (r1, r2, r3) else {
                return false;
            };
            if r1 != base1 || r2 != base2 || r3 != base3 {
                au.fail(st, "params_change_result_set", json!({"params": format!("{p:?}"),
                    "queries": [w1, w2.as_str(), render(&bq, false).as_str()]}));
                return false;
            }
        }
    }
    true
}

// ---------------------------------------------------------------------------------------------
// persistence through the callback API, with a recorded write sequence

#[derive(Clone, Debug)]
enum Write {
    Bucket(BucketObject, Vec<u8>),
    Meta(Vec<u8>),
    Delete(BucketObject),
}

#[derive(Clone, Default)]
struct Disk {
    objects: HashMap<(u32, u64), Vec<u8>>,
    meta: Option<Vec<u8>>,
}

impl Disk {
    fn apply(&mut self, w: &Write) {
        match w {
            Write::Bucket(o, d) => {
                self.objects.insert((o.bucket_id, o.generation), d.clone());
            }
            Write::Meta(d) => self.meta = Some(d.clone()),
            Write::Delete(o) => {
                self.objects.remove(&(o.bucket_id, o.generation));
            }
        }
    }
}

/// Injected write fault. `land`: the write reaches the store and the error is returned anyway
/// (unknown-outcome fault: what a cancelled or timed-out write looks like to the index).
#[derive(Clone, Copy, Debug, PartialEq)]
enum Fault {
    None,
    Meta { land: bool },
    Bucket { at: usize, land: bool },
}

struct Flushed {
    result: Result<bool, String>,
    /// the writes that landed, in order (+ the obsolete deletions after a successful flush)
    writes: Vec<Write>,
    fired: bool,
}

fn flush_recorded(idx: &Idx, now: u64, fault: Fault) -> Flushed {
    let log = RefCell::new(Vec::<Write>::new());
    let n = std::cell::Cell::new(0usize);
    let fired = std::cell::Cell::new(false);
    let r = drive(idx.flush_with(
        now,
        |data: Vec<u8>| {
            let (failed, land) = match fault {
                Fault::Meta { land } => (true, land),
                _ => (false, true),
            };
            if failed {
                fired.set(true);
            }
            if land {
                log.borrow_mut().push(Write::Meta(data));
            }
            async move {
                if failed {
                    Err::<(), BoxError>("injected metadata write failure".into())
                } else {
                    Ok(())
                }
            }
        },
        |obj: BucketObject, data: Vec<u8>| {
            let i = n.get();
            n.set(i + 1);
            let (failed, land) = match fault {
                Fault::Bucket { at, land } if at == i => (true, land),
                _ => (false, true),
            };
            if failed {
                fired.set(true);
            }
            if land {
                log.borrow_mut().push(Write::Bucket(obj, data));
            }
            async move {
                if failed {
                    Err::<(), BoxError>("injected bucket write failure".into())
                } else {
                    Ok(())
                }
            }
        },
    ));
    let mut writes = log.into_inner();
    match r {
        Ok(out) => {
            // the documented caller duty: delete the replaced objects best-effort
            for o in &out.obsolete {
                writes.push(Write::Delete(*o));
            }
            Flushed { result: Ok(out.saved), writes, fired: fired.get() }
        }
        Err(e) => Flushed { result: Err(format!("{e:?}")), writes, fired: fired.get() },
    }
}

fn load(disk: &Disk) -> Result<Option<Idx>, String> {
    let Some(meta) = &disk.meta else {
        return Ok(None);
    };
    let r = drive(BM25Index::load_all(tokenizer(), &meta[..], async |o: BucketObject| {
        Ok(disk.objects.get(&(o.bucket_id, o.generation)).cloned())
    }));
    r.map(Some).map_err(|e| format!("{e:?}"))
}

fn describe_write(w: &Write) -> String {
    match w {
        Write::Bucket(o, d) => format!("bucket {}@{} ({}B)", o.bucket_id, o.generation, d.len()),
        Write::Meta(d) => format!("metadata ({}B)", d.len()),
        Write::Delete(o) => format!("delete {}@{}", o.bucket_id, o.generation),
    }
}

/// Loads `disk` and runs the light audit against `expect` (already in its `reloaded()` form).
fn check_loaded(
    disk: &Disk,
    expect: &Model,
    cfgp: &BM25Params,
    what: &str,
    rng: &mut Rng,
    st: &mut Stats,
    ctx: &dyn Fn() -> Value,
) -> Option<Idx> {
    let au = Au { what, ctx };
    match load(disk) {
        Ok(None) => {
            if !expect.docs.is_empty() {
                au.fail(st, "no_metadata", json!({"expected_docs": expect.docs.len()}));
            }
            None
        }
        Err(e) => {
            au.fail(st, "load_error", json!(e));
            None
        }
        Ok(Some(idx)) => {
            st.count("oracle_loaded_state");
            if audit(&idx, expect, cfgp, Depth::Light, rng.below(8), rng, st, &au) {
                Some(idx)
            } else {
                None
            }
        }
    }
}

#[derive(serde::Serialize, serde::Deserialize)]
struct MetaDoc {
    metadata: BM25Metadata,
}

#[derive(serde::Deserialize)]
struct BucketDoc {
    #[serde(rename = "p")]
    postings: HashMap<String, (u32, Vec<(u64, usize)>)>,
}

/// Documented layout rule ("each token is assigned to exactly one bucket, a self-contained
/// blob"), checked on what a *completed* flush left behind: every object the committed manifest
/// references exists, and no token is stored in two of them. (A second copy is invisible to a
/// load as long as the loader's later-bucket-wins rule happens to pick the right one, which is
/// why this is looked at directly.)
fn durable_layout(disk: &Disk) -> Result<(), String> {
    let Some(meta) = &disk.meta else {
        return Ok(());
    };
    let doc: MetaDoc = cbor2::from_reader(&meta[..]).map_err(|e| format!("metadata: {e:?}"))?;
    let mut owner: HashMap<String, u32> = HashMap::new();
    for (id, generation) in &doc.metadata.buckets {
        let Some(data) = disk.objects.get(&(*id, *generation)) else {
            return Err(format!("manifest references missing object {id}@{generation}"));
        };
        let b: BucketDoc = cbor2::from_reader(&data[..]).map_err(|e| format!("bucket {id}@{generation}: {e:?}"))?;
        for token in b.postings.keys() {
            if let Some(prev) = owner.insert(token.clone(), *id) {
                return Err(format!("token {token:?} is stored in bucket {prev} and in bucket {id}"));
            }
        }
    }
    Ok(())
}

/// Converts a manifest layout into the pre-manifest one (generation 0 objects, empty manifest).
fn to_legacy(disk: &Disk) -> Option<Disk> {
    let meta = disk.meta.as_ref()?;
    let mut doc: MetaDoc = cbor2::from_reader(&meta[..]).ok()?;
    if doc.metadata.buckets.is_empty() {
        return None;
    }
    let mut out = Disk::default();
    for (id, generation) in &doc.metadata.buckets {
        let data = disk.objects.get(&(*id, *generation))?;
        out.objects.insert((*id, 0), data.clone());
    }
    doc.metadata.buckets.clear();
    let mut buf = vec![];
    cbor2::to_writer(&doc, &mut buf).ok()?;
    out.meta = Some(buf);
    Some(out)
}

// ---------------------------------------------------------------------------------------------
// monitor 1+2: sequential histories with model comparison and flush crash prefixes

/// Returns whether the history ever indexed a document over stale posting entries of its id.
fn seq_case(
    case: u64,
    rng: &mut Rng,
    st: &mut Stats,
    n_ops: usize,
    allow_grey: bool,
    script: Option<(usize, Vec<Op>)>,
) -> bool {
    let mut overload = *rng.pick(&[40usize, 48, 64, 64, 100, 256, 512 * 1024]);
    let mut tainted = false;
    let n_ops = script.as_ref().map(|(_, s)| s.len()).unwrap_or(n_ops);
    if let Some((o, _)) = &script {
        overload = *o;
    }
    let cfgp = match rng.below(10) {
        0 => BM25Params { k1: 0.0, b: 0.0 },
        1 => BM25Params { k1: 2.0, b: 1.0 },
        2 => BM25Params { k1: f32::NAN, b: f32::INFINITY },
        3 => BM25Params { k1: f32::MAX, b: -1.0 },
        _ => BM25Params::default(),
    };
    let legacy_start = script.is_none() && rng.chance(1, 6);
    let mut idx = new_index(overload, &cfgp);
    let mut model = Model::default();
    let mut disk = Disk::default();
    let mut committed = Model::default(); // what a load of the last committed snapshot holds
    let mut history: Vec<String> = vec![];
    let mut now = 1_000u64;
    let mut kinds = std::collections::HashSet::new();
    let mut n_flush = 0;

    for step in 0..n_ops {
        let op = if let Some((_, s)) = &script {
            s[step].clone()
        } else if legacy_start && step == 8 {
            Op::Flush { reload: true }
        } else {
            gen_op(rng, &model, allow_grey)
        };
        now += 1;
        history.push(format!("{op:?}"));
        let ctx_hist = history.clone();
        let cfg_s = format!("{cfgp:?}");
        let ctx = move || {
            json!({"bucket_overload_size": overload, "config_params": cfg_s, "case": case,
                   "history": ctx_hist})
        };
        kinds.insert(std::mem::discriminant(&op));
        match &op {
            Op::Flush { reload } => {
                n_flush += 1;
                st.count(if *reload { "op_flush_reload" } else { "op_flush_keep_instance" });
                // (a) optionally a failed flush first; the retry below must commit everything
                if rng.chance(1, 3) {
                    let land = rng.chance(1, 3);
                    let fault = if rng.bool() {
                        Fault::Meta { land }
                    } else {
                        Fault::Bucket { at: rng.usize(4), land }
                    };
                    let f = flush_recorded(&idx, now, fault);
                    for w in &f.writes {
                        disk.apply(w); // objects of a failed generation stay behind as garbage
                    }
                    let meta_landed = f.writes.iter().any(|w| matches!(w, Write::Meta(_)));
                    if f.fired {
                        st.count("flush_failed_injected");
                        st.count(match fault {
                            Fault::Meta { land: false } => "flush_failed_at_metadata",
                            Fault::Meta { land: true } => "flush_unknown_outcome_at_metadata",
                            Fault::Bucket { land: false, .. } => "flush_failed_at_bucket",
                            _ => "flush_unknown_outcome_at_bucket",
                        });
                        if f.result.is_ok() {
                            st.violation("C11/seq/flush_error_swallowed",
                                json!({"fault": format!("{fault:?}"), "context": ctx()}));
                        }
                    }
                    if meta_landed {
                        committed = model.reloaded();
                    }
                    // what is on disk is the previous commit (or this one if its metadata landed)
                    check_loaded(&disk, &committed, &cfgp, "after_failed_flush", rng, st, &|| {
                        let mut c = ctx();
                        c["fault"] = json!(format!("{fault:?}"));
                        c
                    });
                    now += 1;
                }
                // (b) the real flush, recorded; every prefix of its write sequence is a crash state
                let before = disk.clone();
                let f = flush_recorded(&idx, now, Fault::None);
                if let Err(e) = &f.result {
                    st.violation("C11/seq/flush_failed", json!({"error": e, "context": ctx()}));
                    return tainted;
                }
                let writes = f.writes;
                let after = model.reloaded();
                let commit_pos = writes.iter().position(|w| matches!(w, Write::Meta(_)));
                if f.result == Ok(true) && commit_pos.is_none() {
                    st.violation("C11/seq/flush_saved_without_commit", json!({"context": ctx()}));
                }
                for j in 0..=writes.len() {
                    let mut d = before.clone();
                    for w in &writes[..j] {
                        d.apply(w);
                    }
                    let expect = match commit_pos {
                        Some(c) if j > c => &after,
                        _ => &committed,
                    };
                    st.count("flush_crash_prefixes");
                    st.count(match commit_pos {
                        Some(c) if j > c => "crash_prefix_after_commit",
                        _ => "crash_prefix_before_commit",
                    });
                    let wr = &writes;
                    let pctx = || {
                        let mut c = ctx();
                        c["crash_prefix"] = json!(j);
                        c["writes"] = json!(wr.iter().map(describe_write).collect::<Vec<_>>());
                        c
                    };
                    let loaded = check_loaded(&d, expect, &cfgp, "crash_prefix", rng, st, &pctx);
                    // the recovered index must keep working: a few ops, flush, reload, compare
                    if let Some(loaded) = loaded
                        && rng.chance(1, 3)
                    {
                        let mut m2 = expect.clone();
                        let mut d2 = d.clone();
                        for _ in 0..4 {
                            let op2 = gen_op(rng, &m2, allow_grey);
                            if matches!(op2, Op::Flush { .. }) {
                                continue;
                            }
                            let a = index_apply(&loaded, &op2, now);
                            let b = m2.apply(&op2, &mut Stats::default());
                            if !ret_agrees(&a, &b) {
                                st.violation("C11/seq/op_after_recovery",
                                    json!({"op": format!("{op2:?}"), "got": format!("{a:?}"),
                                           "expected": format!("{b:?}"), "context": pctx()}));
                            }
                        }
                        let f2 = flush_recorded(&loaded, now + 1, Fault::None);
                        if f2.result.is_ok() {
                            for w in &f2.writes {
                                d2.apply(w);
                            }
                            check_loaded(&d2, &m2.reloaded(), &cfgp, "continue_after_recovery", rng, st, &pctx);
                            st.count("recovered_index_continued");
                        } else {
                            st.violation("C11/seq/flush_failed_after_recovery",
                                json!({"error": format!("{:?}", f2.result), "context": pctx()}));
                        }
                    }
                }
                for w in &writes {
                    disk.apply(w);
                }
                if commit_pos.is_some() {
                    committed = after.clone();
                    st.count("oracle_durable_layout");
                    if let Err(e) = durable_layout(&disk) {
                        st.violation("C11/seq/durable_layout", json!({"problem": e, "context": ctx()}));
                        return tainted;
                    }
                } else {
                    // "nothing to save" is only right when the durable state already is the
                    // current one
                    st.count("flush_noop");
                    check_loaded(&disk, &after, &cfgp, "flush_noop_but_state_differs", rng, st, &ctx);
                    committed = after.clone();
                }
                if legacy_start && step == 8 {
                    // rewrite what is on disk into the pre-manifest layout
                    if let Some(d) = to_legacy(&disk) {
                        disk = d;
                        st.count("legacy_layout_seeded");
                    }
                }
                if *reload || (legacy_start && step == 8) {
                    match load(&disk) {
                        Ok(Some(i)) => {
                            idx = i;
                            model = after;
                        }
                        Ok(None) => {}
                        Err(e) => {
                            st.violation("C11/seq/reload_failed", json!({"error": e, "context": ctx()}));
                            return tainted;
                        }
                    }
                }
            }
            _ => {
                let got = index_apply(&idx, &op, now);
                let exp = model.apply(&op, st);
                st.count("ops_applied");
                if model.docs.keys().any(|id| model.stale.contains_key(id)) {
                    if !tainted {
                        st.count("histories_indexing_over_stale_entries");
                    }
                    tainted = true;
                }
                if !ret_agrees(&got, &exp) {
                    st.violation("C11/seq/return_value",
                        json!({"op": format!("{op:?}"), "got": format!("{got:?}"),
                               "expected": format!("{exp:?}"), "context": ctx()}));
                    return tainted;
                }
            }
        }
        let depth = if step % 2 == 0 { Depth::Full } else { Depth::Light };
        let au = Au { what: "seq", ctx: &ctx };
        if !audit(&idx, &model, &cfgp, depth, step as u64, rng, st, &au) {
            return tainted;
        }
        st.eval();
    }
    if kinds.len() >= 4 && n_flush >= 1 {
        st.distinct(vcore::fnv_str(&history.join(";")));
    }
    st.sample(|| json!({"monitor": "sequential+crash_prefixes", "bucket_overload_size": overload,
        "ops": history.iter().take(12).collect::<Vec<_>>()}));
    tainted
}

/// Candidate defect, kept out of the verdict sections (see `main`): once a document id is
/// re-inserted while posting entries of an earlier remove-with-non-original-text still exist
/// for it, (1) those entries match again, (2) they get persisted together with the id's token
/// count in buckets that a later, correct remove does not mark dirty, so the removed document
/// is back after the next load. Every violation of a history that did this is filed under
/// this one signature.
const FINDING_SIG: &str = "C11/finding/reinsert_over_stale_postings";

fn finding_case(case: u64, rng: &mut Rng, st: &mut Stats, n_ops: usize) {
    let mut local = Stats::default();
    // case 0: the minimal reproducer (bucket_overload_size 40: two 13-14 byte tokens per
    // bucket, so dog/cat and moon/wolf land in different buckets whatever the token order)
    let script = (case == 0).then(|| {
        (40usize, vec![
            Op::Insert(1, "dog cat".into()),
            Op::Insert(2, "moon wolf".into()),
            Op::Remove(1, "bird".into()),
            Op::Insert(1, "moon".into()),
            Op::Flush { reload: false },
            Op::Remove(1, "moon".into()),
            Op::Flush { reload: true },
        ])
    });
    // cases 1, 2: a removal whose text matches the document only partly but counts as many
    // words as the document holds (first word repeated / one word swapped), then a re-insert of
    // the id with other tokens (seeded change C11-7)
    let script = script.or_else(|| match case {
        1 => Some((40usize, vec![
            Op::Insert(1, "red fox".into()),
            Op::Insert(2, "fox moon".into()),
            Op::Remove(1, "red red".into()),
            Op::Insert(1, "sun wolf".into()),
            Op::Flush { reload: true },
        ])),
        2 => Some((1 << 20, vec![
            Op::Insert(3, "gold iron salt".into()),
            Op::Insert(4, "iron wind".into()),
            Op::Remove(3, "gold dog dog".into()),
            Op::Insert(3, "moon".into()),
            Op::Flush { reload: false },
        ])),
        _ => None,
    });
    let tainted = seq_case(case, rng, &mut local, n_ops, true, script);
    if tainted {
        for v in local.violations.iter_mut() {
            if v.signature.starts_with("C11/candidate/") {
                continue;
            }
            v.detail["original_signature"] = json!(v.signature);
            v.signature = FINDING_SIG.to_string();
        }
    }
    st.merge(local);
}

// ---------------------------------------------------------------------------------------------
// monitor 3: controlled thread schedules at verif points + per-document linearizability

const HOT: [&str; 3] = ["red", "blue", "fox"];
const FRESH: [&str; 5] = ["sun", "moon", "rock", "wind", "dog"];
const COLD: [&str; 4] = ["salt", "gold", "iron", "wolf"];

#[derive(Clone, Debug)]
enum COp {
    Insert(u64),
    Remove(u64),
    Purge(Vec<u64>),
    Compact,
    Search(&'static str),
}

#[derive(Clone, Debug, PartialEq)]
enum CRet {
    Ok,
    AlreadyExists,
    Err(String),
    Bool(bool),
    Count(usize),
    Compacted(usize, usize),
    Found(Vec<(u64, f32)>),
}

#[derive(Clone, Debug)]
struct Rec {
    thread: usize,
    op: COp,
    call: u64,
    ret: u64,
    result: CRet,
}

/// One concurrent scenario. Every id has one fixed text (so every remove is given the original
/// text and no stale entry can legitimately exist). Ids are either touched by one thread only,
/// or contended by several threads with operations of one kind (insert-insert, remove-remove/
/// purge); `cross` additionally lets threads race insert against remove on the same id.
#[derive(Clone, Debug)]
struct Plan {
    overload: usize,
    texts: BTreeMap<u64, String>,
    cold: Vec<(u64, String)>,
    init_present: BTreeSet<u64>,
    owner: BTreeMap<u64, usize>,
    scripts: Vec<Vec<COp>>,
}

fn gen_plan(rng: &mut Rng, n_threads: usize, len: usize, own_per_thread: u64, cross: bool, force_compact: bool) -> Plan {
    let mut texts = BTreeMap::new();
    let mut owner = BTreeMap::new();
    let mut init_present = BTreeSet::new();
    let pool_text = |rng: &mut Rng| {
        let mut ws: Vec<&str> = (0..1 + rng.usize(2)).map(|_| *rng.pick(&HOT)).collect();
        if rng.bool() {
            ws.push(pw(rng, &FRESH));
        }
        if rng.chance(1, 4) {
            ws.push(ws[0]); // tf = 2
        }
        rng.shuffle(&mut ws);
        ws.join(" ")
    };
    let race_insert: Vec<u64> = vec![1, 2];
    let race_remove: Vec<u64> = vec![3, 4];
    let race_any: Vec<u64> = if cross { vec![5, 6] } else { vec![] };
    for id in race_insert.iter().chain(&race_remove).chain(&race_any) {
        texts.insert(*id, pool_text(rng));
    }
    init_present.extend(race_remove.iter().copied());
    for id in &race_any {
        if rng.bool() {
            init_present.insert(*id);
        }
    }
    let mut own: Vec<Vec<u64>> = vec![];
    for t in 0..n_threads {
        let ids: Vec<u64> = (0..own_per_thread).map(|j| 10 * (t as u64 + 1) + j).collect();
        for id in &ids {
            texts.insert(*id, pool_text(rng));
            owner.insert(*id, t);
            if rng.chance(2, 5) {
                init_present.insert(*id);
            }
        }
        own.push(ids);
    }
    // cold documents: never touched by the threads; they create the buckets (> 1, so that a
    // compaction has something to rebuild) and the background corpus for df / avgdl
    let cold: Vec<(u64, String)> = (0..6u64)
        .map(|i| {
            let ws: Vec<&str> = (0..2 + rng.usize(2)).map(|_| *rng.pick(&COLD)).collect();
            (1000 + i, format!("{} {}", COLD[i as usize % 4], ws.join(" ")))
        })
        .collect();
    let mut scripts = vec![];
    for own_ids in own.iter().take(n_threads) {
        let mut present: BTreeMap<u64, bool> =
            own_ids.iter().map(|id| (*id, init_present.contains(id))).collect();
        let mut s = vec![];
        for _ in 0..len {
            let pick_own = |rng: &mut Rng, want: bool, present: &BTreeMap<u64, bool>| {
                let c: Vec<u64> = present.iter().filter(|(_, p)| **p == want).map(|(i, _)| *i).collect();
                if !c.is_empty() && rng.chance(5, 6) { *rng.pick(&c) } else { *rng.pick(own_ids) }
            };
            let op = match rng.weighted(&[26, 22, 6, 12, 12, 7, 10, if cross { 25 } else { 0 }]) {
                0 => {
                    let id = pick_own(rng, false, &present);
                    present.insert(id, true);
                    COp::Insert(id)
                }
                1 => {
                    let id = pick_own(rng, true, &present);
                    present.insert(id, false);
                    COp::Remove(id)
                }
                2 => {
                    let id = pick_own(rng, true, &present);
                    present.insert(id, false);
                    let mut ids = vec![id];
                    if rng.chance(1, 3) {
                        ids.push(*rng.pick(&race_remove));
                    }
                    COp::Purge(ids)
                }
                3 => COp::Insert(*rng.pick(&race_insert)),
                4 => {
                    if rng.bool() {
                        COp::Remove(*rng.pick(&race_remove))
                    } else {
                        COp::Purge(vec![*rng.pick(&race_remove)])
                    }
                }
                5 => COp::Compact,
                6 => COp::Search(if rng.chance(2, 3) { *rng.pick(&HOT) } else { *rng.pick(&FRESH) }),
                _ => {
                    if rng.bool() {
                        COp::Insert(*rng.pick(&race_any))
                    } else {
                        COp::Remove(*rng.pick(&race_any))
                    }
                }
            };
            s.push(op);
        }
        scripts.push(s);
    }
    if force_compact {
        let t = rng.usize(n_threads);
        let pos = rng.usize(len);
        scripts[t][pos] = COp::Compact;
    }
    Plan { overload: *rng.pick(&[40usize, 48, 64, 100]), texts, cold, init_present, owner, scripts }
}

fn exec(idx: &Idx, plan: &Plan, op: &COp) -> CRet {
    match op {
        COp::Insert(id) => match idx.insert(*id, &plan.texts[id], 2) {
            Ok(()) => CRet::Ok,
            Err(BM25Error::AlreadyExists { .. }) => CRet::AlreadyExists,
            Err(e) => CRet::Err(format!("{e:?}")),
        },
        COp::Remove(id) => CRet::Bool(idx.remove(*id, &plan.texts[id], 2)),
        COp::Purge(ids) => CRet::Count(idx.purge_ids(&ids.iter().copied().collect(), 2)),
        COp::Compact => {
            let (a, b) = idx.compact_buckets();
            CRet::Compacted(a, b)
        }
        COp::Search(w) => CRet::Found(idx.search(w, BIG, None)),
    }
}

struct Outcome {
    recs: Vec<Rec>,
    trace: Vec<(u8, &'static str)>,
    end: SchedEnd,
    idx: Arc<Idx>,
}

fn run_plan(plan: &Plan, chooser: &mut dyn Chooser, stress_seed: Option<u64>) -> Outcome {
    let idx: Arc<Idx> = Arc::new(new_index(plan.overload, &BM25Params::default()));
    for (id, text) in &plan.cold {
        let _ = idx.insert(*id, text, 1);
    }
    for id in &plan.init_present {
        let _ = idx.insert(*id, &plan.texts[id], 1);
    }
    let clock = Arc::new(AtomicU64::new(1));
    let sched = TurnSched::new(plan.scripts.len());
    let recs: Arc<std::sync::Mutex<Vec<Rec>>> = Arc::new(std::sync::Mutex::new(vec![]));
    let mut trace = vec![];
    let mut end = SchedEnd::AllFinished;
    std::thread::scope(|s| {
        for (t, script) in plan.scripts.iter().enumerate() {
            let (idx, clock, sched, recs) = (idx.clone(), clock.clone(), sched.clone(), recs.clone());
            s.spawn(move || {
                if let Some(seed) = stress_seed {
                    vcore::sched::enable_stress(seed ^ ((t as u64) << 8), 2);
                } else {
                    sched.register(t);
                }
                for op in script {
                    let call = clock.fetch_add(1, Ordering::SeqCst);
                    let result = exec(&idx, plan, op);
                    let ret = clock.fetch_add(1, Ordering::SeqCst);
                    recs.lock().unwrap().push(Rec { thread: t, op: op.clone(), call, ret, result });
                }
                if stress_seed.is_some() {
                    vcore::sched::disable_stress();
                } else {
                    sched.finish(t);
                }
            });
        }
        if stress_seed.is_none() {
            let (e, tr) = sched.control(chooser, Duration::from_millis(2), Duration::from_secs(20));
            end = e;
            trace = tr;
        }
    });
    let recs = recs.lock().unwrap().clone();
    Outcome { recs, trace, end, idx }
}

/// effect of one recorded op on one document id
#[derive(Clone, Debug)]
struct Ev {
    call: u64,
    ret: u64,
    add: bool,
    /// insert: Some(true) = Ok, Some(false) = AlreadyExists; remove/purge: Some(was indexed)
    outcome: Option<bool>,
}

fn doc_events(recs: &[Rec], id: u64) -> Vec<Ev> {
    let mut v = vec![];
    for r in recs {
        let mut push = |add: bool, outcome: Option<bool>| v.push(Ev { call: r.call, ret: r.ret, add, outcome });
        match (&r.op, &r.result) {
            (COp::Insert(i), CRet::Ok) if *i == id => push(true, Some(true)),
            (COp::Insert(i), CRet::AlreadyExists) if *i == id => push(true, Some(false)),
            (COp::Remove(i), CRet::Bool(b)) if *i == id => push(false, Some(*b)),
            (COp::Purge(ids), CRet::Count(n)) if ids.contains(&id) => {
                let distinct: BTreeSet<&u64> = ids.iter().collect();
                let outcome = if *n == 0 {
                    Some(false)
                } else if *n == distinct.len() {
                    Some(true)
                } else {
                    None
                };
                push(false, outcome)
            }
            _ => {}
        }
    }
    v
}

/// Wing-Gong search over one document's sub-history; the state is "indexed or not".
fn linearizable(evs: &[Ev], init: bool, fin: bool) -> bool {
    fn rec(
        evs: &[Ev],
        done: u32,
        state: bool,
        fin: bool,
        memo: &mut std::collections::HashSet<(u32, bool)>,
    ) -> bool {
        if done.count_ones() as usize == evs.len() {
            return state == fin;
        }
        if !memo.insert((done, state)) {
            return false;
        }
        let min_ret = evs
            .iter()
            .enumerate()
            .filter(|(i, _)| done & (1 << i) == 0)
            .map(|(_, e)| e.ret)
            .min()
            .unwrap();
        for (i, e) in evs.iter().enumerate() {
            if done & (1 << i) != 0 || e.call > min_ret {
                continue;
            }
            let next = match (e.add, e.outcome) {
                (true, Some(true)) => (!state).then_some(true),
                (true, Some(false)) => state.then_some(true),
                (true, None) => Some(true),
                (false, Some(b)) => (b == state).then_some(false),
                (false, None) => Some(false),
            };
            if let Some(s) = next
                && rec(evs, done | (1 << i), s, fin, memo)
            {
                return true;
            }
        }
        false
    }
    let mut memo = std::collections::HashSet::new();
    rec(evs, 0, init, fin, &mut memo)
}

fn judge_concurrent(out: &Outcome, plan: &Plan, mode: &str, rng: &mut Rng, st: &mut Stats) {
    let idx = &*out.idx;
    let ctx = || {
        json!({"mode": mode, "bucket_overload_size": plan.overload,
               "texts": plan.texts.iter().map(|(i, t)| format!("{i}: {t}")).collect::<Vec<_>>(),
               "cold": plan.cold, "initially_indexed": plan.init_present,
               "scripts": plan.scripts.iter().map(|s| s.iter().map(|o| format!("{o:?}")).collect::<Vec<_>>()).collect::<Vec<_>>(),
               "history": out.recs.iter().map(|r| format!("t{} [{}..{}] {:?} -> {:?}", r.thread, r.call, r.ret, r.op, r.result)).collect::<Vec<_>>(),
               "hook_trace": out.trace.iter().map(|(t, g)| format!("t{t}:{g}")).collect::<Vec<_>>()})
    };
    if out.end == SchedEnd::Watchdog {
        st.inconclusive("C11 thread schedule: watchdog fired (threads neither parked nor finished)");
        return;
    }
    for r in &out.recs {
        if let CRet::Err(e) = &r.result {
            st.violation("C11/concurrent/unexpected_error", json!({"error": e, "context": ctx()}));
            return;
        }
    }
    // per-document linearizability of the acknowledged results and the final state
    let mut fin_docs = BTreeMap::new();
    for (id, text) in &plan.cold {
        fin_docs.insert(*id, text.clone());
    }
    for (id, text) in &plan.texts {
        let fin = idx.get_doc_tokens(*id).is_some();
        let evs = doc_events(&out.recs, *id);
        if evs.len() > 24 {
            st.count("linearizability_skipped_history_too_long");
        } else {
            st.count("linearizability_checks");
            if !linearizable(&evs, plan.init_present.contains(id), fin) {
                st.violation("C11/concurrent/not_linearizable",
                    json!({"document": id, "initially_indexed": plan.init_present.contains(id),
                           "finally_indexed": fin,
                           "events": evs.iter().map(|e| format!("{e:?}")).collect::<Vec<_>>(),
                           "context": ctx()}));
                return;
            }
        }
        if fin {
            fin_docs.insert(*id, text.clone());
        }
    }
    // a thread's own documents (touched by nobody else) are visible to its searches exactly
    // while they are indexed
    for t in 0..plan.scripts.len() {
        let mut present: BTreeMap<u64, bool> = plan
            .owner
            .iter()
            .filter(|(_, o)| **o == t)
            .map(|(id, _)| (*id, plan.init_present.contains(id)))
            .collect();
        for r in out.recs.iter().filter(|r| r.thread == t) {
            match (&r.op, &r.result) {
                (COp::Insert(id), CRet::Ok) if present.contains_key(id) => {
                    present.insert(*id, true);
                }
                (COp::Remove(id), _) if present.contains_key(id) => {
                    present.insert(*id, false);
                }
                (COp::Purge(ids), _) => {
                    for id in ids {
                        if present.contains_key(id) {
                            present.insert(*id, false);
                        }
                    }
                }
                (COp::Search(w), CRet::Found(res)) => {
                    st.count("concurrent_search_observations");
                    let qt = toks(w);
                    if res.iter().any(|(_, s)| *s < 0.0) {
                        st.count("concurrent_search_transient_negative_score"); // racing df vs N: not asserted
                    }
                    if let Err(e) = check_ranked(res, false) {
                        st.violation("C11/concurrent/search_ranking",
                            json!({"query": w, "got": show(res), "problem": e, "context": ctx()}));
                        return;
                    }
                    for (id, p) in &present {
                        let matches = toks(&plan.texts[id]).keys().any(|k| qt.contains_key(k));
                        let found = res.iter().any(|(i, _)| i == id);
                        if matches && found != *p {
                            st.violation("C11/concurrent/own_document_visibility",
                                json!({"thread": t, "query": w, "document": id, "indexed": p,
                                       "found": found, "got": show(res), "context": ctx()}));
                            return;
                        }
                    }
                }
                _ => {}
            }
        }
    }
    // the quiescent index answers exactly from the surviving documents
    let mut model = Model::default();
    for (id, text) in &fin_docs {
        let t = toks(text);
        model.docs.insert(*id, Doc { text: text.clone(), len: t.values().sum(), toks: t });
    }
    let dp = BM25Params::default();
    let au = Au { what: "concurrent/memory", ctx: &ctx };
    if !audit(idx, &model, &dp, Depth::Light, rng.below(8), rng, st, &au) {
        return;
    }
    // persistence sees exactly the in-memory content (a concurrent compaction lost nothing)
    let mut disk = Disk::default();
    let f = flush_recorded(idx, 3, Fault::None);
    if let Err(e) = &f.result {
        st.violation("C11/concurrent/flush_error", json!({"error": e, "context": ctx()}));
        return;
    }
    for w in &f.writes {
        disk.apply(w);
    }
    st.count("oracle_durable_layout");
    if let Err(e) = durable_layout(&disk) {
        st.violation("C11/concurrent/durable_layout", json!({"problem": e, "context": ctx()}));
        return;
    }
    if check_loaded(&disk, &model, &dp, "concurrent/reload", rng, st, &ctx).is_none() && !model.docs.is_empty() {
        return;
    }
    // the same instance keeps working: sequential follow-up, second (incremental) flush, reload
    let mut follow = vec![
        Op::Insert(2000, format!("{} {} {}", HOT[rng.usize(3)], HOT[rng.usize(3)], FRESH[rng.usize(5)])),
        Op::Insert(2001, format!("{} {} {}", FRESH[rng.usize(5)], FRESH[rng.usize(5)], HOT[rng.usize(3)])),
    ];
    let live_pool: Vec<u64> = plan.texts.keys().filter(|id| model.docs.contains_key(id)).copied().collect();
    if !live_pool.is_empty() {
        let id = *rng.pick(&live_pool);
        follow.insert(1, Op::Remove(id, plan.texts[&id].clone()));
    }
    for op in &follow {
        let a = index_apply(idx, op, 4);
        let b = model.apply(op, &mut Stats::default());
        if !ret_agrees(&a, &b) {
            st.violation("C11/concurrent/followup_return_value",
                json!({"op": format!("{op:?}"), "got": format!("{a:?}"), "expected": format!("{b:?}"), "context": ctx()}));
            return;
        }
    }
    let f = flush_recorded(idx, 5, Fault::None);
    if let Err(e) = &f.result {
        st.violation("C11/concurrent/flush_error", json!({"error": e, "context": ctx()}));
        return;
    }
    for w in &f.writes {
        disk.apply(w);
    }
    if let Err(e) = durable_layout(&disk) {
        st.violation("C11/concurrent/durable_layout", json!({"problem": e, "after": "follow-up flush", "context": ctx()}));
        return;
    }
    let fctx = || {
        let mut c = ctx();
        c["followup"] = json!(follow.iter().map(|o| format!("{o:?}")).collect::<Vec<_>>());
        c
    };
    check_loaded(&disk, &model.reloaded(), &dp, "concurrent/reload_after_followup", rng, st, &fctx);
}

fn note_trace(out: &Outcome, case: u64, st: &mut Stats) {
    st.eval();
    st.count("schedules_run");
    st.set(
        "distinct_hook_interleavings",
        vcore::hash_debug(&out.trace) ^ case.wrapping_mul(0x9e3779b97f4a7c15),
    );
    for (_, tag) in &out.trace {
        if *tag != "start" {
            st.count(&format!("tag:{tag}"));
        }
    }
    st.max("max_schedule_len", out.trace.len() as u64);
}

/// `deadline` only cuts exploration short (counted), it never decides anything.
fn sched_case(
    case: u64,
    rng: &mut Rng,
    st: &mut Stats,
    budget_runs: u64,
    three: bool,
    cross: bool,
    deadline: std::time::Instant,
) {
    let n_threads = if three { 3 } else { 2 };
    let len = if three { 1 + rng.usize(2) } else { 2 + rng.usize(2) };
    let force_compact = rng.bool();
    let plan = gen_plan(rng, n_threads, len, 2, cross, force_compact);
    let mut dfs = DfsChooser::new();
    let mut runs = 0;
    let mut exhausted = false;
    loop {
        dfs.begin_run();
        let out = run_plan(&plan, &mut dfs, None);
        runs += 1;
        note_trace(&out, case, st);
        judge_concurrent(&out, &plan, "S-hook/DFS", rng, st);
        if !st.violations.is_empty() {
            break;
        }
        if !dfs.next_run() {
            exhausted = true;
            break;
        }
        if runs >= budget_runs {
            break;
        }
        if std::time::Instant::now() > deadline {
            st.count("schedule_budget_cut_by_time");
            break;
        }
    }
    st.count(if exhausted { "schedule_spaces_exhausted" } else { "schedule_spaces_truncated" });
    if !exhausted && st.violations.is_empty() {
        // the DFS only varied the tail of the schedule: top up with random schedules
        let mut rc = RandChooser(rng.fork());
        for _ in 0..budget_runs / 2 {
            let out = run_plan(&plan, &mut rc, None);
            runs += 1;
            note_trace(&out, case, st);
            judge_concurrent(&out, &plan, "S-hook/random", rng, st);
            if !st.violations.is_empty() || std::time::Instant::now() > deadline {
                break;
            }
        }
    }
    st.distinct(vcore::hash_debug(&plan.scripts) ^ vcore::hash_debug(&plan.texts));
    st.sample(|| json!({"monitor": "thread_schedules", "threads": n_threads,
        "scripts": plan.scripts.iter().map(|s| s.iter().map(|o| format!("{o:?}")).collect::<Vec<_>>()).collect::<Vec<_>>(),
        "texts": plan.texts, "schedules": runs, "exhaustive": exhausted}));
}

fn stress_case(_case: u64, rng: &mut Rng, st: &mut Stats, ops_per_thread: usize) {
    let plan = gen_plan(rng, 4, ops_per_thread, 3, false, true);
    let mut dummy = DfsChooser::new();
    let out = run_plan(&plan, &mut dummy, Some(rng.next_u64()));
    st.eval();
    st.count("stress_runs");
    st.add("stress_ops", (4 * ops_per_thread) as u64);
    judge_concurrent(&out, &plan, "stress", rng, st);
}

// ---------------------------------------------------------------------------------------------

fn main() {
    // tasks are polled by hand in this binary: see vcore::run::use_plain_block_on
    vcore::run::use_plain_block_on();
    let mut run = Run::from_args(
        "C11",
        "exploration",
        "seeded operation histories over a 12-word vocabulary (+ inflected forms) x 20 ids with \
         small bucket_overload_size; a history is non-trivial when it uses >= 4 operation kinds \
         and >= 1 flush (distinct by op sequence); thread-schedule cases are distinct by script \
         set + texts, interleavings by hook trace",
    );
    anda_db_utils::verif::set_hook(Some(vcore::sched::hook));
    // Since the repair of the crate (an insert sweeps what a remove with non-original text left
    // behind for its id, `stale_ids`) a hit through such an entry is a violation of "exactly the
    // indexed documents containing a token of the query"; `--arg strict_stale=0` only counts it.
    STRICT_STALE.store(run.arg_u64("strict_stale", 1) != 0, Ordering::Relaxed);
    run.assume("flush is never run concurrently with mutations or compaction (documented caller contract)");
    run.assume("crash model of the callback API: each bucket/metadata write is atomic, the sequence is interruptible anywhere; a failing write may or may not have landed");
    run.assume("model tokens come from the crate's own default tokenizer + collect_tokens (the tokenizer is not under test)");
    run.assume("remove with non-original text: entries it leaves behind are asserted invisible while the id is not indexed and pruned by a load; verdict histories re-insert such an id only with the tokens it had (which makes the entries current again); re-inserting it with other tokens is exercised in the section stale_reinsert");
    run.assume("threads blocked on a real lock are recognised by a 2 ms no-transition window; this shapes exploration only");
    run.assume("no two threads race an insert against a remove of the same id (ids are caller-assigned and unique; see report)");
    let t = run.tier;
    let cross_only = run.only.as_deref() == Some("sameid");
    if run.wants("seq") {
        run.parallel("seq", t.pick(1200, 40000), t.pick(0.25, 0.4), |c, rng, st| {
            seq_case(c, rng, st, 40, false, None);
        });
    }
    if run.wants("sched") {
        let dl = std::time::Instant::now() + run.time_left().mul_f64(t.pick(0.22, 0.4));
        run.parallel("sched2", t.pick(56, 1500), t.pick(0.22, 0.4), |c, rng, st| {
            sched_case(c, rng, st, t.pick(100, 1200), false, false, dl)
        });
        let dl = std::time::Instant::now() + run.time_left().mul_f64(t.pick(0.2, 0.5));
        run.parallel("sched3", t.pick(20, 500), t.pick(0.2, 0.5), |c, rng, st| {
            sched_case(c, rng, st, t.pick(80, 800), true, false, dl)
        });
    }
    if run.wants("stress") {
        run.parallel("stress", t.pick(800, 20000), t.pick(0.2, 0.7), |c, rng, st| {
            stress_case(c, rng, st, t.pick(30, 120))
        });
    }
    if cross_only {
        // experiment, never part of a verdict run: insert racing remove on the same id
        let dl = std::time::Instant::now() + run.time_left().mul_f64(0.9);
        run.parallel("sameid", t.pick(64, 800), 0.9, |c, rng, st| {
            sched_case(c, rng, st, t.pick(150, 1000), false, true, dl)
        });
    }
    // Histories that index a document over stale entries of its id (a remove with non-original
    // text followed by a re-insert with other tokens). This was a genuine defect of the crate,
    // repaired by a "fix:" commit (see known_findings.json, "fixed"); the section is a regular
    // part of the verdict and reports the violation again should it ever return.
    if run.wants("finding") || run.wants("stale_reinsert") {
        run.parallel("stale_reinsert", t.pick(100, 6000), t.pick(0.12, 0.9), |c, rng, st| finding_case(c, rng, st, 40));
    }
    run.floor("flush_crash_prefixes", 200);
    run.floor("crash_prefix_before_commit", 50);
    run.floor("crash_prefix_after_commit", 50);
    run.floor("flush_failed_injected", 20);
    run.floor("flush_failed_at_metadata", 5);
    run.floor("recovered_index_continued", 20);
    run.floor("op_insert_already_exists", 50);
    run.floor("op_insert_tokenize_failed", 50);
    run.floor("op_remove_non_original", 50);
    run.floor("op_reinsert_after_non_original_remove", 20);
    run.floor("op_purge_hit", 50);
    run.floor("op_compact", 50);
    run.floor("oracle_bool_query", 2000);
    run.floor("bool_all_not_conjunction", 100);
    run.floor("bool_double_negation", 100);
    run.floor("bool_top_level_not", 100);
    run.floor("oracle_params_out_of_domain", 500);
    run.floor("oracle_score_formula", 2000);
    run.floor("oracle_prefix_law", 5000);
    run.floor("oracle_loaded_state", 200);
    run.floor("schedules_run", 50);
    run.floor("linearizability_checks", 100);
    run.floor_set("distinct_hook_interleavings", 20);
    for tag in [
        "tag:bm25.insert.before_token",
        "tag:bm25.insert.after_postings",
        "tag:bm25.insert.after_buckets",
        "tag:bm25.remove.after_doc_tokens",
        "tag:bm25.remove.after_postings",
        "tag:bm25.remove.after_remove_if",
        "tag:bm25.remove.after_buckets",
        "tag:bm25.purge.after_doc_tokens",
        "tag:bm25.purge.after_sweep",
        "tag:bm25.purge.after_remove_if",
        "tag:bm25.purge.after_resize",
        "tag:bm25.compact.before_gate",
        "tag:bm25.compact.in_gate",
        "tag:bm25.compact.after_snapshot",
        "tag:bm25.compact.after_clear",
    ] {
        run.floor(tag, 1);
    }
    run.finish();
}

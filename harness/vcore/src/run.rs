//! Check driver: argument parsing, sharded execution, three-valued verdicts,
//! evidence and replay files, known findings.
//!
//! Exit codes: 0 = held on everything explored (KNOWN-FINDING lines may be
//! printed), 1 = violation not listed in known_findings.json (VIOLATION line),
//! 2 = inconclusive (monitor observed too little / harness fault).

use crate::rng::Rng;
use serde_json::{Map, Value, json};
use std::collections::{BTreeMap, HashSet};
use std::path::PathBuf;
use std::sync::Mutex;
use std::sync::atomic::{AtomicBool, AtomicU64, Ordering};
use std::time::{Duration, Instant};

#[derive(Clone, Copy, PartialEq, Eq, Debug)]
pub enum Tier {
    Quick,
    Thorough,
}

impl Tier {
    pub fn name(self) -> &'static str {
        match self {
            Tier::Quick => "quick",
            Tier::Thorough => "thorough",
        }
    }
    pub fn pick<T>(self, quick: T, thorough: T) -> T {
        match self {
            Tier::Quick => quick,
            Tier::Thorough => thorough,
        }
    }
}

#[derive(Clone, Debug)]
pub struct Violation {
    /// Stable identifier of *what* failed (matched exactly against known_findings.json).
    pub signature: String,
    /// Everything needed to understand and replay the case.
    pub detail: Value,
}

/// Per-thread accumulator; merged into the `Run` at the end of a parallel section.
#[derive(Default, Debug)]
pub struct Stats {
    pub evaluations: u64,
    /// hashes of distinct non-trivial cases (rule stated in the evidence file)
    pub distinct: HashSet<u64>,
    pub counters: BTreeMap<String, u64>,
    /// named sets of hashes (distinct interleavings, states, shapes ...): reported as sizes
    pub sets: BTreeMap<String, HashSet<u64>>,
    pub samples: Vec<Value>,
    pub violations: Vec<Violation>,
    pub inconclusive: Vec<String>,
}

pub const MAX_SAMPLES_PER_SHARD: usize = 3;
pub const MAX_VIOLATIONS_KEPT: usize = 20;

impl Stats {
    pub fn eval(&mut self) {
        self.evaluations += 1;
    }
    pub fn evals(&mut self, n: u64) {
        self.evaluations += n;
    }
    pub fn count(&mut self, key: &str) {
        self.add(key, 1);
    }
    pub fn add(&mut self, key: &str, n: u64) {
        if let Some(v) = self.counters.get_mut(key) {
            *v += n;
        } else {
            self.counters.insert(key.to_string(), n);
        }
    }
    pub fn max(&mut self, key: &str, n: u64) {
        let e = self.counters.entry(key.to_string()).or_insert(0);
        if n > *e {
            *e = n;
        }
    }
    pub fn get(&self, key: &str) -> u64 {
        self.counters.get(key).copied().unwrap_or(0)
    }
    pub fn distinct(&mut self, h: u64) {
        self.distinct.insert(h);
    }
    pub fn set(&mut self, name: &str, h: u64) {
        if let Some(s) = self.sets.get_mut(name) {
            s.insert(h);
        } else {
            let mut s = HashSet::new();
            s.insert(h);
            self.sets.insert(name.to_string(), s);
        }
    }
    pub fn sample(&mut self, v: impl FnOnce() -> Value) {
        if self.samples.len() < MAX_SAMPLES_PER_SHARD {
            self.samples.push(v());
        }
    }
    pub fn violation(&mut self, signature: impl Into<String>, detail: Value) {
        if self.violations.len() < MAX_VIOLATIONS_KEPT {
            self.violations.push(Violation {
                signature: signature.into(),
                detail,
            });
        } else {
            self.add("violations_dropped_over_cap", 1);
        }
    }
    pub fn inconclusive(&mut self, why: impl Into<String>) {
        let why = why.into();
        if self.inconclusive.len() < 20 && !self.inconclusive.contains(&why) {
            self.inconclusive.push(why);
        }
    }
    pub fn merge(&mut self, o: Stats) {
        self.evaluations += o.evaluations;
        self.distinct.extend(o.distinct);
        for (k, v) in o.counters {
            if k.starts_with("max_") {
                self.max(&k, v);
            } else {
                self.add(&k, v);
            }
        }
        for (k, v) in o.sets {
            self.sets.entry(k).or_default().extend(v);
        }
        for s in o.samples {
            if self.samples.len() < 8 {
                self.samples.push(s);
            }
        }
        for v in o.violations {
            if self.violations.len() < MAX_VIOLATIONS_KEPT {
                self.violations.push(v);
            }
        }
        for i in o.inconclusive {
            self.inconclusive(i);
        }
    }
}

pub struct Run {
    pub prop: String,
    pub tier: Tier,
    pub seed: u64,
    pub level: String,
    pub rule: String,
    pub stats: Stats,
    pub assumptions: Vec<String>,
    pub extra: Map<String, Value>,
    pub exhaustive: Option<bool>,
    pub threads: usize,
    /// `--replay <file>`: re-run only the case recorded in that file
    pub replay: Option<Value>,
    /// `--only <name>`: restrict to one named sub-monitor
    pub only: Option<String>,
    /// free-form extra arguments `--arg k=v`
    pub args: BTreeMap<String, String>,
    start: Instant,
    budget: Duration,
}

pub fn verif_root() -> PathBuf {
    std::env::var_os("VERIF_ROOT")
        .map(PathBuf::from)
        .unwrap_or_else(|| PathBuf::from("/verif"))
}

impl Run {
    /// Parses `--tier quick|thorough --seed N [--replay file] [--only name] [--threads N]
    /// [--budget-s N] [--arg k=v]...`; `VERIF_SEED` / `VERIF_TIER` are honoured when the flags
    /// are absent.
    pub fn from_args(prop: &str, level: &str, rule: &str) -> Run {
        let mut tier = match std::env::var("VERIF_TIER").ok().as_deref() {
            Some("thorough") => Tier::Thorough,
            _ => Tier::Quick,
        };
        let mut seed: u64 = std::env::var("VERIF_SEED")
            .ok()
            .and_then(|s| s.trim().parse::<i128>().ok())
            .map(|v| v as u64)
            .unwrap_or(20260925);
        let mut replay = None;
        let mut only = None;
        let mut threads = std::thread::available_parallelism()
            .map(|n| n.get())
            .unwrap_or(4);
        let mut budget_s: Option<u64> = None;
        let mut args = BTreeMap::new();
        let argv: Vec<String> = std::env::args().skip(1).collect();
        let mut i = 0;
        while i < argv.len() {
            let a = argv[i].as_str();
            let next = |i: &mut usize| -> String {
                *i += 1;
                argv.get(*i).cloned().unwrap_or_else(|| {
                    eprintln!("missing value for {a}");
                    std::process::exit(2)
                })
            };
            match a {
                "--tier" => {
                    tier = match next(&mut i).as_str() {
                        "thorough" => Tier::Thorough,
                        _ => Tier::Quick,
                    }
                }
                "--seed" => seed = next(&mut i).parse::<i128>().unwrap_or(0) as u64,
                "--replay" => {
                    let p = next(&mut i);
                    let txt = std::fs::read_to_string(&p).unwrap_or_else(|e| {
                        eprintln!("cannot read replay file {p}: {e}");
                        std::process::exit(2)
                    });
                    replay = Some(serde_json::from_str::<Value>(&txt).unwrap_or(Value::Null));
                }
                "--only" => only = Some(next(&mut i)),
                "--threads" => threads = next(&mut i).parse().unwrap_or(threads),
                "--budget-s" => budget_s = next(&mut i).parse().ok(),
                "--arg" => {
                    let kv = next(&mut i);
                    if let Some((k, v)) = kv.split_once('=') {
                        args.insert(k.to_string(), v.to_string());
                    }
                }
                _ => {}
            }
            i += 1;
        }
        if let Some(r) = &replay {
            if let Some(s) = r.get("seed").and_then(|v| v.as_u64()) {
                seed = s;
            }
            if let Some(t) = r.get("tier").and_then(|v| v.as_str()) {
                tier = if t == "thorough" { Tier::Thorough } else { Tier::Quick };
            }
        }
        // The budget only bounds exploration (sections are sized in cases, not seconds): quick workloads
        // finish in well under a minute on an idle 16-core machine; the generous quick budget keeps
        // their coverage (and therefore the evidence floors) independent of machine load.
        let budget = Duration::from_secs(budget_s.unwrap_or(tier.pick(240, 900)));
        install_panic_hook();
        Run {
            prop: prop.to_string(),
            tier,
            seed,
            level: level.to_string(),
            rule: rule.to_string(),
            stats: Stats::default(),
            assumptions: vec![],
            extra: Map::new(),
            exhaustive: None,
            threads: threads.max(1),
            replay,
            only,
            args,
            start: Instant::now(),
            budget,
        }
    }

    pub fn arg_u64(&self, k: &str, default: u64) -> u64 {
        self.args
            .get(k)
            .and_then(|v| v.parse().ok())
            .unwrap_or(default)
    }

    pub fn wants(&self, name: &str) -> bool {
        match &self.only {
            None => true,
            Some(o) => o.split(',').any(|x| x == name),
        }
    }

    pub fn assume(&mut self, s: &str) {
        self.assumptions.push(s.to_string());
    }

    pub fn elapsed(&self) -> Duration {
        self.start.elapsed()
    }

    /// Remaining exploration budget. The budget only bounds how much is explored; it never
    /// decides a verdict.
    pub fn time_left(&self) -> Duration {
        self.budget.saturating_sub(self.start.elapsed())
    }

    pub fn set_extra(&mut self, k: &str, v: Value) {
        self.extra.insert(k.to_string(), v);
    }

    /// Runs `n_cases` cases (case i gets the independent stream `Rng::derive(seed ^ label, i)`)
    /// on `self.threads` OS threads. `frac` is the share of the remaining time budget this
    /// section may use; cases not started when it runs out are skipped and counted under
    /// `<label>_cases_skipped_for_time`. Returns the number of cases run.
    pub fn parallel<F>(&mut self, label: &str, n_cases: u64, frac: f64, f: F) -> u64
    where
        F: Fn(u64, &mut Rng, &mut Stats) + Sync,
    {
        let deadline = Instant::now() + self.time_left().mul_f64(frac.clamp(0.01, 1.0));
        let label_hash = crate::fnv_str(label);
        let seed = self.seed ^ label_hash;
        // replay: run just the recorded case of this section
        if let Some(r) = &self.replay {
            if r.get("section").and_then(|v| v.as_str()) != Some(label) {
                return 0;
            }
            let idx = r.get("case").and_then(|v| v.as_u64()).unwrap_or(0);
            let mut rng = Rng::derive(seed, idx);
            let mut st = Stats::default();
            f(idx, &mut rng, &mut st);
            tag_violations(&mut st, label, idx);
            self.stats.merge(st);
            return 1;
        }
        let next = AtomicU64::new(0);
        let ran = AtomicU64::new(0);
        let stop = AtomicBool::new(false);
        let results: Mutex<Vec<(usize, Stats)>> = Mutex::new(vec![]);
        let threads = self.threads.min(n_cases.max(1) as usize).max(1);
        std::thread::scope(|scope| {
            for t in 0..threads {
                let (next, ran, stop, results, f) = (&next, &ran, &stop, &results, &f);
                std::thread::Builder::new()
                    .name(format!("{label}-{t}"))
                    .stack_size(16 << 20)
                    .spawn_scoped(scope, move || {
                        let mut st = Stats::default();
                        loop {
                            if stop.load(Ordering::Relaxed) {
                                break;
                            }
                            let idx = next.fetch_add(1, Ordering::Relaxed);
                            if idx >= n_cases {
                                break;
                            }
                            if Instant::now() >= deadline && idx > 0 {
                                stop.store(true, Ordering::Relaxed);
                                break;
                            }
                            let mut rng = Rng::derive(seed, idx);
                            let before = st.violations.len();
                            let r = std::panic::catch_unwind(std::panic::AssertUnwindSafe(|| {
                                let mut local = Stats::default();
                                f(idx, &mut rng, &mut local);
                                local
                            }));
                            match r {
                                Ok(mut local) => {
                                    tag_violations(&mut local, label, idx);
                                    st.merge(local);
                                }
                                Err(p) => {
                                    let msg = panic_message(&p);
                                    let loc = take_last_panic_location();
                                    if loc.starts_with("/repo/") || loc.contains("/repo/rs/") || loc.contains("/rs/anda_") {
                                        // the code under test panicked on a workload the monitors
                                        // consider legal: no property allows that
                                        st.violation(
                                            format!("panic-in-target:{loc}"),
                                            json!({"panic": msg, "location": loc,
                                                   "section": label, "case": idx}),
                                        );
                                    } else {
                                        // harness fault: inconclusive, never a silent pass
                                        st.inconclusive(format!(
                                            "panic in section {label} case {idx} at {loc}: {msg}"
                                        ));
                                    }
                                }
                            }
                            ran.fetch_add(1, Ordering::Relaxed);
                            if st.violations.len() > before && st.violations.len() >= 5 {
                                stop.store(true, Ordering::Relaxed);
                            }
                        }
                        results.lock().unwrap().push((t, st));
                    })
                    .expect("spawn worker");
            }
        });
        let mut rs = results.into_inner().unwrap();
        rs.sort_by_key(|(t, _)| *t);
        for (_, st) in rs {
            self.stats.merge(st);
        }
        let ran = ran.load(Ordering::Relaxed);
        self.stats.add(&format!("{label}_cases"), ran);
        if ran < n_cases {
            self.stats
                .add(&format!("{label}_cases_skipped_for_time"), n_cases - ran);
        }
        ran
    }

    /// Evidence floor: fewer than `min` events under `key` makes the run inconclusive.
    pub fn floor(&mut self, key: &str, min: u64) {
        if self.replay.is_some() || self.only.is_some() {
            return;
        }
        let got = self.stats.get(key);
        if got < min {
            self.stats
                .inconclusive(format!("floor not reached: {key} = {got} < {min}"));
        }
    }

    pub fn floor_set(&mut self, name: &str, min: usize) {
        if self.replay.is_some() || self.only.is_some() {
            return;
        }
        let got = self.stats.sets.get(name).map(|s| s.len()).unwrap_or(0);
        if got < min {
            self.stats
                .inconclusive(format!("floor not reached: |{name}| = {got} < {min}"));
        }
    }

    /// Writes the evidence file, prints verdict lines and exits.
    pub fn finish(mut self) -> ! {
        let root = verif_root();
        let known = load_known(&root, &self.prop);
        let mut seen_sig = HashSet::new();
        let mut new_v = vec![];
        let mut known_v = vec![];
        for v in std::mem::take(&mut self.stats.violations) {
            if !seen_sig.insert(v.signature.clone()) {
                continue;
            }
            if let Some(what) = known.get(&v.signature) {
                known_v.push((v, what.clone()));
            } else {
                new_v.push(v);
            }
        }
        let wall = self.start.elapsed().as_secs_f64();
        let mut coverage = Map::new();
        coverage.insert("evaluations".into(), json!(self.stats.evaluations));
        coverage.insert(
            "distinct_nontrivial".into(),
            json!(self.stats.distinct.len()),
        );
        coverage.insert("rule".into(), json!(self.rule));
        coverage.insert("samples".into(), json!(self.stats.samples));
        if let Some(e) = self.exhaustive {
            coverage.insert("exhaustive".into(), json!(e));
        }
        coverage.insert("counters".into(), json!(self.stats.counters));
        let sets: BTreeMap<String, usize> = self
            .stats
            .sets
            .iter()
            .map(|(k, v)| (k.clone(), v.len()))
            .collect();
        coverage.insert("distinct_sets".into(), json!(sets));
        for (k, v) in std::mem::take(&mut self.extra) {
            coverage.insert(k, v);
        }
        let verdict = if !new_v.is_empty() {
            "violated"
        } else if !self.stats.inconclusive.is_empty() {
            "inconclusive"
        } else {
            "held_on_observed"
        };
        coverage.insert("verdict".into(), json!(verdict));
        coverage.insert("inconclusive".into(), json!(self.stats.inconclusive));
        coverage.insert(
            "known_findings_reproduced".into(),
            json!(known_v.iter().map(|(v, _)| v.signature.clone()).collect::<Vec<_>>()),
        );
        let ev = json!({
            "property_id": self.prop,
            "tier": self.tier.name(),
            "seed": (self.seed & (i64::MAX as u64)),
            "level": self.level,
            "coverage": Value::Object(coverage),
            "assumptions": self.assumptions,
            "wall_s": wall,
            "violations": new_v.len(),
        });
        // VERIF_EVIDENCE_TAG=<engine>: a sanitizer pass of the same binary (restricted to some
        // sections) writes logs/san/<prop>.<engine>.json, which `check` folds into the main file.
        let tag = std::env::var("VERIF_EVIDENCE_TAG").ok().filter(|t| !t.is_empty());
        if self.replay.is_none() && (self.only.is_none() || tag.is_some()) {
            let dir = match &tag {
                Some(_) => root.join("logs").join("san"),
                None => root.join("evidence"),
            };
            let _ = std::fs::create_dir_all(&dir);
            let path = match &tag {
                Some(t) => dir.join(format!("{}.{}.json", self.prop, t)),
                None => dir.join(format!("{}.json", self.prop)),
            };
            if let Err(e) = std::fs::write(&path, serde_json::to_string_pretty(&ev).unwrap()) {
                eprintln!("cannot write evidence {path:?}: {e}");
            }
        }
        println!(
            "[{}] tier={} seed={} evaluations={} distinct_nontrivial={} wall_s={:.1} verdict={}",
            self.prop,
            self.tier.name(),
            self.seed,
            self.stats.evaluations,
            self.stats.distinct.len(),
            wall,
            verdict
        );
        for (k, v) in &self.stats.counters {
            println!("  {k} = {v}");
        }
        for (k, v) in &sets {
            println!("  |{k}| = {v}");
        }
        for (v, what) in &known_v {
            println!("KNOWN-FINDING: property={} {} [{}]", self.prop, what, v.signature);
        }
        let mut code = 0;
        if !new_v.is_empty() {
            let dir = root.join("replay");
            let _ = std::fs::create_dir_all(&dir);
            for (i, v) in new_v.iter().enumerate() {
                let path = match &tag {
                    Some(t) => dir.join(format!("{}-{}-{}-{}.json", self.prop, t, self.seed, i)),
                    None => dir.join(format!("{}-{}-{}.json", self.prop, self.seed, i)),
                };
                let mut d = v.detail.clone();
                if let Value::Object(m) = &mut d {
                    m.insert("signature".into(), json!(v.signature));
                    m.insert("seed".into(), json!(self.seed));
                    m.insert("tier".into(), json!(self.tier.name()));
                    m.insert("property".into(), json!(self.prop));
                } else {
                    d = json!({"signature": v.signature, "seed": self.seed, "tier": self.tier.name(),
                               "property": self.prop, "detail": d});
                }
                let _ = std::fs::write(&path, serde_json::to_string_pretty(&d).unwrap());
                println!("  violation: {}", v.signature);
                let short = serde_json::to_string(&v.detail).unwrap_or_default();
                // cut on a character boundary (details may quote multi-byte inputs)
                let mut cut = short.len().min(1500);
                while !short.is_char_boundary(cut) {
                    cut -= 1;
                }
                println!("    {}", &short[..cut]);
                println!("VIOLATION property={} replay={}", self.prop, path.display());
            }
            code = 1;
        } else if !self.stats.inconclusive.is_empty() {
            for i in &self.stats.inconclusive {
                println!("INCONCLUSIVE property={} {}", self.prop, i);
            }
            code = 2;
        }
        std::process::exit(code)
    }
}

fn tag_violations(st: &mut Stats, label: &str, idx: u64) {
    for v in st.violations.iter_mut() {
        if let Value::Object(m) = &mut v.detail {
            m.entry("section").or_insert(json!(label));
            m.entry("case").or_insert(json!(idx));
        } else {
            v.detail = json!({"section": label, "case": idx, "detail": v.detail});
        }
    }
}

thread_local! {
    static LAST_PANIC_LOC: std::cell::RefCell<String> = const { std::cell::RefCell::new(String::new()) };
}

/// Installs a panic hook that remembers where the last panic of each thread happened (so that
/// panics of the code under test are told apart from harness faults) and keeps stderr quiet
/// unless VERIF_PANIC_TRACE is set.
pub fn install_panic_hook() {
    static ONCE: std::sync::Once = std::sync::Once::new();
    ONCE.call_once(|| {
        let prev = std::panic::take_hook();
        let verbose = std::env::var_os("VERIF_PANIC_TRACE").is_some();
        std::panic::set_hook(Box::new(move |info| {
            let loc = info
                .location()
                .map(|l| format!("{}:{}", l.file(), l.line()))
                .unwrap_or_default();
            // a panic inside a dependency (tokio, papaya, zstd-safe ...) that was reached THROUGH
            // a function of a repository crate is the repository's panic as well: look for a frame
            // of an `anda_*` crate on the stack (symbol names survive without debug info)
            let loc = if loc.starts_with("/repo/") || loc.contains("/repo/rs/") || loc.contains("/rs/anda_") {
                loc
            } else {
                let bt = std::backtrace::Backtrace::force_capture().to_string();
                let through = bt
                    .lines()
                    .map(|l| l.trim())
                    .filter_map(|l| l.split_once(": ").map(|(_, f)| f))
                    .find(|f| {
                        let f = f.trim_start_matches('<');
                        f.starts_with("anda_") && !f.starts_with("anda_db_utils::verif")
                    })
                    .map(|f| f.chars().take(120).collect::<String>());
                match through {
                    Some(f) => format!("/repo/ (dependency panic at {loc} reached through {f})"),
                    None => loc,
                }
            };
            LAST_PANIC_LOC.with(|c| *c.borrow_mut() = loc);
            if verbose {
                prev(info);
            }
        }));
    });
}

pub fn take_last_panic_location() -> String {
    LAST_PANIC_LOC.with(|c| std::mem::take(&mut *c.borrow_mut()))
}

pub fn panic_message(p: &Box<dyn std::any::Any + Send>) -> String {
    if let Some(s) = p.downcast_ref::<&str>() {
        s.to_string()
    } else if let Some(s) = p.downcast_ref::<String>() {
        s.clone()
    } else {
        "<non-string panic>".to_string()
    }
}

/// known_findings.json: {"findings":[{"property":"C07","signature":"...","what":"..."}],
///                       "fixed":[{"property":..,"commit":..,"what":..}]}
/// Only `findings` entries suppress (exact signature match); `fixed` entries suppress nothing.
fn load_known(root: &std::path::Path, prop: &str) -> BTreeMap<String, String> {
    let mut out = BTreeMap::new();
    let Ok(txt) = std::fs::read_to_string(root.join("known_findings.json")) else {
        return out;
    };
    let Ok(v) = serde_json::from_str::<Value>(&txt) else {
        return out;
    };
    if let Some(arr) = v.get("findings").and_then(|f| f.as_array()) {
        for f in arr {
            if f.get("property").and_then(|p| p.as_str()) == Some(prop) {
                if let (Some(sig), Some(what)) = (
                    f.get("signature").and_then(|s| s.as_str()),
                    f.get("what").and_then(|s| s.as_str()),
                ) {
                    out.insert(sig.to_string(), what.to_string());
                }
            }
        }
    }
    out
}

thread_local! {
    static RT: tokio::runtime::Runtime = tokio::runtime::Builder::new_current_thread()
        .enable_time()
        .build()
        .expect("tokio current-thread runtime");
}

static PLAIN_BLOCK_ON: std::sync::atomic::AtomicBool = std::sync::atomic::AtomicBool::new(false);

/// Makes `block_on` drive its future with a plain poll loop inside the runtime's HANDLE context
/// instead of `Runtime::block_on`. Binaries whose sections poll tasks by hand (`ManualExec`) call
/// this first: inside `Runtime::block_on` a `tokio::task::yield_now()` of the code under test
/// hands its wake-up to the runtime's scheduler, which never gets control while tasks are polled
/// by hand - and when the yielding future sits inside a join combinator (`AndaDB::flush` over its
/// collections) even a repeated poll of the task cannot reach it: the task looks blocked for
/// ever (false "deadlock" / "call never returns" on the benign change C05-3). Outside the
/// scheduler context tokio wakes such a waker at once. Timers and spawned tasks are not driven
/// in this mode; the sections concerned use neither.
pub fn use_plain_block_on() {
    PLAIN_BLOCK_ON.store(true, std::sync::atomic::Ordering::SeqCst);
}

struct ThreadWaker(std::thread::Thread);
impl std::task::Wake for ThreadWaker {
    fn wake(self: std::sync::Arc<Self>) {
        self.0.unpark();
    }
}

/// Runs a future on this thread's private current-thread tokio runtime.
pub fn block_on<F: std::future::Future>(f: F) -> F::Output {
    if PLAIN_BLOCK_ON.load(std::sync::atomic::Ordering::SeqCst) {
        return RT.with(|rt| {
            let _guard = rt.enter();
            let waker = std::task::Waker::from(std::sync::Arc::new(ThreadWaker(std::thread::current())));
            let mut cx = std::task::Context::from_waker(&waker);
            let mut f = std::pin::pin!(f);
            loop {
                if let std::task::Poll::Ready(v) = f.as_mut().poll(&mut cx) {
                    return v;
                }
                std::thread::park_timeout(std::time::Duration::from_millis(2));
            }
        });
    }
    RT.with(|rt| rt.block_on(f))
}

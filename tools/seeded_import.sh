#!/usr/bin/env bash
# usage: tools/seeded_import.sh <Cxx>   copies /tmp/seedout/<Cxx>/<i>/ to /verif/seeded/<Cxx>-<i>/ and normalises demo_cmd
set -u
P="$1"
for d in /tmp/seedout/$P/*/; do
  i=$(basename "$d"); [ -f "$d/patch.diff" ] || continue
  dst=/verif/seeded/$P-$i; mkdir -p "$dst"; cp -r "$d"/* "$dst"/
  python3 - "$dst/meta.json" <<'PY'
import json,sys,re
p=sys.argv[1]; m=json.load(open(p))
c=m.get("demo_cmd","")
c=re.split(r"\s{2,}\(|\s+\(optional|\s+#", c)[0].strip()
m["demo_cmd"]=c
json.dump(m,open(p,"w"),indent=1)
print(p, "->", c)
PY
done

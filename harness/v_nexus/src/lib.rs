//! Shared fixtures of the v_nexus monitors.

//! C04 - Unique constraints always hold; a rejected write leaves no trace.
//!  seq    high-contention sequential histories: every rejected operation is followed by the full
//!         audit against the unchanged model, every unique value has at most one owner, released
//!         values are claimed again immediately, multi-index partial failures are provoked;
//!  conc   2-3 concurrent adds/updates contending for one value under controlled schedules
//!         (ManualExec + gated RecStore, DFS within a budget, random beyond);
//!  crash  the C01 crash-point enumeration on high-contention histories.

use anda_db::schema::Fv;
use std::collections::BTreeSet;
use std::sync::Arc;
use v_db::audit::{AuditCtx, audit, unique_owners};
use v_db::driver::{Driver, GenCfg, Op, Step, gen_op};
use v_db::{Cfg, FDoc, IndexSet, Model, Patch, Reject, apply_patch, gen_doc, text_array};
use vcore::manual::{Chooser, DfsChooser, ManualExec, RandChooser, Stuck};
use vcore::recstore::RecStore;
use vcore::run::block_on;
use vcore::{Rng, Run, Stats, json};

/// A patch that changes several unique fields at once, the LAST of which collides with `other`,
/// so that the failure is detected after earlier unique indexes were already updated.
fn partial_failure_patch(rng: &mut Rng, other: &FDoc, tag: u64) -> Option<Patch> {
    let mut p = Patch::new();
    match rng.below(3) {
        0 if !other.codes.is_empty() => {
            p.insert("uname".into(), Fv::Text(format!("free-{tag}")));
            p.insert("grp".into(), Fv::Text(format!("gfree{tag}")));
            p.insert("codes".into(), text_array(&[other.codes[0].clone(), format!("cfree{tag}")]));
        }
        1 => {
            p.insert("codes".into(), text_array(&[format!("cfree{tag}")]));
            p.insert("grp".into(), Fv::Text(format!("gfree{tag}")));
            p.insert("uname".into(), Fv::Text(other.uname.clone()));
        }
        _ => {
            p.insert("uname".into(), Fv::Text(format!("free-{tag}")));
            p.insert("codes".into(), text_array(&[format!("cfree{tag}")]));
            p.insert("grp".into(), Fv::Text(other.grp.clone()));
            p.insert("slot".into(), Fv::U64(other.slot));
        }
    }
    if p.len() < 3 { None } else { Some(p) }
}

fn seq_case(case: u64, rng: &mut Rng, st: &mut Stats, n_ops: usize) {
    let cfg = Cfg::random(rng);
    let contention = *rng.pick(&[3u64, 4, 5]);
    let store = RecStore::new();
    store.set_record_reads(false);
    block_on(async {
        let mut d = match Driver::start(Arc::new(store.clone()), cfg, IndexSet::ALL).await {
            Ok(d) => d,
            Err(e) => {
                st.violation("C04/setup_failed", json!(format!("{e:?}")));
                return;
            }
        };
        let g = GenCfg { contention, allow_index_change: false, ..Default::default() };
        let mut released: Option<FDoc> = None;
        let mut classes = BTreeSet::new();
        for i in 0..n_ops {
            let live: Vec<u64> = d.model.docs.keys().copied().collect();
            let op = if let Some(r) = released.take() {
                // claim exactly what was just released
                let mut n = gen_doc(rng, 1000);
                n.uname = r.uname.clone();
                n.codes = r.codes.clone();
                n.grp = r.grp.clone();
                n.slot = r.slot;
                st.count("claims_of_just_released_values");
                Op::Add(n)
            } else if live.len() >= 2 && rng.chance(1, 6) {
                let a = *rng.pick(&live);
                let b = *rng.pick(&live);
                match (a != b).then(|| partial_failure_patch(rng, &d.model.docs[&b], case * 1000 + i as u64)).flatten() {
                    Some(p) => {
                        st.count("multi_unique_field_updates_with_late_conflict");
                        Op::Update(a, p, None)
                    }
                    None => gen_op(rng, &d.model, d.set, &g),
                }
            } else {
                gen_op(rng, &d.model, d.set, &g)
            };
            let before = d.model.clone();
            let step = d.step(&op, st).await;
            match &step {
                Step::Applied => {
                    // what did this operation release?
                    match &op {
                        Op::Remove(id) => released = before.docs.get(id).cloned().filter(|_| rng.bool()),
                        Op::Update(id, ..) => {
                            let (o, n) = (&before.docs[id], &d.model.docs[id]);
                            if (o.uname != n.uname || o.codes != n.codes || o.grp != n.grp || o.slot != n.slot) && rng.bool() {
                                // the old values are free again unless the new document kept some
                                let mut r = o.clone();
                                if r.uname == n.uname { r.uname = format!("x{case}-{i}"); }
                                r.codes.retain(|c| !n.codes.contains(c));
                                if r.grp == n.grp && r.slot == n.slot { r.slot = 900_000 + i as u64; }
                                released = Some(r);
                            }
                        }
                        _ => {}
                    }
                }
                Step::Rejected(r) => {
                    classes.insert(*r);
                    st.count(&format!("rejected_class:{r:?}"));
                    if d.model != before {
                        st.inconclusive("harness: model changed on a rejected operation");
                    }
                }
                Step::Failed(e) => {
                    st.violation("C04/storage_error_without_fault", json!({"error": e, "context": d.ctx()}));
                    return;
                }
                Step::Wrong(sig, detail) => {
                    st.violation(format!("C04/{sig}"), json!({"detail": detail, "case": case, "context": d.ctx()}));
                    return;
                }
            }
            // a rejected write changes nothing observable: the audit runs against the unchanged
            // model (ids, every document, every index answer, all counts)
            let ctx = d.ctx();
            let sig = if matches!(step, Step::Rejected(_)) { "C04/after_rejected_write" } else { "C04/after_accepted_write" };
            if !audit(&d.coll, &d.model, d.set, st, &AuditCtx { sig, ctx: &|| json!({"case": case, "driver": ctx.clone()}) }).await {
                return;
            }
            if matches!(step, Step::Rejected(_)) {
                st.count("audits_after_rejected_write");
            }
            let bad = unique_owners(&d.coll, &d.model, d.set).await;
            st.count("oracle_unique_owner_scans");
            if !bad.is_empty() {
                st.violation("C04/value_with_two_owners", json!({"values": bad, "context": d.ctx()}));
                return;
            }
            st.eval();
        }
        if classes.len() >= 2 {
            st.distinct(vcore::fnv_str(&d.history.join(";")));
        }
        st.sample(|| json!({"monitor": "sequential", "contention": contention, "ops": d.history.iter().take(8).collect::<Vec<_>>()}));
    });
}

// ---------------------------------------------------------------------------------------------
// concurrent writers contending for one value

#[derive(Clone, Debug)]
enum COp {
    Add(FDoc),
    Update(u64, Patch),
    /// removal of the document another writer is moving onto the contested value
    Remove(u64),
}

#[derive(Debug)]
enum CRes {
    Added(u64),
    Updated,
    Removed(bool),
    Err(String),
}

struct ConcCase {
    cfg: Cfg,
    initial: Vec<FDoc>,
    ops: Vec<COp>,
    what: &'static str,
    post_reads: bool,
    /// release family: document 1 is updated onto the contested value while it is removed
    release: bool,
}

fn gen_conc(rng: &mut Rng, three: bool) -> ConcCase {
    let cfg = Cfg { cache: rng.bool(), compress: 0, bucket: *rng.pick(&[64usize, 1 << 20]) };
    let n_init = 2 + rng.usize(3);
    let mut initial = vec![];
    for i in 0..n_init {
        let mut d = gen_doc(rng, 1000);
        d.uname = format!("init{i}");
        d.codes = vec![format!("ci{i}")];
        d.grp = "gi".into();
        d.slot = i as u64;
        initial.push(d);
    }
    let n = if three { 3 } else { 2 };
    let kind = rng.below(3);
    let what = ["uname", "codes", "grp-slot"][kind as usize];
    let mut ops = vec![];
    for t in 0..n {
        // each writer: a fresh document / an update of its own document, all wanting one value
        let mut want = gen_doc(rng, 1000);
        want.uname = format!("w{t}");
        want.codes = vec![format!("cw{t}")];
        want.grp = "gw".into();
        want.slot = 100 + t as u64;
        match kind {
            0 => want.uname = "contested".into(),
            1 => want.codes.push("contested".into()),
            _ => {
                want.grp = "contested".into();
                want.slot = 7;
            }
        }
        if rng.chance(1, 3) && t < n_init {
            let mut p = Patch::new();
            match kind {
                0 => {
                    p.insert("uname".into(), Fv::Text(want.uname.clone()));
                }
                1 => {
                    p.insert("codes".into(), text_array(&want.codes));
                }
                _ => {
                    p.insert("grp".into(), Fv::Text(want.grp.clone()));
                    p.insert("slot".into(), Fv::U64(want.slot));
                }
            }
            // plus a non-unique change so that several indexes move
            p.insert("age".into(), Fv::U64(40 + t as u64));
            ops.push(COp::Update(t as u64 + 1, p));
        } else {
            ops.push(COp::Add(want));
        }
    }
    let post_reads = rng.bool();
    // Release family (one case in three): writer 0 moves document 1 onto the contested value,
    // writer 1 removes document 1 (its read of the document may be overtaken by the update),
    // a third writer claims the value with a fresh document. Whatever the order, the removed
    // document owns nothing afterwards ("available again as soon as the holder is removed").
    let release = rng.chance(1, 3);
    if release {
        let mut p = Patch::new();
        match kind {
            0 => {
                p.insert("uname".into(), Fv::Text("contested".into()));
            }
            1 => {
                p.insert("codes".into(), text_array(&["ci0".to_string(), "contested".to_string()]));
            }
            _ => {
                p.insert("grp".into(), Fv::Text("contested".into()));
                p.insert("slot".into(), Fv::U64(7));
            }
        }
        p.insert("age".into(), Fv::U64(41));
        let third = ops.iter().find(|o| matches!(o, COp::Add(_))).cloned();
        ops = vec![COp::Update(1, p), COp::Remove(1)];
        if let (true, Some(a)) = (three, third) {
            ops.push(a);
        }
    }
    ConcCase { cfg, initial, ops, what, post_reads, release }
}

async fn run_schedule(cc: &ConcCase, chooser: &mut dyn Chooser, st: &mut Stats) -> Option<Vec<usize>> {
    let store = RecStore::new();
    store.set_record_reads(false);
    let mut d = match Driver::start(Arc::new(store.clone()), cc.cfg, IndexSet::ALL).await {
        Ok(d) => d,
        Err(e) => {
            st.violation("C04/conc/setup_failed", json!(format!("{e:?}")));
            return None;
        }
    };
    for doc in &cc.initial {
        if !matches!(d.step(&Op::Add(doc.clone()), st).await, Step::Applied) {
            st.inconclusive("harness: initial document rejected");
            return None;
        }
    }
    let _ = d.step(&Op::Flush, st).await;
    store.set_gate(true);
    // update = read, then write: half of the cases may also be parked between a read's response
    // and what the task does with it
    store.set_gate_after_reads(cc.post_reads);
    let coll = d.coll.clone();
    let mut ex: ManualExec<'_, CRes> = ManualExec::new();
    for op in &cc.ops {
        let coll = coll.clone();
        let op = op.clone();
        ex.spawn(async move {
            match op {
                COp::Add(doc) => match coll.add_from(&doc).await {
                    Ok(id) => CRes::Added(id),
                    Err(e) => CRes::Err(format!("{e:?}")),
                },
                COp::Update(id, p) => match coll.update(id, p).await {
                    Ok(_) => CRes::Updated,
                    Err(e) => CRes::Err(format!("{e:?}")),
                },
                COp::Remove(id) => match coll.remove(id).await {
                    Ok(r) => CRes::Removed(r.is_some()),
                    Err(e) => CRes::Err(format!("{e:?}")),
                },
            }
        });
    }
    let r = ex.run(chooser, 4000, |_, _, _| {});
    store.set_gate(false);
    store.set_gate_after_reads(false);
    let trace = ex.trace.clone();
    let describe = |ex: &ManualExec<'_, CRes>| -> Vec<String> {
        (0..cc.ops.len()).map(|i| format!("{:?} -> {:?}", brief(&cc.ops[i]), ex.result(i))).collect()
    };
    match r {
        Ok(()) => {}
        Err(Stuck::Deadlock(t)) => {
            st.violation("C04/conc/deadlock", json!({"blocked_tasks": t, "schedule": trace, "ops": describe(&ex)}));
            return None;
        }
        Err(Stuck::StepCap) => {
            st.inconclusive("C04 conc: step cap reached");
            return None;
        }
    }
    // resolve the model from the results
    let mut model: Model = d.model.clone();
    let mut winners = 0;
    let mut conflicts = 0;
    let mut removed: Vec<u64> = vec![];
    for (i, op) in cc.ops.iter().enumerate() {
        match (op, ex.result(i).unwrap()) {
            (COp::Remove(id), CRes::Removed(true)) => removed.push(*id),
            (COp::Remove(_), CRes::Removed(false)) => {
                st.violation("C04/conc/release/remove_of_a_live_document_found_nothing", json!({"schedule": trace, "ops": describe(&ex)}));
                return None;
            }
            // the update lost the document to the removal: a valid order (remove, update)
            (COp::Update(id, _), CRes::Err(e)) if cc.release && *id == 1 && (e.contains("NotFound") || e.contains("not found")) => {
                st.count("release_update_after_remove");
            }
            (COp::Add(doc), CRes::Added(id)) => {
                winners += 1;
                let mut n = doc.clone();
                n._id = *id;
                if model.docs.insert(*id, n).is_some() {
                    st.violation("C04/conc/id_handed_out_twice", json!({"id": id, "schedule": trace, "ops": describe(&ex)}));
                    return None;
                }
            }
            (COp::Update(id, p), CRes::Updated) => {
                winners += 1;
                let n = apply_patch(&model.docs[id], p).unwrap();
                model.docs.insert(*id, n);
            }
            (_, CRes::Err(e)) => {
                if e.contains("AlreadyExists") || e.contains("already exists") {
                    conflicts += 1;
                } else {
                    st.violation("C04/conc/unexpected_error", json!({"error": e, "schedule": trace, "ops": describe(&ex)}));
                    return None;
                }
            }
            _ => {}
        }
    }
    for id in &removed {
        model.docs.remove(id);
    }
    if cc.release {
        st.count("release_races_run");
        // update and a fresh claim may both succeed here (update, remove, add is a valid order)
        winners = winners.min(1);
    }
    st.count(&format!("conc_winners:{winners}"));
    if winners > 1 {
        st.violation(format!("C04/conc/two_winners_for_one_value/{}", cc.what), json!({"schedule": trace, "ops": describe(&ex)}));
        return None;
    }
    if winners == 1 && conflicts >= 1 {
        st.count("concurrent_conflicts_with_exactly_one_winner");
    }
    let ops_desc = describe(&ex);
    drop(ex);
    let ctx = || json!({"monitor": "conc", "contested": cc.what, "schedule": trace, "ops": ops_desc, "cfg": format!("{:?}", cc.cfg)});
    // losers left no trace, the winner is fully indexed
    if !audit(&coll, &model, IndexSet::ALL, st, &AuditCtx { sig: "C04/conc/after_race", ctx: &ctx }).await {
        return None;
    }
    let bad = unique_owners(&coll, &model, IndexSet::ALL).await;
    if !bad.is_empty() {
        st.violation("C04/conc/value_with_two_owners", json!({"values": bad, "context": ctx()}));
        return None;
    }
    // the contested value is claimable once its owner is gone
    let owner = model.docs.iter().find(|(_, x)| x.uname == "contested" || x.codes.iter().any(|c| c == "contested") || (x.grp == "contested" && x.slot == 7)).map(|(i, _)| *i);
    if let Some(o) = owner {
        if coll.remove(o).await.map(|r| r.is_some()).unwrap_or(false) {
            model.docs.remove(&o);
        }
    }
    let mut claim = match &cc.ops[0] { COp::Add(d) => d.clone(), COp::Update(..) | COp::Remove(..) => { let mut x = cc.initial[0].clone(); x.uname = "contested".into(); x.codes = vec!["contested".into()]; x.grp = "contested".into(); x.slot = 7; x } };
    claim.uname = if cc.what == "uname" { "contested".into() } else { "claimer".into() };
    if cc.what == "codes" { claim.codes = vec!["contested".into()]; } else { claim.codes = vec!["claimer-code".into()]; }
    if cc.what == "grp-slot" { claim.grp = "contested".into(); claim.slot = 7; } else { claim.grp = "claimer".into(); }
    match coll.add_from(&claim).await {
        Ok(id) => {
            claim._id = id;
            model.docs.insert(id, claim);
            st.count("contested_value_claimed_after_release");
        }
        Err(e) => {
            st.violation(format!("C04/conc/released_value_not_claimable/{}", cc.what), json!({"error": format!("{e:?}"), "context": ctx()}));
            return None;
        }
    }
    if !audit(&coll, &model, IndexSet::ALL, st, &AuditCtx { sig: "C04/conc/after_claim", ctx: &ctx }).await {
        return None;
    }
    Some(trace)
}

fn brief(op: &COp) -> String {
    match op {
        COp::Add(d) => format!("add(uname={},codes={:?},grp={},slot={})", d.uname, d.codes, d.grp, d.slot),
        COp::Update(id, p) => format!("update({id},{:?})", p.keys().collect::<Vec<_>>()),
        COp::Remove(id) => format!("remove({id})"),
    }
}

fn conc_case(case: u64, rng: &mut Rng, st: &mut Stats, budget: u64, three: bool) {
    let cc = gen_conc(rng, three);
    block_on(async {
        let mut dfs = DfsChooser::new();
        let mut runs = 0u64;
        let mut exhausted = false;
        loop {
            dfs.begin_run();
            let Some(trace) = run_schedule(&cc, &mut dfs, st).await else { return };
            runs += 1;
            st.eval();
            st.count("schedules_run");
            st.set("distinct_schedules", vcore::hash_debug(&trace) ^ case.wrapping_mul(0x9e3779b97f4a7c15));
            st.max("max_schedule_len", trace.len() as u64);
            if !dfs.next_run() {
                exhausted = true;
                break;
            }
            if runs >= budget {
                break;
            }
        }
        st.count(if exhausted { "schedule_spaces_exhausted" } else { "schedule_spaces_truncated" });
        if !exhausted {
            let mut rc = RandChooser(rng.fork());
            for _ in 0..budget / 2 {
                let Some(trace) = run_schedule(&cc, &mut rc, st).await else { return };
                st.eval();
                st.count("schedules_run");
                st.set("distinct_schedules", vcore::hash_debug(&trace) ^ case.wrapping_mul(0x9e3779b97f4a7c15));
            }
        }
        st.distinct(vcore::fnv_str(&format!("{:?}", cc.ops.iter().map(brief).collect::<Vec<_>>())) ^ case);
        st.sample(|| json!({"monitor": "conc", "contested": cc.what, "ops": cc.ops.iter().map(brief).collect::<Vec<_>>(), "schedules": runs, "exhaustive": exhausted}));
    });
}

// ---------------------------------------------------------------------------------------------
// OS threads: writers on different threads contend for one value of a unique field. The async
// schedules above interleave at backend calls only; the index's own "check, then claim" window
// is synchronous code, which only real threads (with seeded yields at the verif hook points of
// the B-tree crate) can overlap.

fn threads_case(case: u64, rng: &mut Rng, st: &mut Stats, rounds: usize) {
    let cfg = Cfg { cache: rng.bool(), compress: 0, bucket: *rng.pick(&[64usize, 1 << 20]) };
    let n_threads = 2 + (case % 2) as usize;
    let store = Arc::new(object_store::memory::InMemory::new());
    let (coll, _db) = match block_on(async {
        let db = v_db::connect(store.clone(), &cfg).await?;
        let c = v_db::open_coll(&db, IndexSet::ALL).await?;
        Ok::<_, anda_db::error::DBError>((c, db))
    }) {
        Ok(x) => x,
        Err(e) => {
            st.inconclusive(format!("C04 threads: setup failed: {e:?}"));
            return;
        }
    };
    let mut model = Model::default();
    for round in 0..rounds {
        // which unique constraint is contested this round: scalar, array member (first / last of a
        // longer array), composite
        let kind = (round + case as usize) % 4;
        let v = format!("v{case}-{round}");
        let docs: Vec<FDoc> = (0..n_threads)
            .map(|t| {
                let mut d = gen_doc(rng, 1 << 40);
                d.uname = format!("own{case}-{round}-{t}");
                d.codes = (0..(3 + rng.usize(40))).map(|j| format!("p{case}-{round}-{t}-{j}")).collect();
                d.grp = format!("g{case}-{round}-{t}");
                d.slot = round as u64;
                match kind {
                    0 => d.uname = v.clone(),
                    1 => d.codes.insert(0, v.clone()),
                    2 => d.codes.push(v.clone()),
                    _ => {
                        d.grp = v.clone();
                        d.slot = 7;
                    }
                }
                d
            })
            .collect();
        let barrier = Arc::new(std::sync::Barrier::new(n_threads));
        let seed = rng.next_u64();
        let results: Vec<Result<u64, String>> = std::thread::scope(|s| {
            let hs: Vec<_> = docs
                .iter()
                .enumerate()
                .map(|(t, d)| {
                    let (coll, barrier, d) = (coll.clone(), barrier.clone(), d.clone());
                    s.spawn(move || {
                        vcore::sched::enable_stress(seed ^ ((t as u64) << 32), 2);
                        barrier.wait();
                        let r = block_on(async { coll.add_from(&d).await }).map_err(|e| format!("{e:?}"));
                        vcore::sched::disable_stress();
                        r
                    })
                })
                .collect();
            hs.into_iter().map(|h| h.join().unwrap_or_else(|_| Err("thread panicked".into()))).collect()
        });
        st.eval();
        st.count("thread_rounds");
        st.count(&format!("thread_round_kind_{kind}"));
        let winners: Vec<(usize, u64)> = results.iter().enumerate().filter_map(|(t, r)| r.as_ref().ok().map(|id| (t, *id))).collect();
        let contested = ["uname", "codes[0]", "codes[last]", "grp+slot"][kind];
        let ctx = |extra: serde_json::Value| json!({"case": case, "round": round, "contested": contested, "value": v,
            "threads": n_threads, "results": results.iter().map(|r| format!("{r:?}")).collect::<Vec<_>>(), "extra": extra});
        for (t, r) in results.iter().enumerate() {
            if let Err(e) = r {
                if !e.contains("AlreadyExists") {
                    st.violation("C04/threads/unexpected_error", ctx(json!({"thread": t, "error": e})));
                    return;
                }
            }
        }
        if winners.len() > 1 {
            st.violation("C04/threads/two_writers_acknowledged_for_one_unique_value", ctx(json!({"winners": winners})));
            return;
        }
        st.count(if winners.len() == 1 { "thread_rounds_with_one_winner" } else { "thread_rounds_with_no_winner" });
        for (t, id) in &winners {
            let mut d = docs[*t].clone();
            d._id = *id;
            model.docs.insert(*id, d);
        }
        // losers left no trace, the winner owns the value: full audit every few rounds
        if round % 8 == 7 || round + 1 == rounds {
            let ok = block_on(audit(&coll, &model, IndexSet::ALL, st, &AuditCtx { sig: "C04/threads/after_race", ctx: &|| ctx(json!(null)) }));
            st.count("thread_audits");
            if !ok {
                return;
            }
        }
    }
}

fn main() {
    // tasks are polled by hand in this binary: see vcore::run::use_plain_block_on
    vcore::run::use_plain_block_on();
    let mut run = Run::from_args(
        "C04",
        "exploration",
        "sequential: one evaluation = one operation of a high-contention history (3-5 distinct unique values) followed by the \
         full audit and the owner scan; concurrent: one evaluation = one schedule of 2-3 writers contending for one value; \
         crash: one evaluation = one crash point of a high-contention history. Non-trivial sequential history: rejected \
         operations of at least two classes; concurrent cases distinct by operation set",
    );
    run.assume("interleavings are controlled at backend calls (gated RecStore + manual polling); the index crates' in-lock re-checks are additionally exercised by C10's thread schedules");
    run.assume("with two writers contending for a free value the property allows zero winners; it is counted, only two winners are a violation");
    let t = run.tier;
    if run.wants("seq") {
        run.parallel("seq", t.pick(1500, 100000), 0.35, |c, rng, st| seq_case(c, rng, st, 30 + (c % 11) as usize));
    }
    if run.wants("conc") {
        run.parallel("conc2", t.pick(48, 2000), 0.4, |c, rng, st| conc_case(c, rng, st, t.pick(150, 1500), false));
        run.parallel("conc3", t.pick(16, 600), 0.5, |c, rng, st| conc_case(c, rng, st, t.pick(150, 1500), true));
    }
    if run.wants("threads") {
        anda_db_utils::verif::set_hook(Some(vcore::sched::hook));
        run.parallel("threads", t.pick(32, 1200), 0.3, |c, rng, st| threads_case(c, rng, st, t.pick(40, 120)));
        anda_db_utils::verif::set_hook(None);
    }
    if run.wants("crash") {
        v_db::crash::set_prefix("C04/crash");
        v_db::crash::set_contentions(&[3, 4, 5]);
        run.parallel("crash", t.pick(18, 600), 0.95, |c, rng, st| v_db::crash::case(c, rng, st, t));
    }
    run.floor("audits_after_rejected_write", 1000);
    run.floor("thread_rounds_with_one_winner", 500);
    run.floor("thread_audits", 50);
    for c in [Reject::Conflict, Reject::Schema, Reject::UnknownField, Reject::Missing, Reject::BadVector] {
        run.floor(&format!("rejected_class:{c:?}"), 20);
    }
    run.floor("multi_unique_field_updates_with_late_conflict", 100);
    run.floor("claims_of_just_released_values", 200);
    run.floor("schedules_run", 500);
    run.floor("concurrent_conflicts_with_exactly_one_winner", 200);
    run.floor("contested_value_claimed_after_release", 200);
    run.floor("release_races_run", 200);
    run.floor("crash_points_l1", 500);
    run.finish();
}

//! The C02 audit: bidirectional comparison of every index with the document model through the
//! public API only. Expectations are derived from the model by harness code that re-implements
//! the documented derivation (Null skip, array / map-key expansion, composite key = canonical
//! CBOR of each field value concatenated) without calling index code.

use crate::{DIM, FDoc, IndexSet, Model, OOV, VOCAB};
use anda_db::collection::Collection;
use anda_db::query::{Filter, RangeQuery};
use anda_db::schema::Fv;
use std::collections::{BTreeMap, BTreeSet};
use vcore::{Stats, Value, json};

type Ids = BTreeSet<u64>;

/// Comparable rendering of an index key.
fn key_repr(v: &Fv) -> String {
    match v {
        Fv::I64(x) => format!("n{x}"),
        Fv::U64(x) => format!("n{x}"),
        Fv::Text(s) => format!("t{s}"),
        Fv::Bytes(b) => format!("b{}", b.iter().map(|x| format!("{x:02x}")).collect::<String>()),
        other => format!("?{other:?}"),
    }
}

pub fn composite_key(grp: &str, slot: u64) -> Fv {
    let a = Fv::Text(grp.to_string());
    let b = Fv::U64(slot);
    let mut data = cbor2::to_canonical_vec(&Some(&a)).expect("cbor");
    data.extend(cbor2::to_canonical_vec(&Some(&b)).expect("cbor"));
    Fv::Bytes(data)
}

/// index name -> (key -> ids), derived from the model.
pub fn expected_btree(m: &Model) -> BTreeMap<&'static str, BTreeMap<String, (Fv, Ids)>> {
    let mut out: BTreeMap<&'static str, BTreeMap<String, (Fv, Ids)>> = BTreeMap::new();
    let mut put = |idx: &'static str, k: Fv, id: u64| {
        out.entry(idx)
            .or_default()
            .entry(key_repr(&k))
            .or_insert_with(|| (k, Ids::new()))
            .1
            .insert(id);
    };
    for (id, d) in &m.docs {
        put("uname", Fv::Text(d.uname.clone()), *id);
        put("age", Fv::U64(d.age), *id);
        if let Some(s) = d.score {
            put("score", Fv::I64(s), *id);
        }
        for t in &d.tags {
            put("tags", Fv::Text(t.clone()), *id);
        }
        for c in &d.codes {
            put("codes", Fv::Text(c.clone()), *id);
        }
        for k in d.attrs.keys() {
            put("attrs", Fv::Text(k.clone()), *id);
        }
        put("grp-slot", composite_key(&d.grp, d.slot), *id);
    }
    for n in ["uname", "age", "score", "tags", "codes", "attrs", "grp-slot"] {
        out.entry(n).or_default();
    }
    out
}

fn probe_keys(idx: &str) -> Vec<Fv> {
    match idx {
        "uname" => vec![Fv::Text("u-none".into()), Fv::Text("".into())],
        "age" => vec![Fv::U64(17), Fv::U64(u64::MAX - 1)],
        "score" => vec![Fv::I64(-999), Fv::I64(49), Fv::I64(i64::MAX)],
        "tags" => vec![Fv::Text("t9".into())],
        "codes" => vec![Fv::Text("c-none".into())],
        "attrs" => vec![Fv::Text("a9".into())],
        _ => vec![composite_key("g9", 0)],
    }
}

pub struct AuditCtx<'a> {
    pub sig: &'a str,
    pub ctx: &'a dyn Fn() -> Value,
}

/// Full audit. Returns false when a violation was recorded.
pub async fn audit(c: &Collection, m: &Model, set: IndexSet, st: &mut Stats, a: &AuditCtx<'_>) -> bool {
    let mut ok = true;
    let fail = |st: &mut Stats, what: &str, d: Value| {
        st.violation(format!("{}/{}", a.sig, what), json!({"what": d, "context": (a.ctx)()}));
    };
    st.count("audits");

    // ---- document side
    let ids: Vec<u64> = c.ids();
    let mids: Vec<u64> = m.docs.keys().copied().collect();
    if ids != mids {
        fail(st, "ids", json!({"ids": ids, "model": mids}));
        ok = false;
    }
    if c.len() != mids.len() {
        fail(st, "len", json!({"len": c.len(), "model": mids.len()}));
        ok = false;
    }
    let stats = c.stats();
    if stats.num_documents != mids.len() as u64 {
        fail(st, "stats.num_documents", json!({"num_documents": stats.num_documents, "model": mids.len()}));
        ok = false;
    }
    let top = m.max_id().max(c.max_document_id()).max(ids.last().copied().unwrap_or(0)) + 2;
    for id in 0..=top {
        let exp = m.docs.get(&id);
        if c.contains(id) != exp.is_some() {
            fail(st, "contains", json!({"id": id, "contains": c.contains(id)}));
            ok = false;
        }
        st.count("oracle_get");
        match (c.get_as::<FDoc>(id).await, exp) {
            (Ok(d), Some(e)) => {
                let mut e = e.clone();
                e._id = id;
                if d != e {
                    fail(st, "get_differs", json!({"id": id, "got": format!("{d:?}"), "expected": format!("{e:?}")}));
                    ok = false;
                }
            }
            (Err(_), None) => {}
            (Ok(d), None) => {
                fail(st, "get_phantom_document", json!({"id": id, "got": format!("{d:?}")}));
                ok = false;
            }
            (Err(e), Some(_)) => {
                fail(st, "get_missing_document", json!({"id": id, "error": format!("{e:?}")}));
                ok = false;
            }
        }
    }

    // ---- B-tree indexes
    let exp = expected_btree(m);
    for (flag, fields) in IndexSet::btree_list() {
        if !set.has(flag) {
            continue;
        }
        let name = fields.join("-");
        let e = &exp[name.as_str()];
        let mut keys: Vec<Fv> = e.values().map(|(k, _)| k.clone()).collect();
        keys.extend(probe_keys(&name));
        for k in keys {
            let want: Vec<u64> = e
                .get(&key_repr(&k))
                .map(|(_, s)| s.iter().copied().collect())
                .unwrap_or_default();
            let mut shapes = vec![k.clone()];
            if let Fv::I64(x) = k {
                if x >= 0 {
                    shapes.push(Fv::U64(x as u64)); // the generic read-back shape
                }
            }
            for q in shapes {
                st.count("oracle_btree_eq");
                match c
                    .query_all_ids(Filter::Field((name.clone(), RangeQuery::Eq(q.clone()))))
                    .await
                {
                    Ok(got) => {
                        if got != want {
                            fail(st, &format!("btree_eq/{name}"), json!({"key": format!("{q:?}"), "got": got, "expected": want}));
                            ok = false;
                        }
                    }
                    Err(err) => {
                        fail(st, &format!("btree_eq_error/{name}"), json!({"key": format!("{q:?}"), "error": format!("{err:?}")}));
                        ok = false;
                    }
                }
            }
        }
        // key listing: phantom keys (keys with no live document) and missing keys
        match c.get_btree_index(fields) {
            Ok(view) => {
                let got: BTreeSet<String> = view.keys(None, None).iter().map(key_repr).collect();
                let want: BTreeSet<String> = e.keys().cloned().collect();
                st.count("oracle_btree_keys");
                if got != want {
                    fail(st, &format!("btree_keys/{name}"), json!({
                        "phantom": got.difference(&want).collect::<Vec<_>>(),
                        "missing": want.difference(&got).collect::<Vec<_>>()}));
                    ok = false;
                }
                let unique = matches!(name.as_str(), "uname" | "codes" | "grp-slot");
                if unique == view.allow_duplicates() {
                    fail(st, &format!("btree_uniqueness_flag/{name}"), json!({"allow_duplicates": view.allow_duplicates()}));
                    ok = false;
                }
            }
            Err(err) => {
                fail(st, &format!("btree_view_missing/{name}"), json!(format!("{err:?}")));
                ok = false;
            }
        }
        // a full-range scan returns every document that has a value
        if name == "age" {
            st.count("oracle_btree_range");
            match c.query_all_ids(Filter::Field((name.clone(), RangeQuery::Ge(Fv::U64(0))))).await {
                Ok(got) if got == mids => {}
                Ok(got) => {
                    fail(st, "btree_full_range/age", json!({"got": got, "expected": mids}));
                    ok = false;
                }
                Err(err) => {
                    fail(st, "btree_full_range_error/age", json!(format!("{err:?}")));
                    ok = false;
                }
            }
        }
        if name == "score" {
            st.count("oracle_btree_range");
            let want: Vec<u64> = m.docs.iter().filter(|(_, d)| d.score.map(|s| s < 0).unwrap_or(false)).map(|(i, _)| *i).collect();
            match c.query_all_ids(Filter::Field((name.clone(), RangeQuery::Lt(Fv::I64(0))))).await {
                Ok(got) if got == want => {}
                Ok(got) => {
                    fail(st, "btree_range_lt0/score", json!({"got": got, "expected": want}));
                    ok = false;
                }
                Err(err) => {
                    fail(st, "btree_range_error/score", json!(format!("{err:?}")));
                    ok = false;
                }
            }
        }
    }

    // ---- BM25
    if set.has(IndexSet::BM25) {
        match c.get_bm25_index(&["body"]) {
            Ok(view) => {
                let n = m.docs.len();
                let doc_tokens: BTreeMap<u64, BTreeSet<String>> = m
                    .docs
                    .iter()
                    .map(|(id, d)| (*id, c.tokenize(&d.body).into_iter().collect()))
                    .collect();
                for w in VOCAB.iter().chain(OOV.iter()) {
                    let qt: BTreeSet<String> = c.tokenize(w).into_iter().collect();
                    let want: Ids = doc_tokens
                        .iter()
                        .filter(|(_, t)| qt.iter().any(|q| t.contains(q)))
                        .map(|(id, _)| *id)
                        .collect();
                    let res = view.search(w, n + 8, None);
                    let got: Ids = res.iter().map(|(id, _)| *id).collect();
                    st.count("oracle_bm25_term");
                    if got.len() != res.len() {
                        fail(st, "bm25_duplicate_ids", json!({"term": w, "result": format!("{res:?}")}));
                        ok = false;
                    }
                    if got != want {
                        fail(st, "bm25_term", json!({"term": w, "got": got, "expected": want}));
                        ok = false;
                    }
                    if res.iter().any(|(_, s)| !s.is_finite() || *s < 0.0) {
                        fail(st, "bm25_score_not_finite", json!({"term": w, "result": format!("{res:?}")}));
                        ok = false;
                    }
                }
                let want_n = doc_tokens.values().filter(|t| !t.is_empty()).count() as u64;
                let got_n = view.stats().num_elements;
                if got_n != want_n {
                    fail(st, "bm25_num_elements", json!({"got": got_n, "expected": want_n}));
                    ok = false;
                }
            }
            Err(err) => {
                fail(st, "bm25_view_missing", json!(format!("{err:?}")));
                ok = false;
            }
        }
    }

    // ---- HNSW
    if set.has(IndexSet::HNSW) {
        match c.get_hnsw_index("embedding") {
            Ok(view) => {
                let with_vec: Ids = m.docs.keys().copied().collect();
                let got_n = view.stats().num_elements;
                if got_n != with_vec.len() as u64 {
                    fail(st, "hnsw_num_elements", json!({"got": got_n, "expected": with_vec.len()}));
                    ok = false;
                }
                let k = with_vec.len() + 4;
                let mut queries: Vec<Vec<f32>> = m
                    .docs
                    .values()
                    .map(|d| &d.embedding)
                    .take(6)
                    .map(|v| v.iter().map(|x| x.to_f32()).collect())
                    .collect();
                queries.push(vec![0.25; DIM]);
                let mut seen = Ids::new();
                for q in queries {
                    let res = view.search(&q, k);
                    st.count("oracle_hnsw_search");
                    let got: Ids = res.iter().map(|(id, _)| *id).collect();
                    if got.len() != res.len() {
                        fail(st, "hnsw_duplicate_ids", json!({"result": format!("{res:?}")}));
                        ok = false;
                    }
                    let dead: Vec<u64> = got.difference(&with_vec).copied().collect();
                    if !dead.is_empty() {
                        fail(st, "hnsw_returns_dead_or_vectorless_id", json!({"ids": dead, "live_with_vector": with_vec}));
                        ok = false;
                    }
                    if res.windows(2).any(|w| w[0].1 > w[1].1) {
                        fail(st, "hnsw_not_distance_ordered", json!({"result": format!("{res:?}")}));
                        ok = false;
                    }
                    seen.extend(got);
                }
                // reachability is statistical in a graph index: counted, not asserted
                st.add("hnsw_ids_not_reached_by_any_query", with_vec.difference(&seen).count() as u64);
            }
            Err(err) => {
                fail(st, "hnsw_view_missing", json!(format!("{err:?}")));
                ok = false;
            }
        }
    }
    ok
}

/// Uniqueness as observed through the indexes: every unique value has at most one owner.
pub async fn unique_owners(c: &Collection, m: &Model, set: IndexSet) -> Vec<String> {
    let mut bad = vec![];
    let exp = expected_btree(m);
    for (flag, name) in [(IndexSet::UNAME, "uname"), (IndexSet::CODES, "codes"), (IndexSet::GRPSLOT, "grp-slot")] {
        if !set.has(flag) {
            continue;
        }
        for (k, _) in exp[name].values() {
            if let Ok(got) = c.query_all_ids(Filter::Field((name.to_string(), RangeQuery::Eq(k.clone())))).await {
                if got.len() > 1 {
                    bad.push(format!("{name}={k:?} owned by {got:?}"));
                }
            }
        }
    }
    bad
}

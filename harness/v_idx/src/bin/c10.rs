//! C10 - B-tree index equals an ordered multimap, across flush, crash and threads.
//! Monitors (DESIGN.md C10): sequential model comparison after every operation, flush crash
//! prefixes (incl. failed flush + retry, legacy manifest-less layout), controlled 2-3 thread
//! schedules at `verif_point!` hooks with a per-key linearizability check, hook-driven stress.

use anda_db_btree::{BTreeConfig, BTreeIndex, BucketObject, RangeQuery};
use serde::{Serialize, de::DeserializeOwned};
use std::collections::{BTreeMap, BTreeSet, HashMap};
use std::fmt::Debug;
use std::hash::Hash;
use std::sync::Arc;
use std::sync::atomic::{AtomicU64, Ordering};
use std::time::Duration;
use vcore::manual::{Chooser, DfsChooser, RandChooser, drive};
use vcore::sched::{SchedEnd, TurnSched};
use vcore::{Rng, Run, Stats, json};

// ---------------------------------------------------------------------------------------------
// key universes

trait Key: Ord + Eq + Hash + Clone + Debug + Serialize + DeserializeOwned + Send + Sync + 'static {
    fn universe() -> Vec<Self>;
    const NAME: &'static str;
}

impl Key for u64 {
    const NAME: &'static str = "u64";
    fn universe() -> Vec<u64> {
        // CBOR width boundaries (23/24, 255/256, 65535/65536) and the extremes
        vec![
            0, 1, 2, 5, 23, 24, 25, 100, 255, 256, 1000, 65535, 65536, 1 << 32, u64::MAX - 1,
            u64::MAX,
        ]
    }
}

impl Key for String {
    const NAME: &'static str = "String";
    fn universe() -> Vec<String> {
        [
            "", "a", "ab", "abc", "abd", "ab\u{10ffff}", "ab\u{10ffff}z", "b", "ba", "bb", "c",
            "ca", "cab", "d", "\u{e9}", "\u{4e2d}\u{6587}",
        ]
        .iter()
        .map(|s| s.to_string())
        .collect()
    }
}

const N_IDS: u64 = 40;

type Model<K> = BTreeMap<K, BTreeSet<u64>>;

#[derive(Clone, Debug)]
enum Op<K> {
    Insert(u64, K),
    Remove(u64, K),
    InsertArray(u64, Vec<K>),
    RemoveArray(u64, Vec<K>),
    BatchUpdate(u64, Vec<K>, Vec<K>),
    Compact,
    FlushReload,
}

fn gen_keys<K: Key>(rng: &mut Rng, uni: &[K], max: usize, dups: bool) -> Vec<K> {
    let n = rng.usize(max + 1);
    let mut v: Vec<K> = (0..n).map(|_| rng.pick(uni).clone()).collect();
    if !dups {
        let mut seen = BTreeSet::new();
        v.retain(|k| seen.insert(k.clone()));
    }
    v
}

fn gen_op<K: Key>(rng: &mut Rng, uni: &[K], model: &Model<K>, ids: u64) -> Op<K> {
    // bias towards existing pairs for removes
    let existing: Vec<(u64, K)> = model
        .iter()
        .flat_map(|(k, s)| s.iter().map(move |p| (*p, k.clone())))
        .collect();
    match rng.weighted(&[30, 18, 14, 10, 10, 6, 6]) {
        0 => Op::Insert(rng.below(ids), rng.pick(uni).clone()),
        1 => {
            if !existing.is_empty() && rng.chance(3, 4) {
                let (p, k) = rng.pick(&existing).clone();
                Op::Remove(p, k)
            } else {
                Op::Remove(rng.below(ids), rng.pick(uni).clone())
            }
        }
        2 => Op::InsertArray(rng.below(ids), gen_keys(rng, uni, 6, true)),
        3 => {
            if !existing.is_empty() && rng.chance(2, 3) {
                let (p, _) = rng.pick(&existing).clone();
                let mut ks: Vec<K> = existing
                    .iter()
                    .filter(|(q, _)| *q == p)
                    .map(|(_, k)| k.clone())
                    .collect();
                rng.shuffle(&mut ks);
                ks.truncate(1 + rng.usize(4));
                if rng.bool() {
                    ks.push(rng.pick(uni).clone());
                }
                Op::RemoveArray(p, ks)
            } else {
                Op::RemoveArray(rng.below(ids), gen_keys(rng, uni, 5, true))
            }
        }
        4 => {
            let p = if !existing.is_empty() && rng.chance(2, 3) {
                rng.pick(&existing).0
            } else {
                rng.below(ids)
            };
            // documented contract: old/new without duplicates; old = what the doc currently has
            let old: Vec<K> = existing
                .iter()
                .filter(|(q, _)| *q == p)
                .map(|(_, k)| k.clone())
                .collect();
            let new = gen_keys(rng, uni, 5, false);
            Op::BatchUpdate(p, old, new)
        }
        5 => Op::Compact,
        _ => Op::FlushReload,
    }
}

#[derive(Debug, Clone, PartialEq)]
enum Ret {
    Bool(bool),
    Count(usize),
    Pair(usize, usize),
    Err(String),
    Unit,
}

/// Sequential reference semantics.
fn model_apply<K: Key>(m: &mut Model<K>, unique: bool, op: &Op<K>) -> Ret {
    let conflict = |m: &Model<K>, pk: u64, k: &K| -> bool {
        unique && m.get(k).map(|s| !s.contains(&pk) && !s.is_empty()).unwrap_or(false)
    };
    match op {
        Op::Insert(pk, k) => {
            if conflict(m, *pk, k) {
                return Ret::Err("AlreadyExists".into());
            }
            Ret::Bool(m.entry(k.clone()).or_default().insert(*pk))
        }
        Op::Remove(pk, k) => {
            let mut removed = false;
            if let Some(s) = m.get_mut(k) {
                removed = s.remove(pk);
                if s.is_empty() {
                    m.remove(k);
                }
            }
            Ret::Bool(removed)
        }
        Op::InsertArray(pk, ks) => {
            if ks.iter().any(|k| conflict(m, *pk, k)) {
                return Ret::Err("AlreadyExists".into());
            }
            let mut n = 0;
            for k in ks {
                if m.entry(k.clone()).or_default().insert(*pk) {
                    n += 1;
                }
            }
            Ret::Count(n)
        }
        Op::RemoveArray(pk, ks) => {
            let mut n = 0;
            for k in ks {
                if let Some(s) = m.get_mut(k) {
                    if s.remove(pk) {
                        n += 1;
                    }
                    if s.is_empty() {
                        m.remove(k);
                    }
                }
            }
            Ret::Count(n)
        }
        Op::BatchUpdate(pk, old, new) => {
            let olds: BTreeSet<&K> = old.iter().collect();
            let news: BTreeSet<&K> = new.iter().collect();
            let to_insert: Vec<K> = news.difference(&olds).map(|k| (*k).clone()).collect();
            let to_remove: Vec<K> = olds.difference(&news).map(|k| (*k).clone()).collect();
            let mut ins = 0;
            if !to_insert.is_empty() {
                match model_apply(m, unique, &Op::InsertArray(*pk, to_insert)) {
                    Ret::Count(n) => ins = n,
                    e => return e,
                }
            }
            let mut rem = 0;
            if !to_remove.is_empty() {
                if let Ret::Count(n) = model_apply(m, unique, &Op::RemoveArray(*pk, to_remove)) {
                    rem = n;
                }
            }
            Ret::Pair(rem, ins)
        }
        Op::Compact | Op::FlushReload => Ret::Unit,
    }
}

fn index_apply<K: Key>(idx: &BTreeIndex<u64, K>, op: &Op<K>, now: u64) -> Ret {
    let e = |e: anda_db_btree::BTreeError| -> Ret {
        match e {
            anda_db_btree::BTreeError::AlreadyExists { .. } => Ret::Err("AlreadyExists".into()),
            other => Ret::Err(format!("{other:?}")),
        }
    };
    match op {
        Op::Insert(pk, k) => idx.insert(*pk, k.clone(), now).map(Ret::Bool).unwrap_or_else(e),
        Op::Remove(pk, k) => Ret::Bool(idx.remove(*pk, k.clone(), now)),
        Op::InsertArray(pk, ks) => idx
            .insert_array(*pk, ks.clone(), now)
            .map(Ret::Count)
            .unwrap_or_else(e),
        Op::RemoveArray(pk, ks) => Ret::Count(idx.remove_array(*pk, ks.clone(), now)),
        Op::BatchUpdate(pk, old, new) => idx
            .batch_update(*pk, old.clone(), new.clone(), now)
            .map(|(r, i)| Ret::Pair(r, i))
            .unwrap_or_else(e),
        Op::Compact => {
            idx.compact_buckets();
            Ret::Unit
        }
        Op::FlushReload => Ret::Unit,
    }
}

// ---------------------------------------------------------------------------------------------
// range query trees + reference evaluation

fn gen_query<K: Key>(rng: &mut Rng, uni: &[K], depth: usize) -> RangeQuery<K> {
    let leaf = depth == 0 || rng.chance(2, 5);
    if leaf {
        let k = rng.pick(uni).clone();
        match rng.below(7) {
            0 => RangeQuery::Eq(k),
            1 => RangeQuery::Gt(k),
            2 => RangeQuery::Ge(k),
            3 => RangeQuery::Lt(k),
            4 => RangeQuery::Le(k),
            5 => RangeQuery::Between(k, rng.pick(uni).clone()), // inverted ones included
            _ => RangeQuery::Include(gen_keys(rng, uni, 5, true)),
        }
    } else {
        match rng.below(3) {
            0 => RangeQuery::And(
                (0..rng.usize(4)).map(|_| Box::new(gen_query(rng, uni, depth - 1))).collect(),
            ),
            1 => RangeQuery::Or(
                (0..rng.usize(4)).map(|_| Box::new(gen_query(rng, uni, depth - 1))).collect(),
            ),
            _ => RangeQuery::Not(Box::new(gen_query(rng, uni, depth - 1))),
        }
    }
}

fn key_matches<K: Key>(k: &K, q: &RangeQuery<K>) -> bool {
    match q {
        RangeQuery::Eq(x) => k == x,
        RangeQuery::Gt(x) => k > x,
        RangeQuery::Ge(x) => k >= x,
        RangeQuery::Lt(x) => k < x,
        RangeQuery::Le(x) => k <= x,
        RangeQuery::Between(a, b) => a <= b && k >= a && k <= b,
        RangeQuery::Include(v) => v.contains(k),
        // documented: intersection / union of the sub-results; an empty And is empty
        RangeQuery::And(v) => !v.is_empty() && v.iter().all(|q| key_matches(k, q)),
        RangeQuery::Or(v) => v.iter().any(|q| key_matches(k, q)),
        RangeQuery::Not(q) => !key_matches(k, q),
    }
}

fn shape<K>(q: &RangeQuery<K>) -> String {
    match q {
        RangeQuery::Eq(_) => "Eq".into(),
        RangeQuery::Gt(_) => "Gt".into(),
        RangeQuery::Ge(_) => "Ge".into(),
        RangeQuery::Lt(_) => "Lt".into(),
        RangeQuery::Le(_) => "Le".into(),
        RangeQuery::Between(..) => "Btw".into(),
        RangeQuery::Include(v) => format!("Inc{}", v.len()),
        RangeQuery::And(v) => format!("And({})", v.iter().map(|q| shape(q)).collect::<Vec<_>>().join(",")),
        RangeQuery::Or(v) => format!("Or({})", v.iter().map(|q| shape(q)).collect::<Vec<_>>().join(",")),
        RangeQuery::Not(q) => format!("Not({})", shape(q)),
    }
}

// ---------------------------------------------------------------------------------------------
// audit: every public read API against the model

fn sorted(v: &[u64]) -> Vec<u64> {
    let mut v = v.to_vec();
    v.sort_unstable();
    v
}

fn audit<K: Key>(
    idx: &BTreeIndex<u64, K>,
    m: &Model<K>,
    uni: &[K],
    rng: &mut Rng,
    st: &mut Stats,
    n_queries: usize,
    ctx: &dyn Fn() -> serde_json::Value,
) -> bool {
    let mut ok = true;
    let fail = |st: &mut Stats, sig: &str, d: serde_json::Value| {
        st.violation(format!("C10/{}/{}", K::NAME, sig), json!({"what": d, "context": ctx()}));
    };
    if idx.len() != m.len() {
        fail(st, "len", json!({"len": idx.len(), "model": m.len()}));
        ok = false;
    }
    let keys = idx.keys(None, None);
    let mkeys: Vec<K> = m.keys().cloned().collect();
    if keys != mkeys {
        fail(st, "keys", json!({"keys": format!("{keys:?}"), "model": format!("{mkeys:?}")}));
        ok = false;
    }
    // cursor / limit pagination of keys()
    for _ in 0..3 {
        let cur = if rng.bool() { Some(rng.pick(uni).clone()) } else { None };
        let lim = if rng.bool() { Some(rng.usize(mkeys.len() + 2)) } else { None };
        let got = idx.keys(cur.clone(), lim);
        let mut exp: Vec<K> = mkeys
            .iter()
            .filter(|k| cur.as_ref().map(|c| *k > c).unwrap_or(true))
            .cloned()
            .collect();
        if let Some(l) = lim {
            exp.truncate(l);
        }
        st.count("oracle_keys_page");
        if got != exp {
            fail(st, "keys_page", json!({"cursor": format!("{cur:?}"), "limit": lim,
                "got": format!("{got:?}"), "expected": format!("{exp:?}")}));
            ok = false;
        }
    }
    // point queries over the whole universe (phantoms and holes)
    for k in uni {
        let got = idx.query_with(k, |ids| Some(sorted(ids)));
        let exp = m.get(k).map(|s| s.iter().copied().collect::<Vec<_>>());
        st.count("oracle_point_query");
        if got != exp {
            fail(st, "point_query", json!({"key": format!("{k:?}"), "got": got, "expected": exp}));
            ok = false;
        }
    }
    // range query trees, both directions, early stop at a random position + the full scan
    for _ in 0..n_queries {
        let q = gen_query(rng, uni, 3);
        let matching: Vec<&K> = m.keys().filter(|k| key_matches(*k, &q)).collect();
        let full: Vec<(K, Vec<u64>)> = matching
            .iter()
            .map(|k| ((*k).clone(), m[*k].iter().copied().collect()))
            .collect();
        st.set("query_shapes", vcore::fnv_str(&shape(&q)));
        let stops: Vec<Option<usize>> = if full.is_empty() {
            vec![None]
        } else {
            vec![None, Some(rng.usize(full.len())), Some(0)]
        };
        // what the callback emits: something for every key; for every second call only (a filtering
        // caller); nothing at all (a caller that collects through a side channel, as the collection
        // layer does). The stop signal and the visiting order do not depend on it: the keys the
        // callback was SHOWN are compared as well as the output.
        let emit_mode = rng.usize(3);
        for stop in stops {
            for rev in [false, true] {
                let mut calls = 0usize;
                let mut shown: Vec<K> = vec![];
                let cb = |k: &K, ids: &Vec<u64>| {
                    calls += 1;
                    shown.push(k.clone());
                    let cont = match stop {
                        None => true,
                        Some(p) => calls <= p,
                    };
                    let emit = match emit_mode {
                        0 => true,
                        1 => calls % 2 == 0,
                        _ => false,
                    };
                    (cont, if emit { vec![(k.clone(), sorted(ids))] } else { vec![] })
                };
                let got = if rev {
                    idx.range_query_rev_with(q.clone(), cb)
                } else {
                    idx.range_query_with(q.clone(), cb)
                };
                // the keys the scan visits, in visiting order
                let visited: Vec<(K, Vec<u64>)> = {
                    let mut v = full.clone();
                    if rev {
                        v.reverse();
                    }
                    if let Some(p) = stop {
                        v.truncate((p + 1).min(full.len()));
                    }
                    v
                };
                let emitted_in_visiting_order: Vec<(K, Vec<u64>)> = visited
                    .iter()
                    .enumerate()
                    .filter(|(i, _)| match emit_mode {
                        0 => true,
                        1 => (i + 1) % 2 == 0,
                        _ => false,
                    })
                    .map(|(_, x)| x.clone())
                    .collect();
                // the output of a descending scan is reported in ascending key order
                let exp: Vec<(K, Vec<u64>)> = {
                    let mut e = emitted_in_visiting_order;
                    if rev {
                        e.reverse();
                    }
                    e
                };
                st.count(if rev { "oracle_range_rev" } else { "oracle_range_fwd" });
                st.count(&format!("oracle_range_emit_mode_{emit_mode}"));
                if stop.is_some() {
                    st.count("oracle_range_early_stop");
                    if emit_mode != 0 {
                        st.count("oracle_range_early_stop_at_calls_without_output");
                    }
                }
                let shown_exp: Vec<K> = visited.iter().map(|(k, _)| k.clone()).collect();
                if shown != shown_exp {
                    fail(
                        st,
                        &format!("range_query{}/keys_shown_to_the_callback", if rev { "_rev" } else { "" }),
                        json!({"query": format!("{q:?}"), "stop_after": stop, "emit_mode": emit_mode,
                               "shown": format!("{shown:?}"), "expected": format!("{shown_exp:?}")}),
                    );
                    ok = false;
                }
                if got != exp {
                    fail(
                        st,
                        &format!("range_query{}", if rev { "_rev" } else { "" }),
                        json!({"query": format!("{q:?}"), "stop_after": stop, "emit_mode": emit_mode,
                               "got": format!("{got:?}"), "expected": format!("{exp:?}")}),
                    );
                    ok = false;
                }
            }
        }
    }
    #[allow(clippy::collapsible_if)]
    if let Err(e) = idx.verif_check_invariants() {
        fail(st, "invariant", json!(e));
        ok = false;
    }
    ok
}

fn audit_prefix(
    idx: &BTreeIndex<u64, String>,
    m: &Model<String>,
    rng: &mut Rng,
    st: &mut Stats,
    ctx: &dyn Fn() -> serde_json::Value,
) {
    for p in ["", "a", "ab", "abc", "ab\u{10ffff}", "b", "zz", "\u{4e2d}"] {
        let full: Vec<(String, Vec<u64>)> = m
            .iter()
            .filter(|(k, _)| k.starts_with(p))
            .map(|(k, s)| (k.clone(), s.iter().copied().collect()))
            .collect();
        let stop = if full.is_empty() || rng.bool() { None } else { Some(rng.usize(full.len())) };
        let mut calls = 0usize;
        let got = idx.prefix_query_with(p, |k, ids| {
            calls += 1;
            let cont = stop.map(|s| calls <= s).unwrap_or(true);
            (cont, Some((k.to_string(), sorted(ids))))
        });
        let exp = match stop {
            None => full.clone(),
            Some(s) => full[..(s + 1).min(full.len())].to_vec(),
        };
        st.count("oracle_prefix_query");
        if got != exp {
            st.violation(
                "C10/String/prefix_query",
                json!({"prefix": p, "stop_after": stop, "got": format!("{got:?}"),
                       "expected": format!("{exp:?}"), "context": ctx()}),
            );
        }
    }
}

// ---------------------------------------------------------------------------------------------
// persistence through the callback API, with a recorded write sequence

#[derive(Clone, Debug)]
enum Write {
    Bucket(BucketObject, Vec<u8>),
    Meta(Vec<u8>),
    Delete(BucketObject),
}

#[derive(Clone, Default)]
struct Disk {
    objects: HashMap<(u32, u64), Vec<u8>>,
    meta: Option<Vec<u8>>,
}

impl Disk {
    fn apply(&mut self, w: &Write) {
        match w {
            Write::Bucket(o, d) => {
                self.objects.insert((o.bucket_id, o.generation), d.clone());
            }
            Write::Meta(d) => self.meta = Some(d.clone()),
            Write::Delete(o) => {
                self.objects.remove(&(o.bucket_id, o.generation));
            }
        }
    }
}

/// Runs one flush against an in-memory recorder. `fail_at`: the i-th write (0-based, buckets
/// then metadata) returns an error instead of being stored.
fn flush_recorded<K: Key>(
    idx: &BTreeIndex<u64, K>,
    now: u64,
    fail_at: Option<usize>,
) -> (Result<bool, String>, Vec<Write>) {
    let (r, w, _) = flush_recorded_f(idx, now, fail_at);
    (r, w)
}

/// As `flush_recorded`; the third value tells whether the injected failure actually fired.
fn flush_recorded_f<K: Key>(
    idx: &BTreeIndex<u64, K>,
    now: u64,
    fail_at: Option<usize>,
) -> (Result<bool, String>, Vec<Write>, bool) {
    let log = std::cell::RefCell::new(Vec::<Write>::new());
    let n = std::cell::Cell::new(0usize);
    let fired = std::cell::Cell::new(false);
    let r = drive(idx.flush_owned_with(
        now,
        |data: Vec<u8>| {
            let i = n.get();
            n.set(i + 1);
            let failed = fail_at == Some(i);
            if failed {
                fired.set(true);
            }
            if !failed {
                log.borrow_mut().push(Write::Meta(data));
            }
            async move {
                if failed {
                    Err("injected metadata write failure".into())
                } else {
                    Ok(())
                }
            }
        },
        |obj: BucketObject, data: Vec<u8>| {
            let i = n.get();
            n.set(i + 1);
            let failed = fail_at == Some(i);
            if failed {
                fired.set(true);
            }
            if !failed {
                log.borrow_mut().push(Write::Bucket(obj, data));
            }
            async move {
                if failed {
                    Err("injected bucket write failure".into())
                } else {
                    Ok(())
                }
            }
        },
    ));
    let mut writes = log.into_inner();
    match r {
        Ok(out) => {
            // the documented caller duty: delete the replaced objects best-effort
            for o in &out.obsolete {
                writes.push(Write::Delete(*o));
            }
            (Ok(out.saved), writes, fired.get())
        }
        Err(e) => (Err(format!("{e:?}")), writes, fired.get()),
    }
}

fn load<K: Key>(disk: &Disk) -> Result<Option<BTreeIndex<u64, K>>, String> {
    let Some(meta) = &disk.meta else {
        return Ok(None);
    };
    let r = drive(BTreeIndex::<u64, K>::load_all(&meta[..], async |o: BucketObject| {
        Ok(disk.objects.get(&(o.bucket_id, o.generation)).cloned())
    }));
    r.map(Some).map_err(|e| format!("{e:?}"))
}

fn content<K: Key>(idx: &BTreeIndex<u64, K>) -> Model<K> {
    let mut m = Model::new();
    for k in idx.keys(None, None) {
        let ids = idx.query_with(&k, |ids| Some(ids.clone())).unwrap_or_default();
        m.insert(k, ids.into_iter().collect());
    }
    m
}

fn new_index<K: Key>(unique: bool, overload: usize) -> BTreeIndex<u64, K> {
    BTreeIndex::new(
        "c10".to_string(),
        Some(BTreeConfig {
            bucket_overload_size: overload,
            allow_duplicates: !unique,
        }),
    )
}

// ---------------------------------------------------------------------------------------------
// monitor 1+2: sequential histories with model comparison and flush crash prefixes

fn seq_case<K: Key>(case: u64, rng: &mut Rng, st: &mut Stats, n_ops: usize) {
    let uni = K::universe();
    let unique = rng.chance(1, 3);
    let overload = *rng.pick(&[64usize, 64, 96, 200, 1 << 19]);
    let legacy_start = rng.chance(1, 6);
    let ids = if unique { 6 } else { N_IDS };
    let mut idx: BTreeIndex<u64, K> = new_index(unique, overload);
    let mut model: Model<K> = Model::new();
    let mut disk = Disk::default();
    let mut committed: Model<K> = Model::new(); // model at the last committed flush
    let mut history: Vec<String> = vec![];
    let mut now = 1_000u64;
    let mut kinds = std::collections::HashSet::new();
    let mut n_rejected = 0;
    let mut n_flush = 0;

    for step in 0..n_ops {
        let op = if legacy_start && step == 8 {
            Op::FlushReload
        } else {
            gen_op(rng, &uni, &model, ids)
        };
        now += 1;
        history.push(format!("{op:?}"));
        let ctx_hist = history.clone();
        let ctx = move || {
            json!({"type": K::NAME, "unique": unique, "bucket_overload_size": overload,
                   "case": case, "history": ctx_hist})
        };
        kinds.insert(std::mem::discriminant(&op));
        match &op {
            Op::FlushReload => {
                n_flush += 1;
                // (a) optionally a failed flush first, then the retry must commit everything
                if rng.chance(1, 4) {
                    let (_, dry) = flush_recorded(&clone_probe(&idx, &disk, st), now, None);
                    let n_writes = dry.iter().filter(|w| !matches!(w, Write::Delete(_))).count();
                    if n_writes > 0 {
                        let at = rng.usize(n_writes);
                        let (r, writes, fired) = flush_recorded_f(&idx, now, Some(at));
                        for w in &writes {
                            disk.apply(w); // orphan objects of a failed generation stay behind
                        }
                        if fired {
                            st.count("flush_failed_injected");
                            if r.is_ok() {
                                st.violation(
                                    format!("C10/{}/flush_error_swallowed", K::NAME),
                                    json!({"fail_at": at, "context": ctx()}),
                                );
                            }
                            // what is on disk must still load as the previous commit
                            check_loaded(&disk, &committed, "after_failed_flush", st, &ctx);
                        } else if writes.iter().any(|w| matches!(w, Write::Meta(_))) {
                            // the probe over-estimated the write count: this was a normal flush
                            committed = model.clone();
                        }
                    }
                }
                // (b) the real flush, recorded; every prefix of its write sequence is a crash state
                let before = disk.clone();
                let (r, writes) = flush_recorded(&idx, now, None);
                if let Err(e) = &r {
                    st.violation(
                        format!("C10/{}/flush_failed", K::NAME),
                        json!({"error": e, "context": ctx()}),
                    );
                    return;
                }
                let commit_pos = writes.iter().position(|w| matches!(w, Write::Meta(_)));
                for j in 0..=writes.len() {
                    let mut d = before.clone();
                    for w in &writes[..j] {
                        d.apply(w);
                    }
                    let expect = match commit_pos {
                        Some(c) if j > c => &model,
                        _ => &committed,
                    };
                    st.count("flush_crash_prefixes");
                    st.count(match commit_pos {
                        Some(c) if j > c => "crash_prefix_after_commit",
                        Some(c) if j == c => "crash_prefix_at_commit",
                        _ => "crash_prefix_before_commit",
                    });
                    let loaded = check_loaded(&d, expect, "crash_prefix", st, &|| {
                        let mut c = ctx();
                        c["crash_prefix"] = json!(j);
                        c["writes"] = json!(writes.iter().map(describe_write).collect::<Vec<_>>());
                        c
                    });
                    // the recovered index must keep working: a few ops, flush, reload, compare
                    if let Some(loaded) = loaded {
                        if rng.chance(1, 3) {
                            let mut m2 = expect.clone();
                            let mut d2 = d.clone();
                            for _ in 0..4 {
                                let op2 = gen_op(rng, &uni, &m2, ids);
                                if matches!(op2, Op::FlushReload) {
                                    continue;
                                }
                                let a = index_apply(&loaded, &op2, now);
                                let b = model_apply(&mut m2, unique, &op2);
                                if a != b {
                                    st.violation(
                                        format!("C10/{}/op_after_recovery", K::NAME),
                                        json!({"op": format!("{op2:?}"), "got": format!("{a:?}"),
                                               "expected": format!("{b:?}"), "crash_prefix": j,
                                               "context": ctx()}),
                                    );
                                }
                            }
                            let (r2, w2) = flush_recorded(&loaded, now + 1, None);
                            if r2.is_ok() {
                                for w in &w2 {
                                    d2.apply(w);
                                }
                                check_loaded(&d2, &m2, "continue_after_recovery", st, &|| {
                                    let mut c = ctx();
                                    c["crash_prefix"] = json!(j);
                                    c
                                });
                                st.count("recovered_index_continued");
                            }
                        }
                    }
                }
                for w in &writes {
                    disk.apply(w);
                }
                if commit_pos.is_some() {
                    committed = model.clone();
                }
                if legacy_start && step == 8 {
                    // rewrite what is on disk into the pre-manifest layout: objects at generation
                    // 0 and metadata without a manifest
                    if let Some(d) = to_legacy(&disk) {
                        disk = d;
                        st.count("legacy_layout_seeded");
                    }
                }
                // reload and continue on the reloaded instance
                match load::<K>(&disk) {
                    Ok(Some(i)) => idx = i,
                    Ok(None) => {}
                    Err(e) => {
                        st.violation(
                            format!("C10/{}/reload_failed", K::NAME),
                            json!({"error": e, "context": ctx()}),
                        );
                        return;
                    }
                }
            }
            _ => {
                let got = index_apply(&idx, &op, now);
                let exp = model_apply(&mut model, unique, &op);
                st.count("ops_applied");
                if matches!(exp, Ret::Err(_)) {
                    n_rejected += 1;
                    st.count("ops_rejected_unique");
                }
                if got != exp {
                    st.violation(
                        format!("C10/{}/return_value", K::NAME),
                        json!({"op": format!("{op:?}"), "got": format!("{got:?}"),
                               "expected": format!("{exp:?}"), "context": ctx()}),
                    );
                    return;
                }
            }
        }
        let nq = if step % 4 == 0 { 3 } else { 1 };
        if !audit(&idx, &model, &uni, rng, st, nq, &ctx) {
            return;
        }
        st.eval();
    }
    let _ = n_rejected;
    if kinds.len() >= 5 && n_flush >= 1 {
        st.distinct(vcore::fnv_str(&history.join(";")));
    }
    st.sample(|| json!({"monitor": "sequential+crash_prefixes", "type": K::NAME, "unique": unique,
        "bucket_overload_size": overload, "ops": history.iter().take(12).collect::<Vec<_>>()}));
}

/// A throw-away copy of the index state (through a full flush into a scratch disk) used to
/// learn how many writes the next flush will issue without disturbing the index under test.
fn clone_probe<K: Key>(idx: &BTreeIndex<u64, K>, _disk: &Disk, _st: &mut Stats) -> BTreeIndex<u64, K> {
    // rebuild an equivalent index from the public content; its flush writes at least as many
    // objects as there are buckets, which is all the caller needs (an upper bound would do).
    let fresh: BTreeIndex<u64, K> = BTreeIndex::new("probe".into(), Some(idx.metadata().config));
    for (k, ids) in content(idx) {
        for id in ids {
            let _ = fresh.insert(id, k.clone(), 1);
        }
    }
    fresh
}

fn describe_write(w: &Write) -> String {
    match w {
        Write::Bucket(o, d) => format!("bucket {}@{} ({}B)", o.bucket_id, o.generation, d.len()),
        Write::Meta(d) => format!("metadata ({}B)", d.len()),
        Write::Delete(o) => format!("delete {}@{}", o.bucket_id, o.generation),
    }
}

fn check_loaded<K: Key>(
    disk: &Disk,
    expect: &Model<K>,
    what: &str,
    st: &mut Stats,
    ctx: &dyn Fn() -> serde_json::Value,
) -> Option<BTreeIndex<u64, K>> {
    match load::<K>(disk) {
        Ok(None) => {
            if !expect.is_empty() {
                st.violation(
                    format!("C10/{}/{what}/no_metadata", K::NAME),
                    json!({"expected": format!("{expect:?}"), "context": ctx()}),
                );
            }
            None
        }
        Err(e) => {
            st.violation(
                format!("C10/{}/{what}/load_error", K::NAME),
                json!({"error": e, "context": ctx()}),
            );
            None
        }
        Ok(Some(idx)) => {
            let got = content(&idx);
            if &got != expect {
                st.violation(
                    format!("C10/{}/{what}/content", K::NAME),
                    json!({"loaded": format!("{got:?}"), "expected": format!("{expect:?}"),
                           "context": ctx()}),
                );
                return None;
            }
            if let Err(e) = idx.verif_check_invariants() {
                st.violation(
                    format!("C10/{}/{what}/invariant", K::NAME),
                    json!({"error": e, "context": ctx()}),
                );
                return None;
            }
            Some(idx)
        }
    }
}

#[derive(serde::Serialize, serde::Deserialize)]
struct MetaDoc {
    metadata: anda_db_btree::BTreeMetadata,
}

/// Converts a manifest layout into the pre-manifest one (generation 0 objects, empty manifest).
fn to_legacy(disk: &Disk) -> Option<Disk> {
    let meta = disk.meta.as_ref()?;
    let mut doc: MetaDoc = cbor2::from_reader(&meta[..]).ok()?;
    let mut out = Disk::default();
    for (id, generation) in &doc.metadata.buckets {
        let data = disk.objects.get(&(*id, *generation))?;
        out.objects.insert((*id, 0), data.clone());
    }
    doc.metadata.buckets.clear();
    let mut buf = vec![];
    cbor2::to_writer(&doc, &mut buf).ok()?;
    out.meta = Some(buf);
    Some(out)
}

// ---------------------------------------------------------------------------------------------
// monitor 3: controlled thread schedules at verif points + per-key linearizability

#[derive(Clone, Debug)]
struct Rec {
    thread: usize,
    op: Op<u64>,
    call: u64,
    ret: u64,
    result: Ret,
}

/// effect of one recorded op on one key: Some(true) = adds pk, Some(false) = removes pk
#[derive(Clone, Debug)]
struct KeyEv {
    call: u64,
    ret: u64,
    pk: u64,
    add: bool,
    /// known per-key outcome (single-key ops), else None
    outcome: Option<Result<bool, ()>>,
    /// the op may or may not have been applied to this key (array op that failed midway)
    maybe: bool,
}

fn key_events(recs: &[Rec], key: u64) -> Vec<KeyEv> {
    let mut v = vec![];
    for r in recs {
        let mut push = |pk: u64, add: bool, outcome: Option<Result<bool, ()>>, maybe: bool| {
            v.push(KeyEv { call: r.call, ret: r.ret, pk, add, outcome, maybe })
        };
        match (&r.op, &r.result) {
            (Op::Insert(pk, k), res) if *k == key => match res {
                Ret::Bool(b) => push(*pk, true, Some(Ok(*b)), false),
                Ret::Err(_) => push(*pk, true, Some(Err(())), false),
                _ => {}
            },
            (Op::Remove(pk, k), Ret::Bool(b)) if *k == key => push(*pk, false, Some(Ok(*b)), false),
            (Op::InsertArray(pk, ks), res) if ks.contains(&key) => {
                push(*pk, true, None, matches!(res, Ret::Err(_)))
            }
            (Op::RemoveArray(pk, ks), _) if ks.contains(&key) => push(*pk, false, None, false),
            _ => {}
        }
    }
    v
}

/// Wing-Gong search over one key's sub-history. State = set of pks owning the key.
fn linearizable(
    evs: &[KeyEv],
    unique: bool,
    init: &BTreeSet<u64>,
    fin: &BTreeSet<u64>,
) -> bool {
    fn rec(
        evs: &[KeyEv],
        done: u32,
        state: &BTreeSet<u64>,
        unique: bool,
        fin: &BTreeSet<u64>,
        memo: &mut std::collections::HashSet<(u32, Vec<u64>)>,
    ) -> bool {
        if done.count_ones() as usize == evs.len() {
            return state == fin;
        }
        let key = (done, state.iter().copied().collect::<Vec<_>>());
        if !memo.insert(key) {
            return false;
        }
        // an op may be linearized next iff no other pending op returned before it was called
        let min_ret = evs
            .iter()
            .enumerate()
            .filter(|(i, _)| done & (1 << i) == 0)
            .map(|(_, e)| e.ret)
            .min()
            .unwrap();
        for (i, e) in evs.iter().enumerate() {
            if done & (1 << i) != 0 || e.call > min_ret {
                continue;
            }
            let mut outs: Vec<BTreeSet<u64>> = vec![];
            if e.add {
                let conflict = unique && !state.is_empty() && !state.contains(&e.pk);
                let newly = !state.contains(&e.pk);
                let applied = |s: &BTreeSet<u64>| {
                    let mut s = s.clone();
                    s.insert(e.pk);
                    s
                };
                match e.outcome {
                    Some(Ok(b)) => {
                        if !conflict && b == newly {
                            outs.push(applied(state));
                        }
                    }
                    Some(Err(())) => {
                        // A uniqueness rejection is explained by another owner, or by a remove
                        // of this key that overlaps the insert: while that remove is between
                        // "posting emptied" and "posting dropped" the key still has a (empty)
                        // posting and the index answers AlreadyExists. Nothing is lost or
                        // duplicated by that answer, which is all the property demands; the
                        // first version of this checker demanded a strictly linearizable
                        // return value and raised a false alarm on exactly this window.
                        let overlapping_remove = evs.iter().any(|r| !r.add && r.call < e.ret && e.call < r.ret);
                        if conflict || overlapping_remove {
                            outs.push(state.clone());
                        }
                    }
                    None => {
                        if e.maybe {
                            // failed array insert: this key was rejected or not reached (no
                            // change), or applied before the failure
                            outs.push(state.clone());
                            if !conflict {
                                outs.push(applied(state));
                            }
                        } else if !conflict {
                            outs.push(applied(state));
                        }
                    }
                }
            } else {
                let present = state.contains(&e.pk);
                let mut s = state.clone();
                s.remove(&e.pk);
                match e.outcome {
                    Some(Ok(b)) => {
                        if b == present {
                            outs.push(s);
                        }
                    }
                    _ => outs.push(s),
                }
            }
            for s in outs {
                if rec(evs, done | (1 << i), &s, unique, fin, memo) {
                    return true;
                }
            }
        }
        false
    }
    if evs.len() > 24 {
        return true; // out of the checker's bound (never generated here)
    }
    let mut memo = std::collections::HashSet::new();
    rec(evs, 0, init, unique, fin, &mut memo)
}

fn gen_script(rng: &mut Rng, keys: &[u64], pks: &[u64], len: usize, with_compact: bool) -> Vec<Op<u64>> {
    (0..len)
        .map(|_| match rng.weighted(&[30, 30, 14, 10, if with_compact { 12 } else { 0 }]) {
            0 => Op::Insert(*rng.pick(pks), *rng.pick(keys)),
            1 => Op::Remove(*rng.pick(pks), *rng.pick(keys)),
            2 => {
                let mut ks: Vec<u64> = (0..1 + rng.usize(3)).map(|_| *rng.pick(keys)).collect();
                ks.sort_unstable();
                ks.dedup();
                Op::InsertArray(*rng.pick(pks), ks)
            }
            3 => {
                let mut ks: Vec<u64> = (0..1 + rng.usize(3)).map(|_| *rng.pick(keys)).collect();
                ks.sort_unstable();
                ks.dedup();
                Op::RemoveArray(*rng.pick(pks), ks)
            }
            _ => Op::Compact,
        })
        .collect()
}

struct SchedOutcome {
    recs: Vec<Rec>,
    trace: Vec<(u8, &'static str)>,
    end: SchedEnd,
    fin: Model<u64>,
    invariant: Result<(), String>,
    reload: Result<Model<u64>, String>,
    concurrent_reads: u64,
    read_phantoms: Vec<String>,
}

fn run_scripts(
    scripts: &[Vec<Op<u64>>],
    prefill: &[(u64, u64)],
    unique: bool,
    chooser: &mut dyn Chooser,
    stress_seed: Option<u64>,
) -> SchedOutcome {
    let idx: Arc<BTreeIndex<u64, u64>> = Arc::new(new_index(unique, 64));
    for (pk, k) in prefill {
        let _ = idx.insert(*pk, *k, 1);
    }
    let clock = Arc::new(AtomicU64::new(1));
    let sched = TurnSched::new(scripts.len());
    let recs: Arc<std::sync::Mutex<Vec<Rec>>> = Arc::new(std::sync::Mutex::new(vec![]));
    let mut trace = vec![];
    let mut end = SchedEnd::AllFinished;
    // stress mode: one more thread reads (point, key listing, both scan directions) while the
    // writers run. Judged with the only schedule-independent read oracle: no phantom - every
    // (key, pk) a read delivers was inserted by somebody (prefill or some script).
    let possible: BTreeSet<(u64, u64)> = prefill
        .iter()
        .map(|(pk, k)| (*k, *pk))
        .chain(scripts.iter().flatten().flat_map(|op| match op {
            Op::Insert(pk, k) => vec![(*k, *pk)],
            Op::InsertArray(pk, ks) => ks.iter().map(|k| (*k, *pk)).collect(),
            Op::BatchUpdate(pk, _, add) => add.iter().map(|k| (*k, *pk)).collect(),
            _ => vec![],
        }))
        .collect();
    let writers_done = Arc::new(AtomicU64::new(0));
    let reader_out: Arc<std::sync::Mutex<(u64, Vec<String>)>> = Arc::new(std::sync::Mutex::new((0, vec![])));
    std::thread::scope(|s| {
        if stress_seed.is_some() {
            let (idx, writers_done, reader_out, possible, n_writers) = (idx.clone(), writers_done.clone(), reader_out.clone(), &possible, scripts.len() as u64);
            s.spawn(move || {
                let mut reads = 0u64;
                let mut phantoms = vec![];
                let mut round = 0u64;
                loop {
                    let finished = writers_done.load(Ordering::SeqCst) >= n_writers;
                    let mut seen: Vec<(u64, u64)> = vec![];
                    match round % 4 {
                        0 => {
                            for k in idx.keys(None, None) {
                                if let Some(ids) = idx.query_with(&k, |ids| Some(ids.clone())) {
                                    seen.extend(ids.into_iter().map(|pk| (k, pk)));
                                }
                            }
                        }
                        1 => {
                            let _ = idx.range_query_with(RangeQuery::Ge(0u64), |k: &u64, ids: &Vec<u64>| {
                                seen.extend(ids.iter().map(|pk| (*k, *pk)));
                                (true, Vec::<()>::new())
                            });
                        }
                        2 => {
                            let _ = idx.range_query_rev_with(RangeQuery::Le(u64::MAX), |k: &u64, ids: &Vec<u64>| {
                                seen.extend(ids.iter().map(|pk| (*k, *pk)));
                                (true, Vec::<()>::new())
                            });
                        }
                        _ => {
                            for k in [1u64, 2, 3, 4, 5, 6, 10_000, 20_000] {
                                if let Some(ids) = idx.query_with(&k, |ids| Some(ids.clone())) {
                                    seen.extend(ids.into_iter().map(|pk| (k, pk)));
                                }
                            }
                        }
                    }
                    reads += 1;
                    for kp in seen {
                        if !possible.contains(&kp) && phantoms.len() < 3 {
                            phantoms.push(format!("read kind {} delivered key {} -> pk {} which no operation ever inserted", round % 4, kp.0, kp.1));
                        }
                    }
                    round += 1;
                    if finished {
                        break;
                    }
                    std::thread::yield_now();
                }
                *reader_out.lock().unwrap() = (reads, phantoms);
            });
        }
        for (t, script) in scripts.iter().enumerate() {
            let (idx, clock, sched, recs, writers_done) = (idx.clone(), clock.clone(), sched.clone(), recs.clone(), writers_done.clone());
            s.spawn(move || {
                if let Some(seed) = stress_seed {
                    vcore::sched::enable_stress(seed ^ (t as u64) << 8, 2);
                } else {
                    sched.register(t);
                }
                for op in script {
                    let call = clock.fetch_add(1, Ordering::SeqCst);
                    let result = index_apply(&idx, op, 2);
                    let ret = clock.fetch_add(1, Ordering::SeqCst);
                    recs.lock().unwrap().push(Rec { thread: t, op: op.clone(), call, ret, result });
                }
                if stress_seed.is_some() {
                    vcore::sched::disable_stress();
                } else {
                    sched.finish(t);
                }
                writers_done.fetch_add(1, Ordering::SeqCst);
            });
        }
        if stress_seed.is_none() {
            let (e, tr) = sched.control(chooser, Duration::from_millis(2), Duration::from_secs(20));
            end = e;
            trace = tr;
        }
    });
    let fin = content(&idx);
    let invariant = idx.verif_check_invariants();
    // persistence sees exactly the in-memory content (nothing lost by a concurrent compaction)
    let (r, writes) = flush_recorded(&*idx, 3, None);
    let reload = match r {
        Err(e) => Err(e),
        Ok(_) => {
            let mut d = Disk::default();
            for w in &writes {
                d.apply(w);
            }
            match load::<u64>(&d) {
                Ok(Some(i)) => Ok(content(&i)),
                Ok(None) => Ok(Model::new()),
                Err(e) => Err(e),
            }
        }
    };
    let recs = recs.lock().unwrap().clone();
    let (concurrent_reads, read_phantoms) = reader_out.lock().unwrap().clone();
    SchedOutcome { recs, trace, end, fin, invariant, reload, concurrent_reads, read_phantoms }
}

fn judge_concurrent(
    out: &SchedOutcome,
    scripts: &[Vec<Op<u64>>],
    prefill: &[(u64, u64)],
    keys: &[u64],
    unique: bool,
    mode: &str,
    st: &mut Stats,
) {
    let ctx = || {
        json!({"mode": mode, "unique": unique, "prefill": prefill,
               "scripts": scripts.iter().map(|s| s.iter().map(|o| format!("{o:?}")).collect::<Vec<_>>()).collect::<Vec<_>>(),
               "history": out.recs.iter().map(|r| format!("t{} [{}..{}] {:?} -> {:?}", r.thread, r.call, r.ret, r.op, r.result)).collect::<Vec<_>>(),
               "hook_trace": out.trace.iter().map(|(t, g)| format!("t{t}:{g}")).collect::<Vec<_>>(),
               "final": format!("{:?}", out.fin)})
    };
    if out.end == SchedEnd::Watchdog {
        st.inconclusive("C10 thread schedule: watchdog fired (threads neither parked nor finished)");
        return;
    }
    if let Err(e) = &out.invariant {
        st.violation("C10/concurrent/invariant", json!({"error": e, "context": ctx()}));
    }
    st.add("concurrent_reads_during_stress", out.concurrent_reads);
    if !out.read_phantoms.is_empty() {
        st.violation("C10/concurrent/read_delivered_a_pair_nobody_inserted", json!({"phantoms": out.read_phantoms, "context": ctx()}));
    }
    match &out.reload {
        Err(e) => st.violation("C10/concurrent/flush_reload_error", json!({"error": e, "context": ctx()})),
        Ok(m) if m != &out.fin => st.violation(
            "C10/concurrent/flush_loses_or_adds",
            json!({"reloaded": format!("{m:?}"), "context": ctx()}),
        ),
        _ => {}
    }
    for k in keys {
        let init: BTreeSet<u64> = prefill.iter().filter(|(_, kk)| kk == k).map(|(p, _)| *p).collect();
        let fin = out.fin.get(k).cloned().unwrap_or_default();
        if unique && fin.len() > 1 {
            st.violation("C10/concurrent/unique_violated", json!({"key": k, "owners": fin, "context": ctx()}));
        }
        let evs = key_events(&out.recs, *k);
        st.count("linearizability_checks");
        if !linearizable(&evs, unique, &init, &fin) {
            st.violation(
                "C10/concurrent/not_linearizable",
                json!({"key": k, "initial": init, "final": fin,
                       "events": evs.iter().map(|e| format!("{e:?}")).collect::<Vec<_>>(), "context": ctx()}),
            );
        }
    }
}

fn sched_case(case: u64, rng: &mut Rng, st: &mut Stats, budget_runs: u64, three: bool) {
    let keys: Vec<u64> = vec![1, 2, 3];
    let pks: Vec<u64> = vec![1, 2, 3];
    let unique = rng.chance(1, 3);
    let n_threads = if three { 3 } else { 2 };
    let len = if three { 2 } else { 3 };
    let mut scripts: Vec<Vec<Op<u64>>> =
        (0..n_threads).map(|_| gen_script(rng, &keys, &pks, len, true)).collect();
    if rng.chance(1, 2) {
        // make sure a compaction races mutations in half of the cases
        let t = rng.usize(n_threads);
        let pos = rng.usize(scripts[t].len());
        scripts[t][pos] = Op::Compact;
    }
    // prefill so that buckets exist and compaction has something to rebuild (> 1 bucket)
    let mut prefill: Vec<(u64, u64)> = vec![];
    for k in 10..22u64 {
        prefill.push((100 + k, k * 1000));
    }
    for k in &keys {
        if rng.bool() {
            prefill.push((*rng.pick(&pks), *k));
        }
    }
    let mut all_keys = keys.clone();
    all_keys.extend((10..22u64).map(|k| k * 1000));
    let mut dfs = DfsChooser::new();
    let mut runs = 0;
    let mut exhausted = false;
    loop {
        dfs.begin_run();
        let out = run_scripts(&scripts, &prefill, unique, &mut dfs, None);
        runs += 1;
        st.eval();
        st.count("schedules_run");
        let h = vcore::hash_debug(&out.trace);
        st.set("distinct_hook_interleavings", h ^ case.wrapping_mul(0x9e3779b97f4a7c15));
        for (_, tag) in &out.trace {
            st.count(&format!("tag:{tag}"));
        }
        st.max("max_schedule_len", out.trace.len() as u64);
        judge_concurrent(&out, &scripts, &prefill, &all_keys, unique, "S-hook/DFS", st);
        if !st.violations.is_empty() {
            break;
        }
        if !dfs.next_run() {
            exhausted = true;
            break;
        }
        if runs >= budget_runs {
            break;
        }
    }
    st.count(if exhausted { "schedule_spaces_exhausted" } else { "schedule_spaces_truncated" });
    if !exhausted {
        // top up with random schedules over the same scripts
        let mut rc = RandChooser(rng.fork());
        for _ in 0..budget_runs / 4 {
            let out = run_scripts(&scripts, &prefill, unique, &mut rc, None);
            st.eval();
            st.count("schedules_run");
            st.set("distinct_hook_interleavings", vcore::hash_debug(&out.trace) ^ case.wrapping_mul(0x9e3779b97f4a7c15));
            judge_concurrent(&out, &scripts, &prefill, &all_keys, unique, "S-hook/random", st);
        }
    }
    st.distinct(vcore::hash_debug(&scripts));
    st.sample(|| json!({"monitor": "thread_schedules", "threads": n_threads, "unique": unique,
        "scripts": scripts.iter().map(|s| s.iter().map(|o| format!("{o:?}")).collect::<Vec<_>>()).collect::<Vec<_>>(),
        "schedules": runs, "exhaustive": exhausted}));
}

fn stress_case(_case: u64, rng: &mut Rng, st: &mut Stats, ops_per_thread: usize) {
    let keys: Vec<u64> = (1..=6).collect();
    let pks: Vec<u64> = (1..=4).collect();
    let unique = rng.chance(1, 3);
    let scripts: Vec<Vec<Op<u64>>> = (0..4).map(|_| gen_script(rng, &keys, &pks, ops_per_thread, true)).collect();
    let prefill: Vec<(u64, u64)> = (10..30u64).map(|k| (100 + k, k * 1000)).collect();
    let mut all_keys = keys.clone();
    all_keys.extend((10..30u64).map(|k| k * 1000));
    let mut dummy = DfsChooser::new();
    let out = run_scripts(&scripts, &prefill, unique, &mut dummy, Some(rng.next_u64()));
    st.eval();
    st.count("stress_runs");
    st.add("stress_ops", (4 * ops_per_thread) as u64);
    // per-key histories can exceed the checker bound; judge_concurrent skips those keys
    judge_concurrent(&out, &scripts, &prefill, &all_keys, unique, "stress", st);
}

// ---------------------------------------------------------------------------------------------

fn main() {
    // tasks are polled by hand in this binary: see vcore::run::use_plain_block_on
    vcore::run::use_plain_block_on();
    let mut run = Run::from_args(
        "C10",
        "exploration",
        "seeded operation histories over 16 keys x 40 ids with bucket_overload_size at the minimum; \
         a history is non-trivial when it uses >= 5 operation kinds and >= 1 flush (distinct by op \
         sequence); thread-schedule cases are distinct by script set, interleavings by hook trace",
    );
    anda_db_utils::verif::set_hook(Some(vcore::sched::hook));
    run.assume("flush is never run concurrently with mutations (documented caller contract)");
    run.assume("crash model of the callback API: each bucket/metadata write is atomic, the sequence is interruptible anywhere");
    run.assume("threads blocked on a real lock are recognised by a 2 ms no-transition window; this shapes exploration only");
    let t = run.tier;
    if run.wants("seq") {
        run.parallel("seq_u64", t.pick(900, 20000), 0.30, |c, rng, st| seq_case::<u64>(c, rng, st, 40));
        run.parallel("seq_string", t.pick(700, 16000), 0.35, |c, rng, st| {
            seq_string_case(c, rng, st, 40)
        });
    }
    if run.wants("sched") {
        run.parallel("sched2", t.pick(64, 1200), 0.5, |c, rng, st| sched_case(c, rng, st, t.pick(150, 1500), false));
        run.parallel("sched3", t.pick(24, 400), 0.6, |c, rng, st| sched_case(c, rng, st, t.pick(100, 1000), true));
    }
    if run.wants("stress") {
        run.parallel("stress", t.pick(48, 1500), 0.9, |c, rng, st| stress_case(c, rng, st, t.pick(40, 300)));
    }
    run.floor("flush_crash_prefixes", 200);
    run.floor("crash_prefix_before_commit", 20);
    run.floor("crash_prefix_after_commit", 20);
    run.floor("oracle_range_rev", 500);
    run.floor("oracle_range_early_stop", 500);
    run.floor("oracle_range_early_stop_at_calls_without_output", 500);
    run.floor("ops_rejected_unique", 5);
    run.floor("schedules_run", 50);
    run.floor("concurrent_reads_during_stress", 100);
    run.floor("linearizability_checks", 100);
    run.floor_set("distinct_hook_interleavings", 20);
    for tag in [
        "tag:btree.insert.after_posting",
        "tag:btree.insert.after_btree",
        "tag:btree.remove.after_posting",
        "tag:btree.remove.after_remove_if",
        "tag:btree.insert_array.after_postings",
        "tag:btree.remove_array.after_postings",
        "tag:btree.compact.before_gate",
    ] {
        run.floor(tag, 1);
    }
    run.finish();
}

fn seq_string_case(case: u64, rng: &mut Rng, st: &mut Stats, n_ops: usize) {
    seq_case::<String>(case, rng, st, n_ops);
    // prefix queries on a dedicated small history
    let uni = String::universe();
    let idx: BTreeIndex<u64, String> = new_index(false, 64);
    let mut model: Model<String> = Model::new();
    let mut hist = vec![];
    for i in 0..20 {
        let op = gen_op(rng, &uni, &model, 12);
        if matches!(op, Op::FlushReload) {
            continue;
        }
        hist.push(format!("{op:?}"));
        let a = index_apply(&idx, &op, 5 + i);
        let b = model_apply(&mut model, false, &op);
        if a != b {
            st.violation("C10/String/return_value", json!({"op": format!("{op:?}"), "history": hist}));
            return;
        }
        let h = hist.clone();
        audit_prefix(&idx, &model, rng, st, &move || json!({"case": case, "history": h}));
    }
}

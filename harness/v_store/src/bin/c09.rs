//! C09 - Encrypted store: tampering is detected, plaintext never reaches the backend.
//!
//! Three monitors over the real `EncryptedStore` (DESIGN.md C09):
//!
//! 1. **Single-site tamper enumeration.** Small objects (sizes 0,1,c-1,c,c+1,2c+3 for chunk sizes
//!    c in {1,7,16}) are written through the store by put / multipart / copy / rename, two keys
//!    and two generations per key (the replaced generation is left on the backend as an
//!    unreclaimed one). For each such backend state EVERY single-site tamper of the inner store is
//!    applied to a fork of the state: every bit of every object, every truncation length,
//!    extensions by 1..c bytes, chunk / payload / metadata swaps and transplants between keys and
//!    generations, re-pointing (only the `g` field rewritten, seal kept), replay of the previous
//!    document, stripping of every field alone and in the downgrade combinations, field
//!    transplants and edits on the re-encoded CBOR, whole-byte substitutions (map header always,
//!    every position in the thorough tier); plus the two-site class "seal removed, then one bit
//!    flipped". A cold instance with the same key (for payload tampers also a warm one) runs all
//!    read paths: get, bounded / offset / suffix ranges across chunk boundaries and into the
//!    partial last chunk, get_ranges, head, the three listings, copy-then-read.
//!    Oracle: a read fails or returns exactly what was written for that key (head / listings:
//!    exactly the original size and token). Documented-mechanism oracle (own signatures
//!    `C09/documented/..`): re-pointed documents, documents of another key and documents whose
//!    seal is missing while `av`/`g` are present must be rejected on every read path, in strict
//!    mode also every document without authentication fields. Counted, not asserted: whole-key
//!    rollback to the previous committed version, and - in compatibility mode only - documents
//!    that carry no authentication-era field at all (the documented downgrade window).
//!    **Compound class `warm_retry_*` (stale-pointer retry of a warm instance).** For every state
//!    and each key as victim: a document naming ANOTHER generation is installed as the victim's
//!    commit point (the other key's object transplanted incl. its ciphertext under the foreign
//!    generation id; the victim's previous document replayed over its previous / the current / a
//!    foreign payload; the current document with only `g` re-pointed to the other, the other
//!    key's or a forged generation; seal- / field-stripped variants of these, the legacy-looking
//!    ones with the payload at `data/<key>`) AND the generation a warm cache points at is deleted.
//!    Every read path then runs as the FIRST read of its own freshly warmed instance (warmed
//!    through get / head / get_range / get_ranges in rotation), followed by a second read; a spy
//!    store shows that the first read re-fetched the commit point (= took the re-resolution).
//!    Same oracle; a read that follows a re-pointed / foreign / seal-less document and still
//!    returns the original is reported under `C09/documented/..`; rollback to the previous
//!    version in full and the compatibility-mode downgrade window are counted as above.
//! 2. **Plaintext scan.** Everything that crosses the backend boundary (recorded by a spy
//!    store: put payloads, multipart parts, incl. aborted / dropped uploads and failed commits)
//!    and everything that persists is scanned for 8-byte windows of any plaintext and for a
//!    marker. Plaintexts are random bytes, runs of one byte value and marker-carrying buffers.
//! 3. **Nonce monitor.** The `verif` hook reports every (nonce, aad, plaintext) handed to the
//!    cipher; the same nonce with a different input is a violation. A dedicated workload drives
//!    thousands of chunks per object through put and the multipart uploader's chunk counter.

use anda_object_store::{EncryptedStore, EncryptedStoreBuilder};
use async_trait::async_trait;
use bytes::Bytes;
use cbor2::Value as Cbor;
use futures::TryStreamExt;
use futures::stream::BoxStream;
use object_store::memory::InMemory;
use object_store::path::Path;
use object_store::{
    CopyOptions, Error as OsError, GetOptions, GetRange, GetResult, ListResult, MultipartUpload,
    ObjectMeta, ObjectStore, ObjectStoreExt, PutMultipartOptions, PutOptions, PutPayload, PutResult,
    RenameOptions, UploadPart,
};
use std::collections::{BTreeMap, HashMap, HashSet};
use std::ops::Range;
use std::sync::atomic::{AtomicBool, AtomicU64, Ordering};
use std::sync::{Arc, Mutex};
use vcore::recstore::dump_store;
use vcore::run::block_on;
use vcore::{Rng, Run, Stats, json};

const SECRET: [u8; 32] = [0xc9; 32];
const MARKER: &[u8] = b"C09-PLAINTEXT-MARKER";

// ---------------------------------------------------------------------------------------------
// nonce monitor (process-global: the hook is a plain fn called from every worker thread)

const SHARDS: usize = 64;
const MAX_NONCE_ENTRIES: u64 = 16_000_000;
const SITES: [&str; 4] = ["put_chunk", "multipart_chunk", "multipart_tail_chunk", "metadata_seal"];

struct NonceMon {
    /// nonce -> digest of (aad, plaintext) with the call site index in the low 2 bits
    shards: Vec<Mutex<HashMap<[u8; 12], u64>>>,
    events: AtomicU64,
    distinct: AtomicU64,
    identical_repeats: AtomicU64,
    saturated: AtomicBool,
    collisions: Mutex<Vec<String>>,
    sites: Mutex<BTreeMap<&'static str, u64>>,
}

static NONCES: std::sync::OnceLock<NonceMon> = std::sync::OnceLock::new();

fn nonce_mon() -> &'static NonceMon {
    NONCES.get_or_init(|| NonceMon {
        shards: (0..SHARDS).map(|_| Mutex::new(HashMap::new())).collect(),
        events: AtomicU64::new(0),
        distinct: AtomicU64::new(0),
        identical_repeats: AtomicU64::new(0),
        saturated: AtomicBool::new(false),
        collisions: Mutex::new(vec![]),
        sites: Mutex::new(BTreeMap::new()),
    })
}

thread_local! {
    static SITE_COUNTS: std::cell::RefCell<BTreeMap<&'static str, u64>> = const { std::cell::RefCell::new(BTreeMap::new()) };
}

fn fnv2(b: &[u8]) -> u64 {
    // second, independent 64-bit digest (length-seeded) next to vcore::fnv
    let mut h: u64 = 0x9e3779b97f4a7c15 ^ (b.len() as u64).wrapping_mul(0xff51afd7ed558ccd);
    for x in b {
        h = (h ^ *x as u64).wrapping_mul(0xc4ceb9fe1a85ec53).rotate_left(23);
    }
    h
}

fn nonce_hook(site: &'static str, nonce: &[u8; 12], aad: &[u8], plaintext: &[u8]) {
    let m = nonce_mon();
    m.events.fetch_add(1, Ordering::Relaxed);
    SITE_COUNTS.with(|c| *c.borrow_mut().entry(site).or_insert(0) += 1);
    // one 64-bit digest of the (aad, plaintext) pair, from two independent hash functions
    let digest = (vcore::fnv(aad) ^ fnv2(plaintext)).wrapping_mul(0x9e3779b97f4a7c15) ^ fnv2(aad).rotate_left(29) ^ vcore::fnv(plaintext).rotate_left(3);
    let site_idx = SITES.iter().position(|s| *s == site).unwrap_or(0) as u64;
    let digest = digest & !3;
    let shard = &m.shards[(nonce[0] as usize ^ nonce[5] as usize) % SHARDS];
    let mut g = shard.lock().unwrap_or_else(|e| e.into_inner());
    match g.get(nonce) {
        Some(v) => {
            let (d0, s0) = (*v & !3, *v & 3);
            if d0 == digest {
                m.identical_repeats.fetch_add(1, Ordering::Relaxed);
            } else {
                let mut c = m.collisions.lock().unwrap_or_else(|e| e.into_inner());
                if c.len() < 8 {
                    let hex: String = nonce.iter().map(|x| format!("{x:02x}")).collect();
                    c.push(format!(
                        "nonce {hex} used at `{}` and again at `{site}` with a different (aad, plaintext): \
                         aad {}B, plaintext {}B",
                        SITES.get(s0 as usize).copied().unwrap_or("?"),
                        aad.len(),
                        plaintext.len()
                    ));
                }
            }
        }
        None => {
            if m.distinct.load(Ordering::Relaxed) < MAX_NONCE_ENTRIES {
                g.insert(*nonce, digest | site_idx);
                m.distinct.fetch_add(1, Ordering::Relaxed);
            } else {
                m.saturated.store(true, Ordering::Relaxed);
            }
        }
    }
}

fn flush_site_counts() {
    SITE_COUNTS.with(|c| {
        let mut g = nonce_mon().sites.lock().unwrap_or_else(|e| e.into_inner());
        for (k, v) in std::mem::take(&mut *c.borrow_mut()) {
            *g.entry(k).or_insert(0) += v;
        }
    });
}

// ---------------------------------------------------------------------------------------------
// spy store: records every payload that crosses the backend boundary

#[derive(Default)]
struct SpyLog {
    payloads: Vec<(String, Bytes)>,
    fail_next_meta_put: bool,
    /// backend path whose GETs are counted (the warm-retry class watches the victim's commit
    /// point: a warm instance fetches it again only when it re-resolves a stale pointer)
    watch: Option<String>,
    watch_hits: u64,
}

#[derive(Clone)]
struct SpyStore {
    inner: Arc<InMemory>,
    log: Arc<Mutex<SpyLog>>,
}

impl SpyStore {
    fn new() -> Self {
        SpyStore { inner: Arc::new(InMemory::new()), log: Arc::new(Mutex::new(SpyLog::default())) }
    }
    fn record(&self, path: &str, p: &PutPayload) {
        let mut v = Vec::with_capacity(p.content_length());
        for seg in p.iter() {
            v.extend_from_slice(seg);
        }
        self.log.lock().unwrap().payloads.push((path.to_string(), Bytes::from(v)));
    }
}

impl std::fmt::Debug for SpyStore {
    fn fmt(&self, f: &mut std::fmt::Formatter<'_>) -> std::fmt::Result {
        write!(f, "SpyStore")
    }
}
impl std::fmt::Display for SpyStore {
    fn fmt(&self, f: &mut std::fmt::Formatter<'_>) -> std::fmt::Result {
        write!(f, "SpyStore")
    }
}

#[async_trait]
impl ObjectStore for SpyStore {
    async fn put_opts(&self, location: &Path, payload: PutPayload, opts: PutOptions) -> object_store::Result<PutResult> {
        self.record(location.as_ref(), &payload);
        if location.as_ref().starts_with("meta/") {
            let mut g = self.log.lock().unwrap();
            if g.fail_next_meta_put {
                g.fail_next_meta_put = false;
                return Err(OsError::Generic { store: "SpyStore", source: "injected commit failure".into() });
            }
        }
        self.inner.put_opts(location, payload, opts).await
    }
    async fn put_multipart_opts(&self, location: &Path, opts: PutMultipartOptions) -> object_store::Result<Box<dyn MultipartUpload>> {
        let up = self.inner.put_multipart_opts(location, opts).await?;
        Ok(Box::new(SpyUpload { store: self.clone(), path: location.to_string(), inner: up }))
    }
    async fn get_opts(&self, location: &Path, options: GetOptions) -> object_store::Result<GetResult> {
        {
            let mut g = self.log.lock().unwrap();
            if g.watch.as_deref() == Some(location.as_ref()) {
                g.watch_hits += 1;
            }
        }
        self.inner.get_opts(location, options).await
    }
    async fn get_ranges(&self, location: &Path, ranges: &[Range<u64>]) -> object_store::Result<Vec<Bytes>> {
        self.inner.get_ranges(location, ranges).await
    }
    fn delete_stream(&self, locations: BoxStream<'static, object_store::Result<Path>>) -> BoxStream<'static, object_store::Result<Path>> {
        self.inner.delete_stream(locations)
    }
    fn list(&self, prefix: Option<&Path>) -> BoxStream<'static, object_store::Result<ObjectMeta>> {
        self.inner.list(prefix)
    }
    fn list_with_offset(&self, prefix: Option<&Path>, offset: &Path) -> BoxStream<'static, object_store::Result<ObjectMeta>> {
        self.inner.list_with_offset(prefix, offset)
    }
    async fn list_with_delimiter(&self, prefix: Option<&Path>) -> object_store::Result<ListResult> {
        self.inner.list_with_delimiter(prefix).await
    }
    async fn copy_opts(&self, from: &Path, to: &Path, options: CopyOptions) -> object_store::Result<()> {
        self.inner.copy_opts(from, to, options).await
    }
    async fn rename_opts(&self, from: &Path, to: &Path, options: RenameOptions) -> object_store::Result<()> {
        self.inner.rename_opts(from, to, options).await
    }
}

struct SpyUpload {
    store: SpyStore,
    path: String,
    inner: Box<dyn MultipartUpload>,
}

impl std::fmt::Debug for SpyUpload {
    fn fmt(&self, f: &mut std::fmt::Formatter<'_>) -> std::fmt::Result {
        write!(f, "SpyUpload({})", self.path)
    }
}

#[async_trait]
impl MultipartUpload for SpyUpload {
    fn put_part(&mut self, data: PutPayload) -> UploadPart {
        self.store.record(&self.path, &data);
        self.inner.put_part(data)
    }
    async fn complete(&mut self) -> object_store::Result<PutResult> {
        self.inner.complete().await
    }
    async fn abort(&mut self) -> object_store::Result<()> {
        self.inner.abort().await
    }
}

// ---------------------------------------------------------------------------------------------
// helpers

type Store = EncryptedStore<Arc<dyn ObjectStore>>;

fn build_store(inner: Arc<dyn ObjectStore>, chunk: u64, strict: bool) -> Store {
    let mut b = EncryptedStoreBuilder::with_secret(inner, 64, SECRET).with_chunk_size(chunk);
    if strict {
        b = b.with_strict_metadata_auth();
    }
    b.build()
}

async fn do_multipart(os: &dyn ObjectStore, path: &Path, parts: &[Vec<u8>]) -> object_store::Result<()> {
    let mut up = os.put_multipart(path).await?;
    for p in parts {
        up.put_part(PutPayload::from(p.clone())).await?;
    }
    up.complete().await?;
    Ok(())
}

fn split_parts(rng: &mut Rng, data: &[u8], max_parts: usize) -> Vec<Vec<u8>> {
    let mut parts = vec![];
    let mut rest = data;
    while !rest.is_empty() && parts.len() + 1 < max_parts {
        let n = 1 + rng.usize(rest.len());
        parts.push(rest[..n].to_vec());
        rest = &rest[n..];
    }
    if !rest.is_empty() {
        parts.push(rest.to_vec());
    }
    parts
}

fn hex(b: &[u8]) -> String {
    b.iter().take(24).map(|x| format!("{x:02x}")).collect::<String>() + if b.len() > 24 { ".." } else { "" }
}

fn cbor_decode(doc: &[u8]) -> Option<Vec<(Cbor, Cbor)>> {
    match cbor2::from_slice::<Cbor>(doc).ok()? {
        Cbor::Map(m) => Some(m),
        _ => None,
    }
}

fn cbor_encode(map: &[(Cbor, Cbor)]) -> Vec<u8> {
    let mut buf = vec![];
    cbor2::to_writer(&Cbor::Map(map.to_vec()), &mut buf).expect("cbor encode");
    buf
}

fn field<'a>(map: &'a [(Cbor, Cbor)], name: &str) -> Option<&'a Cbor> {
    map.iter().find(|(k, _)| k.as_text() == Some(name)).map(|(_, v)| v)
}

fn without(map: &[(Cbor, Cbor)], names: &[&str]) -> Vec<(Cbor, Cbor)> {
    map.iter().filter(|(k, _)| !names.contains(&k.as_text().unwrap_or(""))).cloned().collect()
}

fn with_value(map: &[(Cbor, Cbor)], name: &str, v: Cbor) -> Vec<(Cbor, Cbor)> {
    map.iter().map(|(k, old)| if k.as_text() == Some(name) { (k.clone(), v.clone()) } else { (k.clone(), old.clone()) }).collect()
}

// ---------------------------------------------------------------------------------------------
// monitor 1: object states

#[derive(Clone, Copy, Debug, PartialEq)]
enum Method {
    Put,
    Multipart,
    Copy,
    Rename,
}

const METHODS: [Method; 4] = [Method::Put, Method::Multipart, Method::Copy, Method::Rename];

fn sizes_for(c: usize) -> [usize; 6] {
    [0, 1, c.saturating_sub(1), c, c + 1, 2 * c + 3]
}

#[derive(Clone)]
struct KeyState {
    key: String,
    /// what a read of this key must return
    orig: Vec<u8>,
    etag: Option<String>,
    /// the previous committed version of the key (its payload is still on the backend)
    old: Vec<u8>,
    old_etag: Option<String>,
    meta_path: String,
    meta_new: Vec<u8>,
    meta_old: Vec<u8>,
    pay_new_path: String,
    pay_new: Vec<u8>,
    pay_old_path: String,
    pay_old: Vec<u8>,
    method: Method,
}

struct State {
    base: InMemory,
    chunk: u64,
    keys: Vec<KeyState>,
    /// thorough tier: every byte value at every metadata position of key 0
    deep: bool,
}

fn plaintext(rng: &mut Rng, n: usize) -> Vec<u8> {
    rng.bytes(n)
}

async fn raw(inner: &InMemory, path: &str) -> Option<Vec<u8>> {
    match inner.get(&Path::from(path)).await {
        Ok(r) => r.bytes().await.ok().map(|b| b.to_vec()),
        Err(_) => None,
    }
}

fn pointer_of(key: &str, doc: &[u8]) -> Option<String> {
    let m = cbor_decode(doc)?;
    match field(&m, "g") {
        Some(Cbor::Text(g)) => Some(format!("gen/{key}/{g}")),
        _ => Some(format!("data/{key}")),
    }
}

/// Writes `old` then `new` (through `method`) under `key` and puts the replaced generation's
/// payload back where it was (an unreclaimed generation, as after a crash before the reclaim).
async fn write_key(
    store: &Store,
    inner: &InMemory,
    key: &str,
    old: &[u8],
    new: &[u8],
    method: Method,
    rng: &mut Rng,
) -> Result<KeyState, String> {
    let p = Path::from(key);
    let e = |e: OsError| format!("{e}");
    store.put(&p, PutPayload::from(old.to_vec())).await.map_err(e)?;
    let meta_path = format!("meta/{key}");
    let meta_old = raw(inner, &meta_path).await.ok_or("no metadata after first put")?;
    let pay_old_path = pointer_of(key, &meta_old).ok_or("undecodable metadata")?;
    let pay_old = raw(inner, &pay_old_path).await.ok_or("no payload after first put")?;
    let old_etag = store.head(&p).await.map_err(e)?.e_tag;
    match method {
        Method::Put => {
            store.put(&p, PutPayload::from(new.to_vec())).await.map_err(e)?;
        }
        Method::Multipart => {
            let parts = split_parts(rng, new, 4);
            do_multipart(store, &p, &parts).await.map_err(e)?;
        }
        Method::Copy => {
            let tmp = Path::from(format!("tmp/{key}"));
            store.put(&tmp, PutPayload::from(new.to_vec())).await.map_err(e)?;
            store.copy(&tmp, &p).await.map_err(e)?;
            store.delete(&tmp).await.map_err(e)?;
        }
        Method::Rename => {
            let tmp = Path::from(format!("tmp/{key}"));
            store.put(&tmp, PutPayload::from(new.to_vec())).await.map_err(e)?;
            store.rename(&tmp, &p).await.map_err(e)?;
        }
    }
    let meta_new = raw(inner, &meta_path).await.ok_or("no metadata after second write")?;
    let pay_new_path = pointer_of(key, &meta_new).ok_or("undecodable metadata")?;
    let pay_new = raw(inner, &pay_new_path).await.ok_or("no payload after second write")?;
    if pay_new_path == pay_old_path {
        return Err("second write did not mint a new generation".into());
    }
    inner
        .put(&Path::from(pay_old_path.as_str()), PutPayload::from(pay_old.clone()))
        .await
        .map_err(e)?;
    let etag = store.head(&p).await.map_err(e)?.e_tag;
    Ok(KeyState {
        key: key.to_string(),
        orig: new.to_vec(),
        etag,
        old: old.to_vec(),
        old_etag,
        meta_path,
        meta_new,
        meta_old,
        pay_new_path,
        pay_new,
        pay_old_path,
        pay_old,
        method,
    })
}

// ---------------------------------------------------------------------------------------------
// tampers

#[derive(Clone, Copy, Debug, PartialEq)]
enum Expect {
    /// fail or original
    Normal,
    /// whole-key rollback to a previously committed state: not decidable by the store; a read
    /// fails, returns the current or (in full) the previous version
    Rollback,
    /// documented: authentication must reject the document on every read path
    MustReject,
    /// the installed document carries no authentication-era field at all and the store runs in
    /// compatibility mode: the documented downgrade window ("fully stripped ones are
    /// indistinguishable from genuine legacy metadata"; strict mode closes it). Outcomes are
    /// counted and sampled, not asserted
    Undecidable,
}

/// How the store's documented rules (verify_metadata docs, with_strict_metadata_auth docs) see an
/// installed metadata document, judged on the fields its struct decoder would see.
#[derive(Clone, Copy, Debug, PartialEq)]
enum SealView {
    /// both `an` and `at` present (the seal is then checked cryptographically), or the bytes do
    /// not decode at all
    SealedOrUndecodable,
    /// seal incomplete or missing while `av` or `g` is present: "always rejected"
    MissingSealWithV1Fields,
    /// none of an/at/av/g: indistinguishable from genuine pre-auth legacy metadata - accepted in
    /// compatibility mode by documented design (the downgrade window), "rejected outright" in
    /// strict mode
    LegacyLooking,
}

fn seal_view(doc: &[u8]) -> SealView {
    let Some(m) = struct_view(doc) else { return SealView::SealedOrUndecodable };
    let has = |f: &str| m.contains_key(f);
    if has("an") && has("at") {
        SealView::SealedOrUndecodable
    } else if has("an") || has("at") || has("av") || has("g") {
        SealView::MissingSealWithV1Fields
    } else {
        SealView::LegacyLooking
    }
}

struct Tamper {
    class: &'static str,
    what: String,
    /// (path, Some(new bytes) | None = delete)
    edits: Vec<(String, Option<Vec<u8>>)>,
    /// which keys get the full read battery
    full: [bool; 2],
    expect: [Expect; 2],
}

fn t1(class: &'static str, what: String, path: &str, bytes: Vec<u8>, k: usize) -> Tamper {
    let mut full = [false; 2];
    full[k] = true;
    Tamper { class, what, edits: vec![(path.to_string(), Some(bytes))], full, expect: [Expect::Normal; 2] }
}

fn chunk_ranges(len: usize, c: usize) -> Vec<Range<usize>> {
    (0..len.div_ceil(c)).map(|i| i * c..((i + 1) * c).min(len)).collect()
}

fn enumerate_tampers(s: &State, rng: &mut Rng, out: &mut Vec<Tamper>) {
    let c = s.chunk as usize;
    for (k, ks) in s.keys.iter().enumerate() {
        let other = &s.keys[1 - k];
        let objects: [(&'static str, &str, &Vec<u8>); 4] = [
            ("payload", &ks.pay_new_path, &ks.pay_new),
            ("metadata", &ks.meta_path, &ks.meta_new),
            ("old_payload", &ks.pay_old_path, &ks.pay_old),
            ("", "", &ks.pay_old), // placeholder, skipped
        ];
        for (oname, path, bytes) in objects.iter().take(3) {
            // every bit of every byte
            for pos in 0..bytes.len() {
                for bit in 0..8 {
                    let mut b = (*bytes).clone();
                    b[pos] ^= 1 << bit;
                    let class = match *oname {
                        "payload" => "bitflip_payload",
                        "metadata" => "bitflip_metadata",
                        _ => "bitflip_unreferenced_generation",
                    };
                    out.push(t1(class, format!("{path} byte {pos} bit {bit}"), path, b, k));
                }
            }
            // every truncation length
            for len in 0..bytes.len() {
                let class = match *oname {
                    "payload" => "truncate_payload",
                    "metadata" => "truncate_metadata",
                    _ => "truncate_unreferenced_generation",
                };
                out.push(t1(class, format!("{path} truncated to {len}/{}", bytes.len()), path, bytes[..len].to_vec(), k));
            }
            // extension by 1..=c bytes (random and zero filler)
            for ext in 1..=c {
                for zero in [false, true] {
                    let mut b = (*bytes).clone();
                    if zero {
                        b.extend(std::iter::repeat_n(0u8, ext));
                    } else {
                        b.extend(rng.bytes(ext));
                    }
                    let class = match *oname {
                        "payload" => "extend_payload",
                        "metadata" => "extend_metadata",
                        _ => "extend_unreferenced_generation",
                    };
                    out.push(t1(class, format!("{path} extended by {ext}"), path, b, k));
                }
            }
        }
        // whole-byte substitutions in the metadata document: the map header with every value
        // (it decides how many fields the decoder sees), every position in the thorough tier
        let positions = if s.deep && k == 0 { ks.meta_new.len() } else { 1 };
        for pos in 0..positions.min(ks.meta_new.len()) {
            for v in 0..=255u8 {
                if v != ks.meta_new[pos] && (v ^ ks.meta_new[pos]).count_ones() > 1 {
                    let mut b = ks.meta_new.clone();
                    b[pos] = v;
                    let t = t1("substitute_byte_metadata", format!("{} byte {pos} := {v:#04x}", ks.meta_path), &ks.meta_path, b, k);
                    out.push(t);
                }
            }
        }
        // payload object removed
        out.push(Tamper {
            class: "delete_payload",
            what: format!("{} deleted", ks.pay_new_path),
            edits: vec![(ks.pay_new_path.clone(), None)],
            full: [k == 0, k == 1],
            expect: [Expect::Normal; 2],
        });
        // chunk i <-> chunk j inside the payload
        let chunks = chunk_ranges(ks.pay_new.len(), c);
        for i in 0..chunks.len() {
            for j in i + 1..chunks.len() {
                let mut order: Vec<usize> = (0..chunks.len()).collect();
                order.swap(i, j);
                let b: Vec<u8> = order.iter().flat_map(|x| ks.pay_new[chunks[*x].clone()].to_vec()).collect();
                out.push(t1("swap_chunks", format!("{} chunk {i} <-> chunk {j}", ks.pay_new_path), &ks.pay_new_path, b, k));
            }
            // chunk i overwritten with chunk j (duplication)
            for j in 0..chunks.len() {
                if i != j && chunks[i].len() == chunks[j].len() {
                    let mut b = ks.pay_new.clone();
                    let src = ks.pay_new[chunks[j].clone()].to_vec();
                    b[chunks[i].clone()].copy_from_slice(&src);
                    out.push(t1("duplicate_chunk", format!("{} chunk {i} := chunk {j}", ks.pay_new_path), &ks.pay_new_path, b, k));
                }
            }
        }
        // current payload replaced by the key's other generation / the other key's payloads
        out.push(t1("payload_from_other_generation", format!("{} := {}", ks.pay_new_path, ks.pay_old_path), &ks.pay_new_path, ks.pay_old.clone(), k));
        out.push(t1("payload_from_other_key", format!("{} := {}", ks.pay_new_path, other.pay_new_path), &ks.pay_new_path, other.pay_new.clone(), k));
        out.push(t1("payload_from_other_key", format!("{} := {}", ks.pay_new_path, other.pay_old_path), &ks.pay_new_path, other.pay_old.clone(), k));
        // metadata of the other key (either generation) installed for this key
        for (which, doc) in [("current", &other.meta_new), ("previous", &other.meta_old)] {
            let mut t = t1("metadata_from_other_key", format!("{} := {which} document of {}", ks.meta_path, other.key), &ks.meta_path, doc.clone(), k);
            t.expect[k] = Expect::MustReject;
            out.push(t);
        }
        // old metadata document replayed over the new one while its payload still exists:
        // a whole-key rollback to a previously valid committed state
        let mut t = t1("replay_old_metadata_with_old_payload", format!("{} := its previous document", ks.meta_path), &ks.meta_path, ks.meta_old.clone(), k);
        t.expect[k] = Expect::Rollback;
        out.push(t);
        // ... and replayed after the old payload was reclaimed (the normal case)
        let mut t = Tamper {
            class: "replay_old_metadata_payload_reclaimed",
            what: format!("{} := its previous document, {} absent", ks.meta_path, ks.pay_old_path),
            edits: vec![(ks.meta_path.clone(), Some(ks.meta_old.clone())), (ks.pay_old_path.clone(), None)],
            full: [k == 0, k == 1],
            expect: [Expect::Normal; 2],
        };
        // the listings consult the (validly sealed, previously committed) document alone: for
        // them this is a rollback of everything they look at
        t.expect[k] = Expect::Rollback;
        out.push(t);
        // ... and replayed with the NEW payload moved under the old pointer
        let mut t = Tamper {
            class: "replay_old_metadata_over_new_payload",
            what: format!("{} := its previous document, {} := current payload", ks.meta_path, ks.pay_old_path),
            edits: vec![(ks.meta_path.clone(), Some(ks.meta_old.clone())), (ks.pay_old_path.clone(), Some(ks.pay_new.clone()))],
            full: [k == 0, k == 1],
            expect: [Expect::Normal; 2],
        };
        // the listings consult the (validly sealed, previously committed) document alone: for
        // them this is a rollback of everything they look at
        t.expect[k] = Expect::Rollback;
        out.push(t);

        // --- CBOR-level tampers on the re-encoded document
        let Some(map) = cbor_decode(&ks.meta_new) else { continue };
        let old_map = cbor_decode(&ks.meta_old).unwrap_or_default();
        let other_map = cbor_decode(&other.meta_new).unwrap_or_default();
        // control: identity re-encoding must stay readable
        out.push(t1("control_reencode_identity", format!("{} re-encoded", ks.meta_path), &ks.meta_path, cbor_encode(&map), k));
        // re-pointed to the key's other generation / the other key's generation / a forged one,
        // everything else (incl. the seal) untouched
        let mut targets: Vec<(String, Cbor)> = vec![];
        if let Some(g) = field(&old_map, "g") {
            targets.push(("the key's other generation".into(), g.clone()));
        }
        if let Some(g) = field(&other_map, "g") {
            targets.push(("the other key's generation id".into(), g.clone()));
        }
        targets.push(("a forged generation id".into(), Cbor::from("0000000000000001-deadbeef")));
        for (what, g) in targets {
            let mut t = t1("repoint_generation", format!("{} g := {what}", ks.meta_path), &ks.meta_path, cbor_encode(&with_value(&map, "g", g)), k);
            t.expect[k] = Expect::MustReject;
            out.push(t);
        }
        // re-pointed to the other generation AND that payload replaced by the current one
        if let Some(g) = field(&old_map, "g") {
            let mut t = Tamper {
                class: "repoint_generation",
                what: format!("{} g := the key's other generation, holding the current payload", ks.meta_path),
                edits: vec![
                    (ks.meta_path.clone(), Some(cbor_encode(&with_value(&map, "g", g.clone())))),
                    (ks.pay_old_path.clone(), Some(ks.pay_new.clone())),
                ],
                full: [k == 0, k == 1],
                expect: [Expect::Normal; 2],
            };
            t.expect[k] = Expect::MustReject;
            out.push(t);
        }
        // field stripping: every field alone (removed / null), and the downgrade combinations
        let names: Vec<String> = map.iter().filter_map(|(k, _)| k.as_text().map(String::from)).collect();
        for n in &names {
            for (how, doc) in [
                ("removed", cbor_encode(&without(&map, &[n.as_str()]))),
                (":= null", cbor_encode(&with_value(&map, n, Cbor::Null))),
            ] {
                let t = t1("strip_field", format!("{} field `{n}` {how}", ks.meta_path), &ks.meta_path, doc, k);
                out.push(t);
            }
        }
        let combos: [&[&str]; 7] = [
            &["an", "at"],
            &["an", "at", "av"],
            &["an", "at", "g"],
            &["an", "at", "m"],
            &["an", "at", "av", "g"],
            &["an", "at", "av", "g", "m"],
            &["an", "at", "av", "g", "m", "c"],
        ];
        for combo in combos {
            let stripped = cbor_encode(&without(&map, combo));
            let view = seal_view(&stripped);
            let class = if view == SealView::MissingSealWithV1Fields { "strip_auth_keeping_v1_fields" } else { "strip_auth_full_downgrade" };
            let t = t1(class, format!("{} fields {combo:?} removed", ks.meta_path), &ks.meta_path, stripped.clone(), k);
            out.push(t);
            // full downgrade plus the ciphertext offered at the legacy location (two objects)
            if view == SealView::LegacyLooking {
                out.push(Tamper {
                    class: "strip_auth_full_downgrade_with_legacy_payload",
                    what: format!("{} fields {combo:?} removed, data/{} := current payload", ks.meta_path, ks.key),
                    edits: vec![(ks.meta_path.clone(), Some(stripped)), (format!("data/{}", ks.key), Some(ks.pay_new.clone()))],
                    full: [k == 0, k == 1],
                    expect: [Expect::Normal; 2],
                });
            }
        }
        // the downgrade as an attack (two sites, outside the single-site quantifier): seal removed,
        // then one more bit of the document changed. Key 0 carries every (chunk size, size class,
        // method) combination, so this class is enumerated for key 0 only.
        if k == 0 {
            let stripped = cbor_encode(&without(&map, &["an", "at"]));
            for pos in 0..stripped.len() {
                for bit in 0..8 {
                    let mut b = stripped.clone();
                    b[pos] ^= 1 << bit;
                    let t = t1("strip_seal_then_bitflip", format!("{} seal removed, byte {pos} bit {bit}", ks.meta_path), &ks.meta_path, b, k);
                    out.push(t);
                }
            }
        }
        // single-field transplants from the key's previous document and the other key's document
        for n in &names {
            for (src_name, src) in [("previous document", &old_map), ("other key's document", &other_map)] {
                if let Some(v) = field(src, n) {
                    if Some(v) != field(&map, n) {
                        out.push(t1("transplant_field", format!("{} field `{n}` := value from {src_name}", ks.meta_path), &ks.meta_path, cbor_encode(&with_value(&map, n, v.clone())), k));
                    }
                }
            }
        }
        // size edits and tag-vector edits
        let n = ks.orig.len() as u64;
        for s2 in [0, n.saturating_sub(1), n + 1, n + s.chunk, u64::MAX] {
            if s2 != n {
                out.push(t1("edit_size_field", format!("{} s := {s2}", ks.meta_path), &ks.meta_path, cbor_encode(&with_value(&map, "s", Cbor::from(s2))), k));
            }
        }
        if let Some(Cbor::Array(tags)) = field(&map, "t") {
            let mut variants: Vec<(String, Vec<Cbor>)> = vec![];
            if !tags.is_empty() {
                variants.push(("last tag dropped".into(), tags[..tags.len() - 1].to_vec()));
                let mut d = tags.clone();
                d.push(tags[0].clone());
                variants.push(("first tag appended".into(), d));
            }
            for i in 0..tags.len() {
                for j in i + 1..tags.len() {
                    let mut d = tags.clone();
                    d.swap(i, j);
                    variants.push((format!("tags {i} <-> {j}"), d));
                }
            }
            for (what, v) in variants {
                out.push(t1("edit_tag_vector", format!("{} {what}", ks.meta_path), &ks.meta_path, cbor_encode(&with_value(&map, "t", Cbor::Array(v))), k));
            }
        }
        for c2 in [1u64, s.chunk + 1, s.chunk.saturating_sub(1).max(1), 0] {
            if c2 != s.chunk {
                out.push(t1("edit_chunk_size_field", format!("{} c := {c2}", ks.meta_path), &ks.meta_path, cbor_encode(&with_value(&map, "c", Cbor::from(c2))), k));
            }
        }
        for av in [0u64, 2] {
            out.push(t1("edit_aad_version_field", format!("{} av := {av}", ks.meta_path), &ks.meta_path, cbor_encode(&with_value(&map, "av", Cbor::from(av))), k));
        }
    }
    // pairwise swaps between the two keys
    let (a, b) = (&s.keys[0], &s.keys[1]);
    out.push(Tamper {
        class: "swap_payloads_between_keys",
        what: format!("{} <-> {}", a.pay_new_path, b.pay_new_path),
        edits: vec![(a.pay_new_path.clone(), Some(b.pay_new.clone())), (b.pay_new_path.clone(), Some(a.pay_new.clone()))],
        full: [true, true],
        expect: [Expect::Normal; 2],
    });
    out.push(Tamper {
        class: "swap_metadata_between_keys",
        what: format!("{} <-> {}", a.meta_path, b.meta_path),
        edits: vec![(a.meta_path.clone(), Some(b.meta_new.clone())), (b.meta_path.clone(), Some(a.meta_new.clone()))],
        full: [true, true],
        expect: [Expect::MustReject; 2],
    });
    out.push(Tamper {
        class: "swap_whole_objects_between_keys",
        what: format!("metadata and payloads of {} and {} exchanged", a.key, b.key),
        edits: vec![
            (a.meta_path.clone(), Some(b.meta_new.clone())),
            (b.meta_path.clone(), Some(a.meta_new.clone())),
            (a.pay_new_path.clone(), Some(b.pay_new.clone())),
            (b.pay_new_path.clone(), Some(a.pay_new.clone())),
        ],
        full: [true, true],
        expect: [Expect::MustReject; 2],
    });
    // each key's generations exchanged (payload objects only)
    for (k, ks) in s.keys.iter().enumerate() {
        out.push(Tamper {
            class: "swap_generations_of_key",
            what: format!("{} <-> {}", ks.pay_new_path, ks.pay_old_path),
            edits: vec![(ks.pay_new_path.clone(), Some(ks.pay_old.clone())), (ks.pay_old_path.clone(), Some(ks.pay_new.clone()))],
            full: [k == 0, k == 1],
            expect: [Expect::Normal; 2],
        });
    }
}

// ---------------------------------------------------------------------------------------------
// read battery

#[derive(Debug, PartialEq, Clone)]
enum Outcome {
    Failed,
    Original,
    /// the previous committed version, in full and self-consistent
    Previous,
    Wrong(String),
}

fn judge_bytes(ks: &KeyState, range: Option<Range<usize>>, got: &[u8], meta: Option<(u64, &Option<String>)>, rollback_ok: bool) -> Outcome {
    let slice = |full: &[u8]| -> Option<Vec<u8>> {
        match &range {
            None => Some(full.to_vec()),
            Some(r) => full.get(r.clone()).map(|x| x.to_vec()),
        }
    };
    let meta_is = |len: usize, tag: &Option<String>| meta.map(|(s, t)| s == len as u64 && t == tag).unwrap_or(true);
    if slice(&ks.orig).as_deref() == Some(got) && meta_is(ks.orig.len(), &ks.etag) {
        return Outcome::Original;
    }
    if rollback_ok && slice(&ks.old).as_deref() == Some(got) && meta_is(ks.old.len(), &ks.old_etag) {
        return Outcome::Previous;
    }
    Outcome::Wrong(format!(
        "returned {}B {} (reported size/etag {:?}); written {}B {}",
        got.len(),
        hex(got),
        meta.map(|(s, t)| (s, t.clone())),
        ks.orig.len(),
        hex(&ks.orig)
    ))
}

fn judge_meta(ks: &KeyState, size: u64, tag: &Option<String>, rollback_ok: bool) -> Outcome {
    if size == ks.orig.len() as u64 && tag == &ks.etag {
        Outcome::Original
    } else if rollback_ok && size == ks.old.len() as u64 && tag == &ks.old_etag {
        Outcome::Previous
    } else {
        Outcome::Wrong(format!("reported size {size} etag {tag:?}; written size {} etag {:?}", ks.orig.len(), ks.etag))
    }
}

fn battery_ranges(n: usize, c: usize) -> (Vec<Range<usize>>, Vec<usize>, Vec<usize>) {
    let last = if n == 0 { 0 } else { (n - 1) / c * c };
    let cand = [
        (0, 1),
        (0, c),
        (c.saturating_sub(1), c + 1),
        (n.saturating_sub(1), n),
        (last, n),
        (last.saturating_sub(1), n),
        (1, n),
        (0, n.saturating_sub(1)),
        (c, 2 * c + 1),
        (last + 1, n),
        (0, n),
    ];
    let mut bounded: Vec<Range<usize>> = vec![];
    for (a, b) in cand {
        if a < b && b <= n && !bounded.contains(&(a..b)) {
            bounded.push(a..b);
        }
    }
    let mut offsets: Vec<usize> = vec![];
    for o in [0, c, last, n.saturating_sub(1)] {
        if o < n && !offsets.contains(&o) {
            offsets.push(o);
        }
    }
    let mut suffixes: Vec<usize> = vec![];
    for x in [1, c + 1, n - last.min(n), n] {
        if x >= 1 && x <= n && !suffixes.contains(&x) {
            suffixes.push(x);
        }
    }
    (bounded, offsets, suffixes)
}

struct Probe<'a> {
    st: &'a mut Stats,
    class: &'static str,
    outcomes: Vec<(&'static str, Outcome)>,
}

impl Probe<'_> {
    fn push(&mut self, path: &'static str, o: Outcome) {
        self.st.count(&format!("reads:{path}"));
        self.st.eval();
        self.outcomes.push((path, o));
    }
}

async fn get_outcome(store: &Store, ks: &KeyState, opts: GetOptions, expect_range: Option<Range<usize>>, rollback_ok: bool) -> Outcome {
    match store.get_opts(&Path::from(ks.key.as_str()), opts).await {
        Err(_) => Outcome::Failed,
        Ok(res) => {
            let size = res.meta.size;
            let tag = res.meta.e_tag.clone();
            let rr = res.range.clone();
            match res.bytes().await {
                Err(_) => Outcome::Failed,
                Ok(b) => {
                    let o = judge_bytes(ks, expect_range.clone(), &b, Some((size, &tag)), rollback_ok);
                    if o == Outcome::Original {
                        if let Some(r) = &expect_range {
                            if rr != (r.start as u64..r.end as u64) {
                                return Outcome::Wrong(format!("reported range {rr:?} for requested {r:?}"));
                            }
                        }
                    }
                    o
                }
            }
        }
    }
}

/// All read paths for one key on one (cold) instance; `rot` rotates which path goes first.
async fn read_battery(store: &Store, ks: &KeyState, chunk: usize, full: bool, expect: Expect, rot: usize, p: &mut Probe<'_>) {
    let rb = expect == Expect::Rollback;
    let n = ks.orig.len();
    let path = Path::from(ks.key.as_str());
    let groups: usize = if full && !rb { 6 } else { 2 };
    for gi in 0..groups {
        match (gi + rot) % groups {
            0 => {
                let o = get_outcome(store, ks, GetOptions::default(), None, rb).await;
                p.push("get", o);
            }
            1 => {
                let o = match store.head(&path).await {
                    Err(_) => Outcome::Failed,
                    Ok(m) => judge_meta(ks, m.size, &m.e_tag, rb),
                };
                p.push("head", o);
            }
            2 => {
                let (bounded, _, _) = battery_ranges(n, chunk);
                for r in bounded {
                    let opts = GetOptions { range: Some(GetRange::Bounded(r.start as u64..r.end as u64)), ..Default::default() };
                    let o = get_outcome(store, ks, opts, Some(r), false).await;
                    p.push("get_range_bounded", o);
                }
            }
            3 => {
                let (_, offsets, _) = battery_ranges(n, chunk);
                for o in offsets {
                    let opts = GetOptions { range: Some(GetRange::Offset(o as u64)), ..Default::default() };
                    let out = get_outcome(store, ks, opts, Some(o..n), false).await;
                    p.push("get_range_offset", out);
                }
            }
            4 => {
                let (_, _, suffixes) = battery_ranges(n, chunk);
                for s in suffixes {
                    let opts = GetOptions { range: Some(GetRange::Suffix(s as u64)), ..Default::default() };
                    let out = get_outcome(store, ks, opts, Some(n - s..n), false).await;
                    p.push("get_range_suffix", out);
                }
            }
            _ => {
                let (bounded, _, _) = battery_ranges(n, chunk);
                if !bounded.is_empty() {
                    // several ranges in one call, out of order and repeated
                    let mut rs: Vec<Range<usize>> = bounded.iter().rev().take(4).cloned().collect();
                    rs.push(bounded[0].clone());
                    let req: Vec<Range<u64>> = rs.iter().map(|r| r.start as u64..r.end as u64).collect();
                    let o = match store.get_ranges(&path, &req).await {
                        Err(_) => Outcome::Failed,
                        Ok(v) => {
                            if v.len() != rs.len() {
                                Outcome::Wrong(format!("{} results for {} ranges", v.len(), rs.len()))
                            } else {
                                let mut o = Outcome::Original;
                                for (r, b) in rs.iter().zip(&v) {
                                    if let Outcome::Wrong(w) = judge_bytes(ks, Some(r.clone()), b, None, false) {
                                        o = Outcome::Wrong(format!("range {r:?}: {w}"));
                                    }
                                }
                                o
                            }
                        }
                    };
                    p.push("get_ranges", o);
                }
            }
        }
    }
}

async fn listing_outcomes(store: &Store, keys: &[KeyState], expect: [Expect; 2], p: &mut Probe<'_>) {
    let find = |l: &[ObjectMeta], ks: &KeyState, rb: bool| -> Outcome {
        match l.iter().find(|m| m.location.as_ref() == ks.key) {
            None => Outcome::Failed, // skipped by the listing
            Some(m) => judge_meta(ks, m.size, &m.e_tag, rb),
        }
    };
    let l1: object_store::Result<Vec<ObjectMeta>> = store.list(None).try_collect().await;
    let l2: object_store::Result<Vec<ObjectMeta>> = store.list_with_offset(None, &Path::from("0")).try_collect().await;
    // both keys live under the common prefix "k"
    let l3 = store.list_with_delimiter(Some(&Path::from("k"))).await.map(|r| r.objects);
    for (name, l) in [("list", l1), ("list_with_offset", l2), ("list_with_delimiter", l3)] {
        for (k, ks) in keys.iter().enumerate() {
            let o = match &l {
                Err(_) => Outcome::Failed,
                Ok(l) => find(l, ks, expect[k] == Expect::Rollback),
            };
            p.push(name, o);
            // tag the outcome with the key it belongs to
            let last = p.outcomes.len() - 1;
            p.outcomes[last].0 = match (name, k) {
                ("list", 0) => "list#0",
                ("list", _) => "list#1",
                ("list_with_offset", 0) => "list_with_offset#0",
                ("list_with_offset", _) => "list_with_offset#1",
                (_, 0) => "list_with_delimiter#0",
                _ => "list_with_delimiter#1",
            };
        }
    }
}

async fn copy_then_read(store: &Store, ks: &KeyState, k: usize, rb: bool, p: &mut Probe<'_>) {
    let o = copy_then_read_outcome(store, ks, k, rb).await;
    p.push("copy_then_read", o);
}

async fn copy_then_read_outcome(store: &Store, ks: &KeyState, k: usize, rb: bool) -> Outcome {
    let to = Path::from(format!("copies/{k}"));
    match store.copy(&Path::from(ks.key.as_str()), &to).await {
        Err(_) => Outcome::Failed,
        Ok(()) => match store.get(&to).await {
            Err(_) => Outcome::Failed,
            Ok(r) => {
                let size = r.meta.size;
                match r.bytes().await {
                    Err(_) => Outcome::Failed,
                    Ok(b) => {
                        // a copy mints its own token: only size and bytes are compared
                        let mut o = judge_bytes(ks, None, &b, None, rb);
                        if o == Outcome::Original && size != ks.orig.len() as u64 {
                            o = Outcome::Wrong(format!("copy reports size {size}"));
                        }
                        o
                    }
                }
            }
        },
    }
}

/// The document as the store's struct decoder sees it: known fields only, field names given as
/// text or byte strings, null = absent (serde's treatment of `Option` fields).
fn struct_view(doc: &[u8]) -> Option<BTreeMap<String, String>> {
    const FIELDS: [&str; 12] = ["s", "e", "o", "v", "n", "t", "c", "av", "an", "at", "g", "m"];
    let m = cbor_decode(doc)?;
    let mut out = BTreeMap::new();
    for (k, v) in &m {
        let name = match k {
            Cbor::Text(t) => t.clone(),
            // field identifiers may also be given as byte strings; anything else (integers,
            // non-UTF-8 bytes, unknown names) is an unknown field the struct decoder skips
            Cbor::Bytes(b) => match String::from_utf8(b.clone()) {
                Ok(t) => t,
                Err(_) => continue,
            },
            _ => continue,
        };
        if FIELDS.contains(&name.as_str()) && !matches!(v, Cbor::Null) {
            out.insert(name, format!("{v}"));
        }
    }
    Some(out)
}

fn full_hex(b: &[u8]) -> String {
    b.iter().map(|x| format!("{x:02x}")).collect()
}

/// Replayable description of a tamper: the bytes installed and, for metadata, the untampered
/// document and the CBOR diagnostic notation of both.
fn describe_edits(s: &State, t: &Tamper) -> serde_json::Value {
    let diag = |b: &[u8]| cbor2::from_slice::<Cbor>(b).map(|v| format!("{v}")).unwrap_or_else(|e| format!("undecodable: {e:?}"));
    json!(t.edits.iter().map(|(path, e)| {
        let original = s.keys.iter().find(|k| &k.meta_path == path).map(|k| k.meta_new.clone());
        match e {
            None => json!({"object": path, "deleted": true}),
            Some(b) => json!({"object": path, "installed_hex": full_hex(b),
                "installed_cbor": if path.starts_with("meta/") { Some(diag(b)) } else { None },
                "untampered_hex": original.as_ref().map(|o| full_hex(o)),
                "untampered_cbor": original.as_ref().map(|o| diag(o))}),
        }
    }).collect::<Vec<_>>())
}

struct StateCtx<'a> {
    case: u64,
    s: &'a State,
    strict: bool,
}

async fn apply_edits(fork: &InMemory, t: &Tamper) {
    for (path, edit) in &t.edits {
        let p = Path::from(path.as_str());
        match edit {
            Some(b) => {
                fork.put(&p, PutPayload::from(b.clone())).await.expect("tamper put");
            }
            None => {
                let _ = fork.delete(&p).await;
            }
        }
    }
}

/// Behavioural test for the documented compatibility-mode downgrade window: does a store with
/// strict metadata authentication reject the tampered key on every metadata-dependent read path?
/// The two modes differ only in accepting unauthenticated legacy metadata (and in skipping
/// undecodable documents in listings), so "served in compatibility mode, rejected in strict
/// mode" is exactly "accepted as legacy metadata".
async fn strict_mode_rejects(s: &State, t: &Tamper, ks: &KeyState) -> bool {
    let fork = s.base.fork();
    apply_edits(&fork, t).await;
    let store = build_store(Arc::new(fork), s.chunk, true);
    let path = Path::from(ks.key.as_str());
    if store.head(&path).await.is_ok() {
        return false;
    }
    if let Ok(r) = store.get(&path).await {
        if r.bytes().await.is_ok() {
            return false;
        }
    }
    let listed: object_store::Result<Vec<ObjectMeta>> = store.list(None).try_collect().await;
    !matches!(listed, Ok(l) if l.iter().any(|m| m.location.as_ref() == ks.key))
}

/// Applies one tamper to a fork of the state and judges every read path.
/// Returns false when a violation was recorded.
async fn run_tamper(ctx: &StateCtx<'_>, t: &Tamper, idx: usize, warm: bool, st: &mut Stats) -> bool {
    let s = ctx.s;
    let fork = s.base.fork();
    // a warm instance has read (and cached the metadata of) both keys before the tamper lands
    let warm_store = if warm {
        let st0 = build_store(Arc::new(fork.clone()), s.chunk, ctx.strict);
        for ks in &s.keys {
            if let Ok(r) = st0.get(&Path::from(ks.key.as_str())).await {
                let _ = r.bytes().await;
            }
        }
        Some(st0)
    } else {
        None
    };
    apply_edits(&fork, t).await;
    let store = match warm_store {
        Some(w) => w,
        None => build_store(Arc::new(fork), s.chunk, ctx.strict),
    };
    // what the documented rules say about an installed document whose seal is not (fully) there
    let mut expect = t.expect;
    for (path, e) in &t.edits {
        let (Some(b), Some(k)) = (e, s.keys.iter().position(|ks| &ks.meta_path == path)) else { continue };
        match seal_view(b) {
            SealView::SealedOrUndecodable => {}
            SealView::MissingSealWithV1Fields => expect[k] = Expect::MustReject,
            SealView::LegacyLooking if ctx.strict => expect[k] = Expect::MustReject,
            SealView::LegacyLooking => {
                expect[k] = Expect::Undecidable;
                st.count(&format!("compat_downgrade_window_reached_by:{}", t.class));
            }
        }
    }
    if warm {
        st.count(&format!("tamper_warm_instance:{}", t.class));
        st.count("tamper_sites_warm_instance");
    } else {
        st.count(&format!("tamper:{}", t.class));
        st.count("tamper_sites");
    }
    for e in expect {
        match e {
            Expect::MustReject => st.count("expectation:must_be_rejected(documented)"),
            Expect::Rollback => st.count("expectation:rollback_not_decidable"),
            Expect::Undecidable => st.count("expectation:compat_downgrade_window_not_decidable"),
            Expect::Normal => {}
        }
    }
    let mut probe = Probe { st, class: t.class, outcomes: vec![] };
    let chunk = s.chunk as usize;
    // rotate which key and which read path meets the cold cache first
    let first = idx % 2;
    let mut per_key: [Vec<(&'static str, Outcome)>; 2] = [vec![], vec![]];
    for kk in 0..2 {
        let k = (kk + first) % 2;
        let before = probe.outcomes.len();
        read_battery(&store, &s.keys[k], chunk, t.full[k], expect[k], idx / 2, &mut probe).await;
        per_key[k] = probe.outcomes[before..].to_vec();
    }
    let before = probe.outcomes.len();
    listing_outcomes(&store, &s.keys, expect, &mut probe).await;
    for (name, o) in probe.outcomes[before..].to_vec() {
        let k = if name.ends_with("#0") { 0 } else { 1 };
        per_key[k].push((name, o));
    }
    for k in 0..2 {
        // the copy path of a key whose objects were not touched adds nothing but a metadata seal
        if !t.full[k] {
            continue;
        }
        let before = probe.outcomes.len();
        copy_then_read(&store, &s.keys[k], k, expect[k] == Expect::Rollback, &mut probe).await;
        per_key[k].extend(probe.outcomes[before..].to_vec());
    }
    let class = probe.class;
    let st = probe.st;

    let mut ok = true;
    let mut all_original = true;
    for k in 0..2 {
        let ks = &s.keys[k];
        for (path, o) in &per_key[k] {
            let path_kind = path.split('#').next().unwrap_or(path);
            match o {
                Outcome::Failed => {
                    all_original = false;
                    st.count("read_failed");
                    st.count(&format!("failed:{path_kind}"));
                }
                Outcome::Original => {
                    st.count("read_returned_original");
                    if expect[k] == Expect::MustReject {
                        all_original = false;
                        st.violation(
                            format!("C09/documented/{class}/{path_kind}/accepted"),
                            json!({"case": ctx.case, "tamper": t.what, "key": ks.key, "read_path": path, "edits": describe_edits(s, t),
                                   "note": "the document must fail authentication on every read path (docs 2.7, 4.7; with_strict_metadata_auth docs); this read succeeded",
                                   "chunk_size": s.chunk, "strict": ctx.strict, "size": ks.orig.len(), "written_by": format!("{:?}", ks.method)}),
                        );
                        ok = false;
                    }
                }
                Outcome::Previous => {
                    all_original = false;
                    st.count("rollback_whole_key_previous_version_served");
                }
                Outcome::Wrong(w) if expect[k] == Expect::Undecidable => {
                    all_original = false;
                    st.count("compat_downgrade_window_forged_legacy_document_served");
                    st.count(&format!("compat_downgrade_window_served_wrong_result:{class}:{path_kind}"));
                    if class != "strip_seal_then_bitflip" {
                        let (what, w, key) = (t.what.clone(), w.clone(), ks.key.clone());
                        let edits = describe_edits(s, t);
                        st.sample(move || json!({"monitor": "compat_mode_downgrade_window (not asserted)", "tamper": what,
                            "key": key, "read_path": path_kind, "got": w, "edits": edits}));
                    }
                }
                Outcome::Wrong(w) if !ctx.strict && strict_mode_rejects(s, t, ks).await => {
                    // the struct-level view above missed it, the behaviour shows it: accepted as
                    // legacy metadata (documented downgrade window of the compatibility mode)
                    all_original = false;
                    st.count("compat_downgrade_window_forged_legacy_document_served");
                    st.count(&format!("compat_downgrade_window_served_wrong_result:{class}:{path_kind}"));
                    let (what, w, key) = (t.what.clone(), w.clone(), ks.key.clone());
                    let edits = describe_edits(s, t);
                    st.sample(move || json!({"monitor": "compat_mode_downgrade_window (not asserted)", "tamper": what,
                        "key": key, "read_path": path_kind, "got": w, "edits": edits}));
                }
                Outcome::Wrong(w) => {
                    all_original = false;
                    st.violation(
                        format!("C09/{class}/{path_kind}/wrong_result"),
                        json!({"case": ctx.case, "tamper": t.what, "key": ks.key, "read_path": path, "got": w, "edits": describe_edits(s, t),
                               "instance": if warm { "warm (both keys read before the tamper)" } else { "cold" },
                               "chunk_size": s.chunk, "strict": ctx.strict, "size": ks.orig.len(),
                               "written_by": format!("{:?}", ks.method)}),
                    );
                    ok = false;
                }
            }
        }
    }
    if all_original {
        st.count("neutral_tampers");
        st.count(&format!("neutral:{class}"));
        // why was a metadata tamper neutral? (a) the bytes re-decode to the same document,
        // (b) the decoded document differs in something no read path depends on (reported)
        if !warm {
            for (path, e) in &t.edits {
                let (Some(b), Some(ks)) = (e, s.keys.iter().find(|k| &k.meta_path == path)) else { continue };
                let same = match (struct_view(b), struct_view(&ks.meta_new)) {
                    (Some(x), Some(y)) => x == y,
                    _ => false,
                };
                if same {
                    st.count("neutral_metadata_tamper:decodes_to_same_document");
                } else {
                    st.count("neutral_metadata_tamper:document_differs_but_reads_unaffected");
                    st.count(&format!("neutral_differs:{class}"));
                    let what = t.what.clone();
                    let installed = cbor2::from_slice::<Cbor>(b).map(|v| format!("{v}")).unwrap_or_else(|e| format!("undecodable generically: {e:?}"));
                    let orig = cbor2::from_slice::<Cbor>(&ks.meta_new).map(|v| format!("{v}")).unwrap_or_default();

                    st.sample(move || json!({"monitor": "neutral_metadata_tamper_with_different_document", "tamper": what,
                                             "installed": installed, "untampered": orig}));
                }
            }
        }
    }
    if class == "control_reencode_identity" && !all_original {
        st.inconclusive("C09: a metadata document re-encoded by the harness without change is no longer readable: CBOR-level tampers are not meaningful");
        ok = false;
    }
    ok
}

// ---------------------------------------------------------------------------------------------
// compound tampers against a WARM instance: the stale-pointer retry / re-resolution paths
//
// A long-running instance holds the victim's valid commit point in its metadata cache. A read
// whose payload GET misses (the generation the cached document names is gone) re-resolves the
// commit point from the backend and follows it if it names another generation. That re-resolved
// document is attacker-controlled and must be authenticated like any other - but the code that
// does so runs only (1) on an instance with a cached document, (2) when the backend document
// names a different generation than the cached one and (3) when the cached generation's payload
// is gone, and only for the FIRST read after the tamper (the re-resolved document replaces the
// cached one). No single-site tamper produces that situation (a deleted payload alone re-resolves
// the untouched document; a tampered document alone is never looked at by a warm instance or is
// rejected up front by a cold one), so it gets its own class: install a document that names
// another generation + provide a payload under that generation + delete the cached generation,
// then run every read path as the first read of its own freshly warmed instance.

const WR_TRANSPLANT: &str = "warm_retry_transplant_other_key";
const WR_REPLAY: &str = "warm_retry_replay_previous";
const WR_REPOINT: &str = "warm_retry_repoint_generation";
const WR_STRIPPED: &str = "warm_retry_stripped_document";
const WR_CLASSES: [&str; 4] = [WR_TRANSPLANT, WR_REPLAY, WR_REPOINT, WR_STRIPPED];
/// read paths that fetch (or copy) the payload and therefore take the retry when it is gone
const WR_PAYLOAD_PATHS: [&str; 7] =
    ["get", "head", "get_range_bounded", "get_range_offset", "get_range_suffix", "get_ranges", "copy_then_read"];
const WR_LISTING_PATHS: [&str; 3] = ["list", "list_with_offset", "list_with_delimiter"];

/// `doc` installed as the victim's commit point, `payload` stored where `doc` points to under the
/// victim's key, and the generation a warm cache points at deleted.
fn compound(ks: &KeyState, k: usize, class: &'static str, what: String, doc: Vec<u8>, payload: &[u8], expect: Expect) -> Option<Tamper> {
    let target = pointer_of(&ks.key, &doc)?;
    if target == ks.pay_new_path {
        return None; // names the cached generation: not a moved pointer
    }
    let mut e = [Expect::Normal; 2];
    e[k] = expect;
    Some(Tamper {
        class,
        what: format!("{} := {what}; {target} := that payload; {} (the cached generation) deleted", ks.meta_path, ks.pay_new_path),
        edits: vec![
            (target, Some(payload.to_vec())),
            (ks.meta_path.clone(), Some(doc)),
            (ks.pay_new_path.clone(), None),
        ],
        full: [k == 0, k == 1],
        expect: e,
    })
}

fn enumerate_compound(s: &State, k: usize, out: &mut Vec<Tamper>) {
    let ks = &s.keys[k];
    let other = &s.keys[1 - k];
    // (class, what, document, payload offered under the document's pointer, expectation, also stripped?)
    let mut bases: Vec<(&'static str, String, Vec<u8>, Vec<u8>, Expect, bool)> = vec![
        // (a) another key's object transplanted: sealed document + ciphertext under its generation id
        (WR_TRANSPLANT, format!("current document of {}, with its payload", other.key), other.meta_new.clone(), other.pay_new.clone(), Expect::MustReject, true),
        (WR_TRANSPLANT, format!("previous document of {}, with its payload", other.key), other.meta_old.clone(), other.pay_old.clone(), Expect::MustReject, false),
        // (b) the key's previous document replayed. With its genuine previous payload this is the
        // whole-key rollback (not decidable by the store); with any other payload the document is
        // still a validly sealed previous commit point (head / listings consult it alone), but
        // bytes may only come back as the previous version in full
        (WR_REPLAY, "its previous document, previous payload present".into(), ks.meta_old.clone(), ks.pay_old.clone(), Expect::Rollback, true),
        (WR_REPLAY, "its previous document, over the CURRENT payload".into(), ks.meta_old.clone(), ks.pay_new.clone(), Expect::Rollback, false),
        (WR_REPLAY, format!("its previous document, over the previous payload of {}", other.key), ks.meta_old.clone(), other.pay_old.clone(), Expect::Rollback, false),
    ];
    // (c) the current document with only `g` re-pointed (seal kept)
    if let (Some(map), Some(old_map)) = (cbor_decode(&ks.meta_new), cbor_decode(&ks.meta_old)) {
        let other_map = cbor_decode(&other.meta_new).unwrap_or_default();
        if let Some(g) = field(&old_map, "g") {
            let doc = cbor_encode(&with_value(&map, "g", g.clone()));
            bases.push((WR_REPOINT, "current document, g := the key's other generation (its payload present)".into(), doc.clone(), ks.pay_old.clone(), Expect::MustReject, true));
            bases.push((WR_REPOINT, "current document, g := the key's other generation, holding the current payload".into(), doc, ks.pay_new.clone(), Expect::MustReject, true));
        }
        if let Some(g) = field(&other_map, "g") {
            let doc = cbor_encode(&with_value(&map, "g", g.clone()));
            bases.push((WR_REPOINT, format!("current document, g := generation id of {}, holding that key's payload", other.key), doc, other.pay_new.clone(), Expect::MustReject, false));
        }
        let doc = cbor_encode(&with_value(&map, "g", Cbor::from("0000000000000001-deadbeef")));
        bases.push((WR_REPOINT, "current document, g := a forged generation id, holding the current payload".into(), doc, ks.pay_new.clone(), Expect::MustReject, false));
    }
    // (d) seal-stripped / field-stripped variants; without `g` the document points at the legacy
    // location data/<key>, where the payload is offered then
    let strips: [&[&str]; 7] = [
        &["an", "at"],
        &["at"],
        &["an", "at", "g"],
        &["an", "at", "av", "g"],
        &["an", "at", "av", "g", "m"],
        &["m"],
        &["av"],
    ];
    for (class, what, doc, payload, expect, strip) in &bases {
        out.extend(compound(ks, k, class, what.clone(), doc.clone(), payload, *expect));
        if !*strip {
            continue;
        }
        let Some(map) = cbor_decode(doc) else { continue };
        for combo in strips {
            // a stripped previous document is no longer a genuine previous commit point
            let e = if *expect == Expect::Rollback { Expect::Normal } else { *expect };
            out.extend(compound(ks, k, WR_STRIPPED, format!("{what}, fields {combo:?} removed"), cbor_encode(&without(&map, combo)), payload, e));
        }
    }
}

#[derive(Clone, Debug)]
enum FirstRead {
    Get,
    Head,
    Range(&'static str, GetRange),
    GetRanges(Vec<Range<usize>>),
    List(usize),
    CopyThenRead,
}

impl FirstRead {
    fn name(&self) -> &'static str {
        match self {
            FirstRead::Get => "get",
            FirstRead::Head => "head",
            FirstRead::Range(n, _) => *n,
            FirstRead::GetRanges(_) => "get_ranges",
            FirstRead::List(i) => WR_LISTING_PATHS[*i],
            FirstRead::CopyThenRead => "copy_then_read",
        }
    }
}

fn first_reads(n: usize, chunk: usize) -> Vec<FirstRead> {
    let (bounded, offsets, suffixes) = battery_ranges(n, chunk);
    let mut v = vec![FirstRead::Get, FirstRead::Head];
    for r in &bounded {
        v.push(FirstRead::Range("get_range_bounded", GetRange::Bounded(r.start as u64..r.end as u64)));
    }
    for o in offsets {
        v.push(FirstRead::Range("get_range_offset", GetRange::Offset(o as u64)));
    }
    for s in suffixes {
        v.push(FirstRead::Range("get_range_suffix", GetRange::Suffix(s as u64)));
    }
    if !bounded.is_empty() {
        let mut rs: Vec<Range<usize>> = bounded.iter().rev().take(4).cloned().collect();
        rs.push(bounded[0].clone());
        v.push(FirstRead::GetRanges(rs));
    }
    for i in 0..WR_LISTING_PATHS.len() {
        v.push(FirstRead::List(i));
    }
    v.push(FirstRead::CopyThenRead);
    v
}

/// A ranged get judged against the current version and (if `rb`) the previous one, each with the
/// range the request resolves to on an object of that version's length.
async fn ranged_outcome(store: &Store, ks: &KeyState, gr: &GetRange, rb: bool) -> Outcome {
    let opts = GetOptions { range: Some(gr.clone()), ..Default::default() };
    let res = match store.get_opts(&Path::from(ks.key.as_str()), opts).await {
        Err(_) => return Outcome::Failed,
        Ok(res) => res,
    };
    let (size, tag, rr) = (res.meta.size, res.meta.e_tag.clone(), res.range.clone());
    let b = match res.bytes().await {
        Err(_) => return Outcome::Failed,
        Ok(b) => b,
    };
    for (full, etag, o, allowed) in [(&ks.orig, &ks.etag, Outcome::Original, true), (&ks.old, &ks.old_etag, Outcome::Previous, rb)] {
        if !allowed {
            continue;
        }
        if let Ok(r) = gr.as_range(full.len() as u64) {
            if size == full.len() as u64 && &tag == etag && rr == r && b.as_ref() == &full[r.start as usize..r.end as usize] {
                return o;
            }
        }
    }
    Outcome::Wrong(format!(
        "{gr:?} returned {}B {} (reported range {rr:?}, size {size}, etag {tag:?}); written {}B {}",
        b.len(),
        hex(&b),
        ks.orig.len(),
        hex(&ks.orig)
    ))
}

async fn get_ranges_outcome(store: &Store, ks: &KeyState, rs: &[Range<usize>], rb: bool) -> Outcome {
    let req: Vec<Range<u64>> = rs.iter().map(|r| r.start as u64..r.end as u64).collect();
    match store.get_ranges(&Path::from(ks.key.as_str()), &req).await {
        Err(_) => Outcome::Failed,
        Ok(v) => {
            let is = |full: &[u8]| v.len() == rs.len() && rs.iter().zip(&v).all(|(r, b)| full.get(r.clone()) == Some(b.as_ref()));
            if is(&ks.orig) {
                Outcome::Original
            } else if rb && is(&ks.old) {
                Outcome::Previous
            } else {
                Outcome::Wrong(format!(
                    "ranges {rs:?} returned {:?}; written {}B {}",
                    v.iter().map(|b| hex(b)).collect::<Vec<_>>(),
                    ks.orig.len(),
                    hex(&ks.orig)
                ))
            }
        }
    }
}

async fn listing_outcome(store: &Store, ks: &KeyState, which: usize, rb: bool) -> Outcome {
    let l: object_store::Result<Vec<ObjectMeta>> = match which {
        0 => store.list(None).try_collect().await,
        1 => store.list_with_offset(None, &Path::from("0")).try_collect().await,
        _ => store.list_with_delimiter(Some(&Path::from("k"))).await.map(|r| r.objects),
    };
    match l {
        Err(_) => Outcome::Failed,
        Ok(l) => match l.iter().find(|m| m.location.as_ref() == ks.key) {
            None => Outcome::Failed, // skipped by the listing
            Some(m) => judge_meta(ks, m.size, &m.e_tag, rb),
        },
    }
}

/// Loads the victim's commit point into the instance's metadata cache through one of the read
/// paths; false if the untouched object did not read back.
async fn warm_up(store: &Store, ks: &KeyState, how: usize) -> bool {
    let path = Path::from(ks.key.as_str());
    let n = ks.orig.len();
    match how % 4 {
        1 => matches!(store.head(&path).await, Ok(m) if m.size == n as u64 && m.e_tag == ks.etag),
        2 if n > 0 => matches!(store.get_range(&path, 0..1).await, Ok(b) if b.as_ref() == &ks.orig[..1]),
        3 if n > 0 => matches!(store.get_ranges(&path, &[0..n as u64]).await, Ok(v) if v.len() == 1 && v[0].as_ref() == ks.orig.as_slice()),
        _ => match store.get(&path).await {
            Ok(r) => matches!(r.bytes().await, Ok(b) if b.as_ref() == ks.orig.as_slice()),
            Err(_) => false,
        },
    }
}

/// One compound tamper for victim `k`: every read path as the FIRST read of its own freshly
/// warmed instance, followed by a second read (plain get) on the same instance.
/// Returns false when a violation was recorded.
async fn run_compound(ctx: &StateCtx<'_>, t: &Tamper, k: usize, idx: usize, st: &mut Stats) -> bool {
    let s = ctx.s;
    let ks = &s.keys[k];
    let other = &s.keys[1 - k];
    // what the documented rules say about an installed document whose seal is not (fully) there
    let mut expect = t.expect[k];
    for (p, e) in &t.edits {
        let Some(b) = e else { continue };
        if p != &ks.meta_path {
            continue;
        }
        match seal_view(b) {
            SealView::SealedOrUndecodable => {}
            SealView::MissingSealWithV1Fields => expect = Expect::MustReject,
            SealView::LegacyLooking if ctx.strict => expect = Expect::MustReject,
            SealView::LegacyLooking => expect = Expect::Undecidable,
        }
    }
    let class = t.class;
    st.count(&format!("warm_retry:{class}"));
    st.count("warm_retry_compound_tampers");
    st.count(match expect {
        Expect::MustReject => "warm_retry_expectation:must_be_rejected(documented)",
        Expect::Rollback => "warm_retry_expectation:rollback_not_decidable",
        Expect::Undecidable => "warm_retry_expectation:compat_downgrade_window_not_decidable",
        Expect::Normal => "warm_retry_expectation:fail_or_original",
    });
    let rb = expect == Expect::Rollback;
    let mut ok = true;
    let mut seen: Vec<String> = vec![];
    for (ri, fr) in first_reads(ks.orig.len(), s.chunk as usize).iter().enumerate() {
        let spy = SpyStore { inner: Arc::new(s.base.fork()), log: Arc::new(Mutex::new(SpyLog::default())) };
        let store = build_store(Arc::new(spy.clone()), s.chunk, ctx.strict);
        let how = idx + ri;
        if !warm_up(&store, ks, how).await {
            st.inconclusive("C09: the untouched object did not read back through a fresh instance (warm-up of the warm_retry class)");
            return false;
        }
        st.count(["warm_retry_warmed_by:get", "warm_retry_warmed_by:head", "warm_retry_warmed_by:get_range", "warm_retry_warmed_by:get_ranges"][how % 4]);
        if how % 2 == 1 {
            // the other key's commit point is cached as well
            let _ = store.head(&Path::from(other.key.as_str())).await;
        }
        apply_edits(&spy.inner, t).await;
        {
            let mut g = spy.log.lock().unwrap();
            g.watch = Some(ks.meta_path.clone());
            g.watch_hits = 0;
        }
        let name = fr.name();
        let first = match fr {
            FirstRead::Get => get_outcome(&store, ks, GetOptions::default(), None, rb).await,
            FirstRead::Head => match store.head(&Path::from(ks.key.as_str())).await {
                Err(_) => Outcome::Failed,
                Ok(m) => judge_meta(ks, m.size, &m.e_tag, rb),
            },
            FirstRead::Range(_, gr) => ranged_outcome(&store, ks, gr, rb).await,
            FirstRead::GetRanges(rs) => get_ranges_outcome(&store, ks, rs, rb).await,
            FirstRead::List(i) => listing_outcome(&store, ks, *i, rb).await,
            FirstRead::CopyThenRead => copy_then_read_outcome(&store, ks, k, rb).await,
        };
        // a warm instance fetches the commit point again only when it re-resolves the pointer
        let refetched = spy.log.lock().unwrap().watch_hits > 0;
        st.count(&format!("warm_retry_first_reads:{name}"));
        if refetched {
            st.count(&format!("warm_retry_pointer_re_resolved_by_first_read:{name}"));
            st.count("warm_retry_pointer_re_resolved_by_first_read");
        }
        // the second read on the same instance (the re-resolved document is the cached one now;
        // after a listing it is the first read that touches the payload)
        let second = get_outcome(&store, ks, GetOptions::default(), None, rb).await;
        st.count("warm_retry_second_reads:get");
        for (stage, path, o) in [("first read", name, &first), ("second read", "get", &second)] {
            st.eval();
            let sig_path = if stage == "first read" { path.to_string() } else { format!("second_read_{path}") };
            let detail = |got: &str| {
                json!({"case": ctx.case, "tamper": t.what, "key": ks.key, "read_path": path, "stage": stage, "request": format!("{fr:?}"),
                       "got": got, "edits": describe_edits(s, t),
                       "instance": format!("warm: commit point of {} cached through {} before the tamper landed; this is the {stage} after it{}",
                           ks.key, ["get", "head", "get_range", "get_ranges"][how % 4],
                           if refetched { ", the first read re-resolved the commit point from the backend" } else { "" }),
                       "chunk_size": s.chunk, "strict": ctx.strict, "size": ks.orig.len(), "written_by": format!("{:?}", ks.method)})
            };
            match o {
                Outcome::Failed => {
                    st.count("warm_retry_read_failed");
                    st.count(&format!("warm_retry_failed:{sig_path}"));
                }
                Outcome::Original => {
                    st.count("warm_retry_read_returned_original");
                    // a listing on a warm instance answers from the still valid cached document;
                    // every other path had to follow the installed document to get anywhere
                    if expect == Expect::MustReject && !WR_LISTING_PATHS.contains(&path) {
                        st.violation(
                            format!("C09/documented/{class}/{sig_path}/accepted"),
                            detail("the original bytes / size / token - but the payload the cached commit point names is gone, so the read followed the installed document, which must fail authentication on every read path (docs 2.7, 4.7; with_strict_metadata_auth docs)"),
                        );
                        ok = false;
                    }
                }
                Outcome::Previous => {
                    st.count("warm_retry_rollback_whole_key_previous_version_served");
                }
                Outcome::Wrong(_) if expect == Expect::Undecidable => {
                    st.count("warm_retry_compat_downgrade_window_served_wrong_result");
                    st.count(&format!("warm_retry_compat_downgrade_window_served_wrong_result:{sig_path}"));
                }
                Outcome::Wrong(w) => {
                    st.violation(format!("C09/{class}/{sig_path}/wrong_result"), detail(w));
                    ok = false;
                }
            }
        }
        if seen.len() < 40 {
            let word = |o: &Outcome| match o {
                Outcome::Wrong(_) if expect == Expect::Undecidable => "wrong result (compat-mode downgrade window, not asserted)",
                o => outcome_word(o),
            };
            seen.push(format!("{name}{}: {} / then get: {}", if refetched { " (re-resolved)" } else { "" }, word(&first), word(&second)));
        }
    }
    // one transplant of every third state and one legacy-looking stripped transplant of every sixth
    // (which of them end up in the evidence depends on the sample caps)
    let legacy_looking_transplant = expect == Expect::Undecidable && t.what.contains("current document of") && t.what.contains("fields [\"an\", \"at\", \"av\", \"g\"] removed");
    if k == 0 && ctx.case % 3 == 0 && (idx == 0 || (ctx.case % 6 == 0 && legacy_looking_transplant)) {
        let (what, strict) = (t.what.clone(), ctx.strict);
        st.sample(move || json!({"monitor": "warm_retry", "class": class, "tamper": what, "strict": strict, "first_read / second_read outcomes": seen}));
    }
    ok
}

fn outcome_word(o: &Outcome) -> &'static str {
    match o {
        Outcome::Failed => "failed",
        Outcome::Original => "original",
        Outcome::Previous => "previous version in full",
        Outcome::Wrong(_) => "WRONG",
    }
}

fn tamper_case(case: u64, rng: &mut Rng, st: &mut Stats, chunks: &[u64], deep: bool) -> bool {
    let r = block_on(tamper_case_async(case, rng, st, chunks, deep));
    flush_site_counts();
    r
}

/// Returns true when every tamper site of the state was enumerated.
async fn tamper_case_async(case: u64, rng: &mut Rng, st: &mut Stats, chunks: &[u64], deep: bool) -> bool {
    // case -> (chunk size, size class of key 0, write method of key 0); key 1 takes the
    // "opposite" size class and the next method, so every combination is fully tampered on both
    let n_sizes = 6;
    // the thorough tier repeats the whole state space with fresh contents (nonces, tokens and
    // therefore the CBOR bytes differ from repetition to repetition)
    let repetition = case as usize / (chunks.len() * n_sizes * METHODS.len());
    st.max("max_state_space_repetitions", repetition as u64 + 1);
    // largest states first (better load balance of the parallel section)
    let ci = chunks.len() - 1 - ((case as usize) / (n_sizes * METHODS.len())) % chunks.len();
    let si = n_sizes - 1 - (case as usize / METHODS.len()) % n_sizes;
    let mi = case as usize % METHODS.len();
    let c = chunks[ci % chunks.len()];
    let sizes = sizes_for(c as usize);
    let strict = (ci + si + mi) % 2 == 1;
    let spy = SpyStore::new();
    let store = build_store(Arc::new(spy.clone()), c, false);
    let mut keys = vec![];
    let mut plaintexts = vec![];
    for k in 0..2usize {
        let size = sizes[(si + 3 * k) % n_sizes];
        let old_size = sizes[(si + 3 * k + 1 + rng.usize(5)) % n_sizes];
        let method = METHODS[(mi + k) % METHODS.len()];
        let new = plaintext(rng, size);
        let old = plaintext(rng, old_size);
        let key = if k == 0 { "k/a" } else { "k/b" };
        match write_key(&store, &spy.inner, key, &old, &new, method, rng).await {
            Ok(ks) => keys.push(ks),
            Err(e) => {
                st.inconclusive(format!("C09: building the object state failed: {e}"));
                return false;
            }
        }
        plaintexts.push(new);
        plaintexts.push(old);
        st.count(&format!("state_written_by:{method:?}"));
        st.count(&format!("state_size_class:{}", ["0", "1", "c-1", "c", "c+1", "2c+3"][(si + 3 * k) % n_sizes]));
    }
    st.count(&format!("states_chunk_size:{c}"));
    scan_for_plaintext(&spy, &plaintexts, st, &|| json!({"case": case, "workload": "tamper state construction", "chunk_size": c})).await;
    let s = State { base: spy.inner.fork(), chunk: c, keys, deep };
    let ctx = StateCtx { case, s: &s, strict };

    // the untouched state must read back exactly (both modes), else nothing below means anything
    for strict in [false, true] {
        let store = build_store(Arc::new(s.base.fork()), c, strict);
        let mut probe = Probe { st, class: "untouched", outcomes: vec![] };
        for k in 0..2 {
            read_battery(&store, &s.keys[k], c as usize, true, Expect::Normal, k, &mut probe).await;
        }
        listing_outcomes(&store, &s.keys, [Expect::Normal; 2], &mut probe).await;
        for k in 0..2 {
            copy_then_read(&store, &s.keys[k], k, false, &mut probe).await;
        }
        let bad: Vec<_> = probe.outcomes.iter().filter(|(_, o)| *o != Outcome::Original).cloned().collect();
        if !bad.is_empty() {
            st.violation(
                "C09/untouched_state_not_readable",
                json!({"case": case, "chunk_size": c, "strict": strict, "outcomes": format!("{bad:?}"),
                       "sizes": s.keys.iter().map(|k| k.orig.len()).collect::<Vec<_>>(),
                       "methods": s.keys.iter().map(|k| format!("{:?}", k.method)).collect::<Vec<_>>()}),
            );
            return false;
        }
    }

    let mut complete = true;
    // compound tampers that drive the stale-pointer retry of a warm instance
    {
        'compound: for k in 0..2 {
            let mut compounds = vec![];
            enumerate_compound(&s, k, &mut compounds);
            for (i, t) in compounds.iter().enumerate() {
                if !run_compound(&ctx, t, k, i, st).await {
                    complete = false;
                    break 'compound;
                }
                // the stripped documents are judged under both authentication modes
                if t.class == WR_STRIPPED {
                    let other = StateCtx { case, s: &s, strict: !strict };
                    if !run_compound(&other, t, k, i + 1, st).await {
                        complete = false;
                        break 'compound;
                    }
                }
            }
        }
    }
    let mut tampers = vec![];
    enumerate_tampers(&s, rng, &mut tampers);
    for (i, t) in tampers.iter().enumerate() {
        if !complete {
            break; // one report per state
        }
        if !run_tamper(&ctx, t, i, false, st).await {
            complete = false;
            break; // one report per state
        }
        // payload tampers also against a warm instance (cached metadata, stale-pointer retry)
        if !t.edits.iter().any(|(p, _)| p.starts_with("meta/")) && !run_tamper(&ctx, t, i, true, st).await {
            complete = false;
            break;
        }
        // the downgrade-related classes are judged under both authentication modes
        if t.class.starts_with("strip_") || t.class == "repoint_generation" {
            let other = StateCtx { case, s: &s, strict: !strict };
            if !run_tamper(&other, t, i + 1, false, st).await {
                complete = false;
                break;
            }
        }
    }
    st.add(if strict { "tampers_judged_strict_mode" } else { "tampers_judged_compat_mode" }, tampers.len() as u64);
    st.max("max_tamper_sites_per_state", tampers.len() as u64);
    st.distinct(vcore::fnv_str(&format!("{c}|{si}|{mi}|{repetition}")));
    if case % 24 < 2 {
        st.sample(|| {
            json!({"monitor": "tamper_enumeration", "chunk_size": c, "strict": strict,
               "keys": s.keys.iter().map(|k| format!("{} {}B via {:?} (previous version {}B), metadata {}B", k.key, k.orig.len(), k.method, k.old.len(), k.meta_new.len())).collect::<Vec<_>>(),
               "tamper_sites": tampers.len()})
        });
    }
    complete
}

// ---------------------------------------------------------------------------------------------
// monitor 2: plaintext scan

async fn scan_for_plaintext(spy: &SpyStore, plaintexts: &[Vec<u8>], st: &mut Stats, ctx: &dyn Fn() -> serde_json::Value) {
    let mut windows: HashSet<[u8; 8]> = HashSet::new();
    for p in plaintexts {
        for w in p.windows(8) {
            windows.insert(w.try_into().unwrap());
        }
    }
    let sent: Vec<(String, Bytes)> = spy.log.lock().unwrap().payloads.clone();
    let persisted = dump_store(spy.inner.as_ref()).await;
    st.add("payloads_crossing_backend_boundary_scanned", sent.len() as u64);
    st.add("persisted_objects_scanned", persisted.len() as u64);
    st.add("plaintext_windows_in_dictionary", windows.len() as u64);
    for (origin, (path, bytes)) in sent
        .iter()
        .map(|x| ("sent to backend", x))
        .chain(persisted.iter().map(|x| ("persisted", x)))
    {
        st.count("oracle_plaintext_scan");
        st.add("backend_windows_scanned", bytes.len().saturating_sub(7) as u64);
        let kind = if path.starts_with("meta/") { "metadata" } else { "payload" };
        if bytes.len() >= MARKER.len() && bytes.windows(MARKER.len()).any(|w| w == MARKER) {
            st.violation(
                format!("C09/plaintext/{kind}/marker_on_backend"),
                json!({"origin": origin, "object": path, "context": ctx()}),
            );
            return;
        }
        if let Some(pos) = bytes.windows(8).position(|w| windows.contains(<&[u8; 8]>::try_from(w).unwrap())) {
            st.violation(
                format!("C09/plaintext/{kind}/plaintext_window_on_backend"),
                json!({"origin": origin, "object": path, "offset": pos, "window": hex(&bytes[pos..pos + 8]), "context": ctx()}),
            );
            return;
        }
    }
}

fn leak_plaintext(rng: &mut Rng, c: usize) -> Vec<u8> {
    match rng.below(10) {
        // run of one byte value: a constant ciphertext run would show a keystream-less cipher
        0 | 1 => vec![rng.below(256) as u8; 16 + rng.usize(3 * c.min(64) + 20)],
        // marker inside random bytes
        2..=5 => {
            let n = rng.usize(2 * c.min(300) + 40);
            let mut v = rng.bytes(n);
            let at = rng.usize(v.len() + 1);
            v.splice(at..at, MARKER.iter().copied());
            v
        }
        _ => {
            let n = match rng.below(6) {
                0 => 8,
                1 => c,
                2 => c + 1,
                3 => 2 * c.min(2000) + 3,
                _ => 9 + rng.usize(400),
            };
            rng.bytes(n.max(8))
        }
    }
}

fn leak_case(case: u64, rng: &mut Rng, st: &mut Stats) {
    block_on(leak_case_async(case, rng, st));
    flush_site_counts();
}

async fn leak_case_async(case: u64, rng: &mut Rng, st: &mut Stats) {
    let c = *rng.pick(&[1u64, 7, 16, 64, 4096]);
    let spy = SpyStore::new();
    let store = build_store(Arc::new(spy.clone()), c, rng.bool());
    let keys = ["p/a", "p/b", "q", "p/a/n"];
    let mut model: BTreeMap<&str, Vec<u8>> = BTreeMap::new();
    let mut plaintexts: Vec<Vec<u8>> = vec![];
    let mut history = vec![];
    for _ in 0..(10 + rng.usize(12)) {
        let key = *rng.pick(&keys);
        let path = Path::from(key);
        match rng.weighted(&[28, 14, 8, 8, 8, 10, 10, 8, 6]) {
            0 => {
                let v = leak_plaintext(rng, c as usize);
                plaintexts.push(v.clone());
                history.push(format!("put {key} {}B", v.len()));
                if store.put(&path, PutPayload::from(v.clone())).await.is_ok() {
                    model.insert(key, v);
                }
                st.count("leak_op:put");
            }
            1 => {
                let v = leak_plaintext(rng, c as usize);
                plaintexts.push(v.clone());
                let parts = split_parts(rng, &v, 6);
                history.push(format!("multipart {key} {:?}", parts.iter().map(|p| p.len()).collect::<Vec<_>>()));
                if do_multipart(&store, &path, &parts).await.is_ok() {
                    model.insert(key, v);
                }
                st.count("leak_op:multipart_complete");
            }
            2 => {
                // aborted upload: the parts already reached the backend
                let v = leak_plaintext(rng, c as usize);
                plaintexts.push(v.clone());
                history.push(format!("multipart {key} {}B aborted", v.len()));
                if let Ok(mut up) = store.put_multipart(&path).await {
                    for p in split_parts(rng, &v, 5) {
                        let _ = up.put_part(PutPayload::from(p)).await;
                    }
                    let _ = up.abort().await;
                }
                st.count("leak_op:multipart_abort");
            }
            3 => {
                // upload dropped without complete or abort
                let v = leak_plaintext(rng, c as usize);
                plaintexts.push(v.clone());
                history.push(format!("multipart {key} {}B dropped", v.len()));
                if let Ok(mut up) = store.put_multipart(&path).await {
                    for p in split_parts(rng, &v, 5) {
                        let _ = up.put_part(PutPayload::from(p)).await;
                    }
                }
                st.count("leak_op:multipart_dropped");
            }
            4 => {
                // put whose pointer switch fails: the generation stays behind
                let v = leak_plaintext(rng, c as usize);
                plaintexts.push(v.clone());
                history.push(format!("put {key} {}B, commit fails", v.len()));
                spy.log.lock().unwrap().fail_next_meta_put = true;
                let r = store.put(&path, PutPayload::from(v.clone())).await;
                spy.log.lock().unwrap().fail_next_meta_put = false;
                if r.is_ok() {
                    model.insert(key, v);
                } else {
                    st.count("leak_op:put_commit_failed");
                }
            }
            5 => {
                let to = *rng.pick(&keys);
                history.push(format!("copy {key} -> {to}"));
                if store.copy(&path, &Path::from(to)).await.is_ok() {
                    if let Some(v) = model.get(key).cloned() {
                        model.insert(to, v);
                    }
                }
                st.count("leak_op:copy");
            }
            6 => {
                let to = *rng.pick(&keys);
                history.push(format!("rename {key} -> {to}"));
                if store.rename(&path, &Path::from(to)).await.is_ok() && to != key {
                    if let Some(v) = model.remove(key) {
                        model.insert(to, v);
                    }
                }
                st.count("leak_op:rename");
            }
            7 => {
                history.push(format!("delete {key}"));
                if store.delete(&path).await.is_ok() {
                    model.remove(key);
                }
                st.count("leak_op:delete");
            }
            _ => {
                history.push("collect_garbage".into());
                let _ = store.collect_garbage().await;
                st.count("leak_op:gc");
            }
        }
    }
    // the workload must have been a real one: everything reads back
    for (k, v) in &model {
        match store.get(&Path::from(*k)).await {
            Ok(r) => match r.bytes().await {
                Ok(b) if b.as_ref() == v.as_slice() => {}
                other => {
                    st.violation(
                        "C09/plaintext_workload/read_back_differs",
                        json!({"case": case, "key": k, "expected_len": v.len(), "got": format!("{:?}", other.map(|b| b.len())), "history": history}),
                    );
                    return;
                }
            },
            Err(e) => {
                st.violation(
                    "C09/plaintext_workload/read_back_differs",
                    json!({"case": case, "key": k, "error": format!("{e}"), "history": history}),
                );
                return;
            }
        }
    }
    st.eval();
    scan_for_plaintext(&spy, &plaintexts, st, &|| json!({"case": case, "workload": history, "chunk_size": c})).await;
    if case < 2 {
        st.sample(|| json!({"monitor": "plaintext_scan", "chunk_size": c, "operations": history.iter().take(10).collect::<Vec<_>>()}));
    }
}

// ---------------------------------------------------------------------------------------------
// monitor 3 workload: many encryptions, long chunk-index runs

fn nonce_case(case: u64, rng: &mut Rng, st: &mut Stats, volume: usize) {
    block_on(nonce_case_async(case, rng, st, volume));
    flush_site_counts();
}

async fn nonce_case_async(case: u64, rng: &mut Rng, st: &mut Stats, volume: usize) {
    let c = *rng.pick(&[1u64, 1, 2, 3, 16]);
    let mem = Arc::new(InMemory::new());
    let store = build_store(mem.clone(), c, false);
    let mut done = 0usize;
    let mut i = 0;
    while done < volume {
        i += 1;
        let key = Path::from(format!("n/{}", rng.below(6)));
        let n = 200 + rng.usize(volume / 3 + 1);
        let v = rng.bytes(n);
        let via_multipart = rng.bool();
        let r = if via_multipart {
            // many parts, smaller and larger than the chunk size, so that the uploader's
            // chunk-index counter runs across part boundaries
            let mut parts = vec![];
            let mut rest = &v[..];
            while !rest.is_empty() {
                let m = (1 + rng.usize(40)).min(rest.len());
                parts.push(rest[..m].to_vec());
                rest = &rest[m..];
            }
            st.add("nonce_workload_multipart_parts", parts.len() as u64);
            do_multipart(&store, &key, &parts).await
        } else {
            store.put(&key, PutPayload::from(v.clone())).await.map(|_| ())
        };
        st.count(if via_multipart { "nonce_workload_multipart" } else { "nonce_workload_put" });
        st.max("max_chunks_per_object", n.div_ceil(c as usize) as u64);
        done += n.div_ceil(c as usize);
        // read-back: a chunk counter that drifted between writer and reader would fail here
        let got = match &r {
            Ok(()) => match store.get(&key).await {
                Ok(g) => g.bytes().await.ok(),
                Err(_) => None,
            },
            Err(_) => None,
        };
        st.eval();
        if got.as_deref() != Some(&v[..]) {
            st.violation(
                "C09/nonce_workload/read_back_differs",
                json!({"case": case, "object": i, "chunk_size": c, "size": n, "multipart": via_multipart,
                       "write": format!("{:?}", r.as_ref().map_err(|e| e.to_string())), "read_len": got.map(|g| g.len())}),
            );
            return;
        }
        // consistency of the two views: the nonces the documented derivation yields for the
        // committed document (base nonce + chunk index) are nonces the hook saw
        if let Some(doc) = raw(&mem, &format!("meta/{key}")).await {
            let m = cbor_decode(&doc).unwrap_or_default();
            if let (Some(Cbor::Bytes(base)), Some(Cbor::Array(tags))) = (field(&m, "n"), field(&m, "t")) {
                if base.len() == 12 && !tags.is_empty() && !nonce_mon().saturated.load(Ordering::Relaxed) {
                    let mut b = [0u8; 12];
                    b.copy_from_slice(base);
                    let mut idxs = vec![0u64, tags.len() as u64 - 1];
                    for _ in 0..6 {
                        idxs.push(rng.below(tags.len() as u64));
                    }
                    for i in idxs {
                        let mut nonce = b;
                        let ctr = u64::from_le_bytes(nonce[4..12].try_into().unwrap()).wrapping_add(i);
                        nonce[4..12].copy_from_slice(&ctr.to_le_bytes());
                        st.count("nonce_hook_consistency_checks");
                        let shard = &nonce_mon().shards[(nonce[0] as usize ^ nonce[5] as usize) % SHARDS];
                        if !shard.lock().unwrap_or_else(|e| e.into_inner()).contains_key(&nonce) {
                            st.inconclusive("nonce hook drift: a nonce derived from a committed document (base nonce + chunk index) was never reported by the hook");
                        }
                    }
                }
            }
        }
        if case == 0 && i == 1 {
            st.sample(|| json!({"monitor": "nonce_workload", "chunk_size": c, "first_object_bytes": n, "chunks": n.div_ceil(c as usize), "multipart": via_multipart}));
        }
        if rng.chance(1, 3) {
            let to = Path::from(format!("n/copy{}", rng.below(3)));
            let _ = store.copy(&key, &to).await;
            st.count("nonce_workload_copy");
        }
    }
}

// ---------------------------------------------------------------------------------------------

fn main() {
    let mut run = Run::from_args(
        "C09",
        "exploration",
        "object states = (chunk size, size class of key 0, write method of key 0) with key 1 on the \
         opposite size class / next method; every state is distinct and non-trivial (two keys, two \
         generations each); all single-site tampers of every state are enumerated",
    );
    anda_object_store::verif::set_nonce_hook(Some(nonce_hook));
    run.assume("one AES-256-GCM key for the whole run (the nonce monitor keeps one table over all sections)");
    run.assume("object keys/paths are stored in clear by design (docs 2): only object content counts as plaintext");
    run.assume("whole-key rollback (previous metadata document over a still existing previous payload) is not decidable by the store: counted, not asserted");
    run.assume("compatibility mode (the default) accepts a metadata document without any of an/at/av/g as genuine legacy metadata by documented design (downgrade window, closed by with_strict_metadata_auth): tampers whose installed document looks like that are counted, not asserted, in compatibility mode and must be rejected on every read path in strict mode");
    let t = run.tier;
    let chunks: Vec<u64> = vec![1, 7, 16];
    let n_states = (chunks.len() * 6 * METHODS.len()) as u64 * t.pick(1, 3);
    let mut exhaustive = true;
    // the nonce workload goes first: its chunk nonces enter the table before the many metadata
    // seals of the tamper section's copy-then-read probes
    if run.wants("nonce") {
        run.parallel("nonce", t.pick(48, 220), 0.12, |c, rng, st| nonce_case(c, rng, st, t.pick(6000, 20_000)));
    }
    if run.wants("leak") {
        run.parallel("leak", t.pick(1500, 60_000), 0.25, leak_case);
    }
    if run.wants("tamper") {
        let complete = AtomicU64::new(0);
        let ran = run.parallel("tamper", n_states, 0.95, |c, rng, st| {
            if tamper_case(c, rng, st, &chunks, t.pick(false, true)) {
                complete.fetch_add(1, Ordering::Relaxed);
            }
        });
        exhaustive &= ran == n_states && complete.load(Ordering::Relaxed) == n_states;
        run.stats.add("object_states_fully_enumerated", complete.load(Ordering::Relaxed));
    }
    // nonce monitor verdict
    let m = nonce_mon();
    run.stats.add("nonce_events_observed", m.events.load(Ordering::Relaxed));
    run.stats.add("nonce_distinct_nonces", m.distinct.load(Ordering::Relaxed));
    run.stats.add("nonce_identical_triples_repeated", m.identical_repeats.load(Ordering::Relaxed));
    for (site, n) in m.sites.lock().unwrap().iter() {
        run.stats.add(&format!("nonce_site:{site}"), *n);
    }
    if m.saturated.load(Ordering::Relaxed) {
        run.stats.add("nonce_table_saturated", 1);
    }
    let collisions = m.collisions.lock().unwrap().clone();
    if !collisions.is_empty() {
        run.stats.violation(
            "C09/nonce/reused_for_different_input",
            json!({"collisions": collisions, "note": "the same 96-bit nonce was handed to the cipher with a different (aad, plaintext) under one key"}),
        );
    }
    if run.only.is_none() && run.replay.is_none() {
        run.exhaustive = Some(exhaustive);
    }
    run.floor("tamper_sites", 50_000);
    for class in [
        "bitflip_payload", "bitflip_metadata", "truncate_payload", "truncate_metadata", "extend_payload",
        "extend_metadata", "swap_chunks", "swap_payloads_between_keys", "swap_metadata_between_keys",
        "payload_from_other_generation", "metadata_from_other_key", "repoint_generation",
        "replay_old_metadata_with_old_payload", "strip_field", "strip_auth_keeping_v1_fields",
        "strip_auth_full_downgrade", "strip_seal_then_bitflip", "transplant_field", "control_reencode_identity",
    ] {
        run.floor(&format!("tamper:{class}"), 10);
    }
    for path in [
        "get", "head", "get_range_bounded", "get_range_offset", "get_range_suffix", "get_ranges", "list",
        "list_with_offset", "list_with_delimiter", "copy_then_read",
    ] {
        run.floor(&format!("reads:{path}"), 1000);
    }
    for m in ["Put", "Multipart", "Copy", "Rename"] {
        run.floor(&format!("state_written_by:{m}"), 4);
    }
    run.floor("read_failed", 10_000);
    run.floor("read_returned_original", 10_000);
    run.floor("rollback_whole_key_previous_version_served", 10);
    // compound tampers against warm instances (stale-pointer retry / re-resolution paths)
    for (class, min) in WR_CLASSES.iter().zip([100u64, 150, 200, 2000]) {
        run.floor(&format!("warm_retry:{class}"), min);
    }
    for path in WR_PAYLOAD_PATHS {
        run.floor(&format!("warm_retry_first_reads:{path}"), 2000);
        // the first read really went through the re-resolution (it fetched the commit point again)
        run.floor(&format!("warm_retry_pointer_re_resolved_by_first_read:{path}"), 2000);
    }
    for path in WR_LISTING_PATHS {
        run.floor(&format!("warm_retry_first_reads:{path}"), 2000);
    }
    run.floor("warm_retry_second_reads:get", 20_000);
    run.floor("warm_retry_read_failed", 50_000);
    run.floor("warm_retry_rollback_whole_key_previous_version_served", 500);
    run.floor("oracle_plaintext_scan", 5_000);
    run.floor("backend_windows_scanned", 100_000);
    run.floor("leak_op:multipart_abort", 20);
    run.floor("leak_op:put_commit_failed", 20);
    run.floor("nonce_events_observed", 100_000);
    run.floor("nonce_site:put_chunk", 10_000);
    run.floor("nonce_site:multipart_chunk", 10_000);
    run.floor("nonce_site:multipart_tail_chunk", 5);
    run.floor("nonce_site:metadata_seal", 1_000);
    run.floor("max_chunks_per_object", 1000);
    run.finish();
}

//! Fixtures shared by the C19 (governance non-interference) and C20 (belief projection) monitors:
//! a Nexus over `InMemory` with the bundled profile plus a small test package that has a
//! functional predicate, and a one-call "run this KIP command with these parameters" helper.

use anda_cognitive_nexus::{
    CognitiveNexus,
    nexus::DEFAULT_SPACE,
    schema::{PackageState, SchemaLock, SchemaPackage},
};
use anda_db::database::{AndaDB, DBConfig};
use anda_kip::{Executor, Request, Response, TopLevelStatus};
use object_store::memory::InMemory;
use serde_json::{Value, json};
use std::sync::Arc;

pub const PROFILE_ID: &str = "kip://profiles/cognitive-memory";
pub const TEST_PACKAGE_ID: &str = "kip://test/status";

/// The package of tests/belief.rs: `status` is functional (single-valued), `mentions` is not.
pub const STATUS_PACKAGE: &str = r#"{
    "format": "KIP-Schema-Package",
    "manifest": {"package_id": "kip://test/status", "version": "1.0.0"},
    "definitions": {
        "concept_types": {
            "Service": {"kind": "ConceptType", "description": "A service."},
            "Status": {"kind": "ConceptType", "description": "A status value."}
        },
        "predicates": {
            "status": {
                "kind": "PredicateType",
                "description": "The service's current status. Single-valued.",
                "functional": true,
                "open_world": true
            },
            "mentions": {
                "kind": "PredicateType",
                "description": "Non-functional reference.",
                "functional": false
            }
        }
    }
}"#;

/// A fresh Nexus on its own in-memory object store, bundled profile + test package active in the
/// default Space.
pub async fn fresh_nexus(name: &str) -> Result<CognitiveNexus, String> {
    let db = AndaDB::connect(
        Arc::new(InMemory::new()),
        DBConfig {
            name: name.to_string(),
            description: "verif".to_string(),
            ..Default::default()
        },
    )
    .await
    .map_err(|e| format!("AndaDB::connect: {e:?}"))?;
    let nexus = CognitiveNexus::connect(Arc::new(db))
        .await
        .map_err(|e| format!("CognitiveNexus::connect: {e:?}"))?;
    for source in [anda_cognitive_nexus::profiles::COGNITIVE_MEMORY, STATUS_PACKAGE] {
        let pkg = SchemaPackage::parse(source).map_err(|e| format!("package parse: {e:?}"))?;
        nexus
            .install_package(&pkg, "verif")
            .await
            .map_err(|e| format!("install_package: {e:?}"))?;
    }
    let mut lock = SchemaLock::default();
    for (id, version) in [(PROFILE_ID, "2.0.0"), (TEST_PACKAGE_ID, "1.0.0")] {
        lock.packages.insert(id.to_string(), version.to_string());
        lock.states.insert(id.to_string(), PackageState::Active);
    }
    nexus
        .activate_schema(DEFAULT_SPACE, lock)
        .await
        .map_err(|e| format!("activate_schema: {e:?}"))?;
    Ok(nexus)
}

/// Builds the single-operation request envelope for `command` with operation-level `params`
/// (a JSON object or Null).
pub fn request_of(command: &str, params: &Value) -> Result<Request, String> {
    let mut op = json!({"command": command});
    if params.is_object() && !params.as_object().unwrap().is_empty() {
        op["parameters"] = params.clone();
    }
    serde_json::from_value::<Request>(json!({"kip": "2.0", "operations": [op]}))
        .map_err(|e| format!("request envelope: {e}"))
}

/// Parses and executes one command. `Err` = the command did not parse (harness-side problem or
/// a deliberately malformed command); execution failures come back as a `Response`.
pub async fn exec<E: Executor + Sync>(
    ex: &E,
    command: &str,
    params: &Value,
) -> Result<Response, String> {
    let request = request_of(command, params)?;
    let parsed = request.operations[0]
        .parse()
        .map_err(|e| format!("parse error: {} {}", e.name(), e.message))?;
    Ok(ex.execute(parsed, &request, &request.operations[0]).await)
}

/// Executes and requires success; returns the first result value.
pub async fn exec_ok<E: Executor + Sync>(
    ex: &E,
    command: &str,
    params: &Value,
) -> Result<Value, String> {
    let r = exec(ex, command, params).await?;
    if r.status != TopLevelStatus::Succeeded {
        return Err(format!(
            "command failed: {command} params={params} -> {}",
            serde_json::to_string(&r).unwrap_or_default()
        ));
    }
    Ok(r.first_result().cloned().unwrap_or(Value::Null))
}

/// The whole response as JSON (the byte-level observable of a session).
pub fn response_json(r: &Response) -> Value {
    serde_json::to_value(r).unwrap_or(Value::Null)
}

//! S-hook: turn-taking scheduler for 2-3 OS threads running synchronous index code that
//! calls `verif_point!(tag)` (cargo feature `verif` in /repo). A registered thread parks at
//! every point until the controller grants it the turn; the controller's choices are the
//! schedule. Threads blocked on a *real* lock never reach a point: the controller treats a
//! thread that made no transition for `block_after` as blocked and chooses among the parked
//! ones (wall clock here only shapes exploration - every produced interleaving is a real
//! execution and verdicts come from the recorded call/return history, never from timing).
//!
//! Without a scheduler on the current thread the hook injects seeded yields (stress mode).

use crate::manual::Chooser;
use std::cell::RefCell;
use std::sync::{Arc, Condvar, Mutex};
use std::time::{Duration, Instant};

#[derive(Clone, Copy, Debug, PartialEq, Eq)]
enum TState {
    Running,
    AtPoint(&'static str),
    Finished,
}

struct State {
    threads: Vec<TState>,
    granted: Option<usize>,
    trace: Vec<(u8, &'static str)>,
    transitions: u64,
}

#[derive(Clone)]
pub struct TurnSched {
    inner: Arc<(Mutex<State>, Condvar)>,
}

thread_local! {
    static SLOT: RefCell<Option<(TurnSched, usize)>> = const { RefCell::new(None) };
    static STRESS: RefCell<Option<(crate::rng::Rng, u32)>> = const { RefCell::new(None) };
    static TAG_LOG: RefCell<Option<Vec<&'static str>>> = const { RefCell::new(None) };
}

/// The function to install as the /repo hook callback.
pub fn hook(tag: &'static str) {
    let slot = SLOT.with(|s| s.borrow().clone());
    if let Some((sched, idx)) = slot {
        sched.at_point(idx, tag);
        return;
    }
    TAG_LOG.with(|l| {
        if let Some(v) = l.borrow_mut().as_mut() {
            v.push(tag);
        }
    });
    STRESS.with(|s| {
        if let Some((rng, one_in)) = s.borrow_mut().as_mut() {
            let r = rng.below(*one_in as u64 * 4);
            if r == 0 {
                std::thread::yield_now();
            } else if r == 1 {
                for _ in 0..rng.below(200) {
                    std::hint::spin_loop();
                }
            } else if r == 2 && *one_in <= 4 {
                std::thread::sleep(Duration::from_micros(rng.below(50)));
            }
        }
    });
}

/// Stress mode for the current thread: seeded random yields at hook points.
pub fn enable_stress(seed: u64, one_in: u32) {
    STRESS.with(|s| *s.borrow_mut() = Some((crate::rng::Rng::new(seed), one_in.max(1))));
}
pub fn disable_stress() {
    STRESS.with(|s| *s.borrow_mut() = None);
}
/// Records the tags hit by the current thread (no scheduling) - to count reached hook points.
pub fn start_tag_log() {
    TAG_LOG.with(|l| *l.borrow_mut() = Some(vec![]));
}
pub fn take_tag_log() -> Vec<&'static str> {
    TAG_LOG.with(|l| l.borrow_mut().take().unwrap_or_default())
}

#[derive(Debug, Clone, PartialEq, Eq)]
pub enum SchedEnd {
    AllFinished,
    /// some thread neither parked nor finished within the watchdog (inconclusive, not a verdict)
    Watchdog,
}

impl TurnSched {
    pub fn new(n_threads: usize) -> Self {
        TurnSched {
            inner: Arc::new((
                Mutex::new(State {
                    threads: vec![TState::Running; n_threads],
                    granted: None,
                    trace: vec![],
                    transitions: 0,
                }),
                Condvar::new(),
            )),
        }
    }

    /// Called by worker thread `idx` before its script; parks at the synthetic point "start".
    pub fn register(&self, idx: usize) {
        SLOT.with(|s| *s.borrow_mut() = Some((self.clone(), idx)));
        self.at_point(idx, "start");
    }

    /// Called by worker thread `idx` after its script.
    pub fn finish(&self, idx: usize) {
        SLOT.with(|s| *s.borrow_mut() = None);
        let (m, cv) = &*self.inner;
        let mut st = m.lock().unwrap();
        st.threads[idx] = TState::Finished;
        st.transitions += 1;
        cv.notify_all();
    }

    fn at_point(&self, idx: usize, tag: &'static str) {
        let (m, cv) = &*self.inner;
        let mut st = m.lock().unwrap();
        st.threads[idx] = TState::AtPoint(tag);
        st.transitions += 1;
        cv.notify_all();
        while st.granted != Some(idx) {
            st = cv.wait(st).unwrap();
        }
        st.granted = None;
        st.threads[idx] = TState::Running;
        st.trace.push((idx as u8, tag));
        st.transitions += 1;
        cv.notify_all();
    }

    /// Controller loop. Returns the (thread, tag) trace in grant order.
    pub fn control<C: Chooser + ?Sized>(
        &self,
        chooser: &mut C,
        block_after: Duration,
        watchdog: Duration,
    ) -> (SchedEnd, Vec<(u8, &'static str)>) {
        let (m, cv) = &*self.inner;
        let mut st = m.lock().unwrap();
        let start = Instant::now();
        loop {
            // wait for quiescence: nobody Running, or Running threads stable for block_after
            let mut last_tr = st.transitions;
            let mut stable_since = Instant::now();
            loop {
                let running = st.threads.iter().any(|t| *t == TState::Running);
                let parked = st.threads.iter().any(|t| matches!(t, TState::AtPoint(_)));
                if !running {
                    break;
                }
                if st.transitions != last_tr {
                    last_tr = st.transitions;
                    stable_since = Instant::now();
                }
                if parked && stable_since.elapsed() >= block_after {
                    break; // the Running ones are blocked on real locks
                }
                if start.elapsed() > watchdog {
                    // release everybody so that the threads can be joined
                    return self.bail(st);
                }
                let (g, _) = cv.wait_timeout(st, Duration::from_micros(200)).unwrap();
                st = g;
            }
            let parked: Vec<usize> = st
                .threads
                .iter()
                .enumerate()
                .filter(|(_, t)| matches!(t, TState::AtPoint(_)))
                .map(|(i, _)| i)
                .collect();
            if parked.is_empty() {
                if st.threads.iter().all(|t| *t == TState::Finished) {
                    return (SchedEnd::AllFinished, st.trace.clone());
                }
                continue;
            }
            let c = if parked.len() == 1 {
                0
            } else {
                chooser.choose(parked.len()).min(parked.len() - 1)
            };
            let i = parked[c];
            st.granted = Some(i);
            cv.notify_all();
            // wait until the grantee picked the grant up
            while st.granted == Some(i) {
                if start.elapsed() > watchdog {
                    return self.bail(st);
                }
                let (g, _) = cv.wait_timeout(st, Duration::from_millis(1)).unwrap();
                st = g;
            }
        }
    }

    fn bail(
        &self,
        mut st: std::sync::MutexGuard<'_, State>,
    ) -> (SchedEnd, Vec<(u8, &'static str)>) {
        let (_, cv) = &*self.inner;
        let trace = st.trace.clone();
        // free-run: grant whoever parks, until all finished or a hard cap
        let hard = Instant::now();
        loop {
            if st.threads.iter().all(|t| *t == TState::Finished) {
                break;
            }
            if hard.elapsed() > Duration::from_secs(20) {
                break;
            }
            if st.granted.is_none() {
                if let Some(i) = st
                    .threads
                    .iter()
                    .position(|t| matches!(t, TState::AtPoint(_)))
                {
                    st.granted = Some(i);
                    cv.notify_all();
                }
            }
            let (g, _) = cv.wait_timeout(st, Duration::from_millis(1)).unwrap();
            st = g;
        }
        (SchedEnd::Watchdog, trace)
    }
}

//! Shared fixtures of the v_schema monitors.

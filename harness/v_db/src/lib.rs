//! Shared fixtures of the v_db monitors (C01-C06): "fixture F" of DESIGN.md - a collection with
//! unique / multi-field / array / map-key / optional indexed fields, a text field and an optional
//! vector; a document model (`BTreeMap<id, FDoc>`) with the documented accept/reject rules; the
//! bidirectional index<->document audit (C02) used by every other monitor as well.

pub mod audit;
pub mod crash;
pub mod driver;

use anda_db::{
    collection::{Collection, CollectionConfig},
    database::{AndaDB, DBConfig},
    error::DBError,
    index::HnswConfig,
    schema::{AndaDBSchema, Fv, Vector, bf16},
    storage::StorageConfig,
};
use object_store::ObjectStore;
use serde::{Deserialize, Serialize};
use std::collections::{BTreeMap, BTreeSet};
use std::sync::Arc;
use vcore::Rng;

pub const DB_NAME: &str = "vdb";
pub const COLL: &str = "docs";
pub const DIM: usize = 4;

pub const VOCAB: [&str; 12] = [
    "apple", "banana", "cherry", "delta", "echo", "forest", "garden", "harbor", "island", "jungle",
    "kernel", "lemon",
];
pub const OOV: [&str; 2] = ["zeppelin", "quixotic"];

#[derive(Debug, Clone, Serialize, Deserialize, PartialEq, AndaDBSchema)]
pub struct FDoc {
    pub _id: u64,
    #[unique]
    pub uname: String,
    pub age: u64,
    pub score: Option<i64>,
    pub tags: Vec<String>,
    #[unique]
    pub codes: Vec<String>,
    pub attrs: BTreeMap<String, u64>,
    pub body: String,
    pub embedding: Vector,
    pub grp: String,
    pub slot: u64,
}

#[derive(Debug, Clone, Copy, PartialEq, Eq)]
pub struct Cfg {
    pub compress: i32,
    pub cache: bool,
    pub bucket: usize,
}

impl Cfg {
    pub fn random(rng: &mut Rng) -> Cfg {
        Cfg {
            compress: *rng.pick(&[0, 0, 3]),
            cache: rng.bool(),
            bucket: *rng.pick(&[64usize, 64, 256, 1 << 20]),
        }
    }
    pub fn db_config(&self) -> DBConfig {
        DBConfig {
            name: DB_NAME.to_string(),
            description: "verif fixture".to_string(),
            storage: StorageConfig {
                compress_level: self.compress,
                cache_max_capacity: if self.cache { 10000 } else { 0 },
                bucket_overload_size: self.bucket,
                ..Default::default()
            },
            lock: None,
        }
    }
}

/// Which indexes the open callback makes sure exist (and removes when absent).
#[derive(Debug, Clone, Copy, PartialEq, Eq, Hash)]
pub struct IndexSet(pub u16);

impl IndexSet {
    pub const UNAME: u16 = 1;
    pub const AGE: u16 = 2;
    pub const SCORE: u16 = 4;
    pub const TAGS: u16 = 8;
    pub const CODES: u16 = 16;
    pub const ATTRS: u16 = 32;
    pub const GRPSLOT: u16 = 64;
    pub const BM25: u16 = 128;
    pub const HNSW: u16 = 256;
    pub const ALL: IndexSet = IndexSet(511);
    pub fn has(&self, f: u16) -> bool {
        self.0 & f != 0
    }
    pub fn btree_list() -> [(u16, &'static [&'static str]); 7] {
        [
            (Self::UNAME, &["uname"]),
            (Self::AGE, &["age"]),
            (Self::SCORE, &["score"]),
            (Self::TAGS, &["tags"]),
            (Self::CODES, &["codes"]),
            (Self::ATTRS, &["attrs"]),
            (Self::GRPSLOT, &["grp", "slot"]),
        ]
    }
}

pub async fn connect(store: Arc<dyn ObjectStore>, cfg: &Cfg) -> Result<AndaDB, DBError> {
    AndaDB::connect(store, cfg.db_config()).await
}

/// Opens (or creates) the fixture collection, making the registered index set equal to `set`.
pub async fn open_coll(db: &AndaDB, set: IndexSet) -> Result<Arc<Collection>, DBError> {
    db.open_or_create_collection(
        FDoc::schema()?,
        CollectionConfig {
            name: COLL.to_string(),
            description: "fixture F".to_string(),
        },
        async move |c: &mut Collection| {
            // The order in which the callback creates / removes indexes is the application's
            // business, and it matters for crash safety (a removal persists the collection
            // metadata eagerly, registering whatever was created before it): the order is a
            // function of the target set, so that different workloads use different orders.
            #[derive(Clone, Copy)]
            enum StepKind {
                Btree(u16, &'static [&'static str]),
                Bm25,
                Hnsw,
            }
            let mut steps: Vec<StepKind> = IndexSet::btree_list().iter().map(|(f, fields)| StepKind::Btree(*f, *fields)).collect();
            steps.push(StepKind::Bm25);
            steps.push(StepKind::Hnsw);
            let n = steps.len();
            steps.rotate_left((set.0 as usize).wrapping_mul(5) % n);
            if (set.0 / 8) % 2 == 1 {
                steps.reverse();
            }
            for step in steps {
                match step {
                    StepKind::Btree(flag, fields) => {
                        if set.has(flag) {
                            c.create_btree_index_nx(fields).await?;
                        } else {
                            c.remove_btree_index(fields).await?;
                        }
                    }
                    StepKind::Bm25 => {
                        if set.has(IndexSet::BM25) {
                            c.create_bm25_index_nx(&["body"]).await?;
                        } else {
                            c.remove_bm25_index(&["body"]).await?;
                        }
                    }
                    StepKind::Hnsw => {
                        if set.has(IndexSet::HNSW) {
                            c.create_hnsw_index_nx(
                                "embedding",
                                HnswConfig {
                                    dimension: DIM,
                                    ..Default::default()
                                },
                            )
                            .await?;
                        } else {
                            c.remove_hnsw_index("embedding").await?;
                        }
                    }
                }
            }
            Ok(())
        },
    )
    .await
}

// ---------------------------------------------------------------------------------------------
// documents

/// `contention`: number of distinct values the unique fields are drawn from (small = conflicts).
pub fn gen_doc(rng: &mut Rng, contention: u64) -> FDoc {
    let n_words = 1 + rng.usize(5);
    let body = (0..n_words)
        .map(|_| *rng.pick(&VOCAB))
        .collect::<Vec<_>>()
        .join(" ");
    let mut tags: Vec<String> = (0..rng.usize(4))
        .map(|_| format!("t{}", rng.below(6)))
        .collect();
    dedup(&mut tags);
    let mut codes: Vec<String> = (0..rng.usize(3))
        .map(|_| format!("c{}", rng.below(contention * 2)))
        .collect();
    dedup(&mut codes);
    let attrs: BTreeMap<String, u64> = (0..rng.usize(3))
        .map(|_| (format!("a{}", rng.below(5)), rng.below(100)))
        .collect();
    FDoc {
        _id: 0,
        uname: format!("u{}", rng.below(contention)),
        age: *rng.pick(&[0u64, 1, 18, 18, 23, 24, 30, 65, 255, 256, u64::MAX]),
        score: match rng.below(5) {
            0 => None,
            1 => Some(0),
            2 => Some(-(rng.below(50) as i64) - 1),
            3 => Some(i64::MIN),
            _ => Some(rng.below(50) as i64),
        },
        tags,
        codes,
        attrs,
        body,
        embedding: gen_vec(rng),
        grp: format!("g{}", rng.below(2)),
        slot: rng.below(contention.max(2)),
    }
}

fn dedup(v: &mut Vec<String>) {
    let mut seen = BTreeSet::new();
    v.retain(|x| seen.insert(x.clone()));
}

pub fn gen_vec(rng: &mut Rng) -> Vector {
    (0..DIM)
        .map(|_| bf16::from_f32((rng.below(64) as f32 - 32.0) / 4.0))
        .collect()
}

/// One update request: field name -> value, as handed to `Collection::update`.
pub type Patch = BTreeMap<String, Fv>;

#[derive(Debug, Clone, Copy, PartialEq, Eq, Hash, PartialOrd, Ord)]
pub enum Reject {
    Conflict,
    Schema,
    UnknownField,
    Missing,
    /// vector of the wrong dimension while a vector index is registered (index-level rejection
    /// that happens after other index families were already touched)
    BadVector,
}

/// Generates an update patch. `bad`: make it invalid in the given way (None = valid by schema;
/// it may still be rejected for uniqueness, which the model decides).
pub fn gen_patch(rng: &mut Rng, contention: u64, bad: Option<Reject>) -> Patch {
    let d = gen_doc(rng, contention);
    let mut p = Patch::new();
    let n = 1 + rng.usize(4);
    for _ in 0..n {
        match rng.below(10) {
            0 => {
                p.insert("uname".into(), Fv::Text(d.uname.clone()));
            }
            1 => {
                p.insert("age".into(), Fv::U64(d.age));
            }
            2 => {
                p.insert("score".into(), d.score.map(Fv::I64).unwrap_or(Fv::Null));
            }
            3 => {
                p.insert("tags".into(), text_array(&d.tags));
            }
            4 => {
                p.insert("codes".into(), text_array(&d.codes));
            }
            5 => {
                p.insert(
                    "attrs".into(),
                    Fv::Map(
                        d.attrs
                            .iter()
                            .map(|(k, v)| (k.clone().into(), Fv::U64(*v)))
                            .collect(),
                    ),
                );
            }
            6 => {
                p.insert("body".into(), Fv::Text(d.body.clone()));
            }
            7 => {
                p.insert("embedding".into(), Fv::Vector(d.embedding.clone()));
            }
            8 => {
                p.insert("grp".into(), Fv::Text(d.grp.clone()));
            }
            _ => {
                p.insert("slot".into(), Fv::U64(d.slot));
            }
        }
    }
    match bad {
        Some(Reject::Schema) => {
            // unambiguous schema violations only
            match rng.below(4) {
                0 => p.insert("age".into(), Fv::Text("not a number".into())),
                1 => p.insert("uname".into(), Fv::Null), // Null for a non-Option
                2 => p.insert("tags".into(), Fv::U64(7)),
                _ => p.insert("body".into(), Fv::Bool(true)),
            };
        }
        Some(Reject::UnknownField) => {
            p.insert("no_such_field".into(), Fv::U64(1));
        }
        Some(Reject::BadVector) => {
            p.insert("embedding".into(), Fv::Vector(d.embedding[..DIM - 1].to_vec()));
        }
        _ => {}
    }
    p
}

pub fn text_array(v: &[String]) -> Fv {
    Fv::Array(v.iter().map(|s| Fv::Text(s.clone())).collect())
}

/// Applies a (schema-valid) patch to a document value. Returns None when the patch carries a
/// shape this function does not model (then the model must not be consulted).
pub fn apply_patch(d: &FDoc, p: &Patch) -> Option<FDoc> {
    let mut n = d.clone();
    for (k, v) in p {
        match (k.as_str(), v) {
            ("uname", Fv::Text(s)) => n.uname = s.clone(),
            ("age", Fv::U64(x)) => n.age = *x,
            ("score", Fv::I64(x)) => n.score = Some(*x),
            ("score", Fv::Null) => n.score = None,
            ("tags", Fv::Array(a)) => n.tags = texts(a)?,
            ("codes", Fv::Array(a)) => n.codes = texts(a)?,
            ("attrs", Fv::Map(m)) => {
                let mut out = BTreeMap::new();
                for (k, v) in m {
                    match (k, v) {
                        (anda_db::schema::FieldKey::Text(k), Fv::U64(v)) => {
                            out.insert(k.clone(), *v);
                        }
                        _ => return None,
                    }
                }
                n.attrs = out;
            }
            ("body", Fv::Text(s)) => n.body = s.clone(),
            ("embedding", Fv::Vector(v)) => n.embedding = v.clone(),
            ("grp", Fv::Text(s)) => n.grp = s.clone(),
            ("slot", Fv::U64(x)) => n.slot = *x,
            _ => return None,
        }
    }
    Some(n)
}

fn texts(a: &[Fv]) -> Option<Vec<String>> {
    a.iter()
        .map(|v| match v {
            Fv::Text(s) => Some(s.clone()),
            _ => None,
        })
        .collect()
}

// ---------------------------------------------------------------------------------------------
// model

#[derive(Debug, Clone, Default, PartialEq)]
pub struct Model {
    pub docs: BTreeMap<u64, FDoc>,
    pub ext: BTreeMap<String, u64>,
}

impl Model {
    /// Uniqueness conflict of candidate `d` (as document `id`, 0 = new) with the live documents,
    /// restricted to the constraints that are enforced (= unique index registered).
    pub fn conflicts(&self, id: u64, d: &FDoc, set: IndexSet) -> bool {
        for (oid, o) in &self.docs {
            if *oid == id {
                continue;
            }
            if set.has(IndexSet::UNAME) && o.uname == d.uname {
                return true;
            }
            if set.has(IndexSet::CODES) && o.codes.iter().any(|c| d.codes.contains(c)) {
                return true;
            }
            if set.has(IndexSet::GRPSLOT) && o.grp == d.grp && o.slot == d.slot {
                return true;
            }
        }
        false
    }

    pub fn max_id(&self) -> u64 {
        self.docs.keys().next_back().copied().unwrap_or(0)
    }
}

/// Would creating the unique indexes of `set` over the documents of `m` fail at backfill?
pub fn backfill_conflict(m: &Model, set: IndexSet) -> bool {
    let mut un = BTreeSet::new();
    let mut co = BTreeSet::new();
    let mut gs = BTreeSet::new();
    for d in m.docs.values() {
        if set.has(IndexSet::UNAME) && !un.insert(d.uname.clone()) {
            return true;
        }
        if set.has(IndexSet::CODES) {
            for c in &d.codes {
                if !co.insert(c.clone()) {
                    return true;
                }
            }
        }
        if set.has(IndexSet::GRPSLOT) && !gs.insert((d.grp.clone(), d.slot)) {
            return true;
        }
    }
    false
}

pub fn err_kind(e: &DBError) -> String {
    let s = format!("{e:?}");
    s.split(|c: char| !c.is_alphanumeric())
        .next()
        .unwrap_or("")
        .to_string()
}
